"""C16 — qubit and orbital reductions.

Correspondence of reduce_number_of_terms / taper_off_qubits / project_onto_sector / projection_error /
rotate_qubit_by_pauli / freeze_orbitals / prune_unused_indices / edit_hamiltonian_for_spin / remove_indices
with the Lean Model (OFV.Model.C16) and Spec oracles evaluated by the driver on the implementation's own
outputs: agreement on the stabilizer code space (exact, OFV.Spec.Expr), embedded matrix elements (exact,
OFV.Spec.C16.embedDiff), sector spectra from the exact dense Spec matrices (numpy eigvalsh at 1e-9)."""
import itertools
import math
from fractions import Fraction

import numpy

from common import (Stream, budget, enc_op, enc_term, canon_op_json, to_gq, from_gq, dyadic, rng_for, show)

TRUSTED = [
    'C16: numpy.linalg.eigvalsh / eigh on Hermitian matrices (contract: eigenvalues ascending, accurate to 1e-10 on the '
    '<= 64x64 matrices used), numpy.cos / numpy.sin / math.atan2 accurate to 1 ulp',
    'C16: bravyi_kitaev_tree and reorder (property C05) are called as they are; their output is the input of the modelled '
    'edit_hamiltonian_for_spin / remove_indices steps and the end-to-end sector spectrum is checked against the Spec',
]
ASSUMPTIONS = [
    'argument types (hardening): qubits of project_onto_sector is a list (the source calls qubits.index), sectors a list or '
    'ndarray of int / bool / float 0-1 values; stabilizers a list, tuple, object ndarray or QubitOperator; position lists a '
    'list, tuple or ndarray; coefficients int / float / complex and their numpy subclasses float64 / complex128; '
    'symmetry_conserving_bravyi_kitaev takes Python ints only; rotation angles float / numpy.float64',
    'stabilizers are single Pauli strings with coefficient +1 or -1, pairwise commuting and independent; every Hamiltonian '
    'term commutes with every stabilizer; manual fixed positions lie in the support of the stabilizer they are used for '
    '(otherwise the code reuses a stale Pauli: compared with the Model only)',
    'coefficients are dyadic Gaussian rationals (exact float arithmetic); rotation angles are atan2 of Pythagorean pairs '
    '(compared at 1e-9, branches |c| < 1e-8 decided with margin >= 1e-3)',
    'symmetry_conserving_bravyi_kitaev: number- and spin-conserving Hermitian Hamiltonians on an even number of orbitals',
]
OPEN_STATEMENTS = [
    'taper_spectrum: proved (taper_off_qubits_invariant_subspace, with qbit_order in closed form: taper_qbit_order) for '
    'runs whose reduced operator carries on every removed qubit only I/X (fixed Pauli Z) or only I/Z (fixed Pauli X or Y) '
    '(counted as hypothesis(each removed qubit carries only I/X or only I/Z):True/False) in the exact regime: the tapered '
    'operator is the restriction of the reduced operator to the invariant subspace with the removed qubits in |+> resp. '
    '|0> (row sums over the removed register), hence its spectrum is contained in that of the reduced operator, which '
    'agrees with H on the code space (reduce_terms_agrees_on_codespace); not proved: that every eigenvalue of H on the code '
    'space is attained and the link between this sector and the joint +1 eigenspace of the original stabilizers; exactly '
    'the spectrum of H on the joint +1 eigenspace is checked numerically (eigvalsh, 1e-9) on every generated case',
    'reduce_terms_agrees_on_codespace is proved at the live tolerance under the per-run exact-regime flag the Model '
    'computes (every `new_terms +=` exact; the driver reports it, the stream counts exact-regime(reduce/taper):True/False); '
    'runs whose flag is False (a partial sum non-zero but below 1e-8) are outside the theorem; the checks of '
    'reduce_number_of_terms, the existence of fixed positions and taper_off_qubits on top of it: Spec oracle',
    '_reduce_terms_keep_length / _lookup_term: correspondence + Spec oracle only',
    'project_onto_sector_sound is proved at the live tolerance against the Spec embedding (project_onto_sector_sound_spec, '
    'spec_embed_is_emb) for operators whose terms are Pauli strings on distinct qubits below n and distinct removed '
    'qubits, under the per-run exact-regime flag (counted as exact-regime(project):True/False); duplicate entries in '
    '`qubits` and runs whose flag is False are outside the theorem (oracle only)',
    'rotate_qubit_by_pauli_sound is proved for exact (c, s) with c^2 + s^2 = 1 in the exact regime of the four sums '
    '(ExactAdd); not proved: that numpy.cos / numpy.sin deliver such a pair (floats: Spec oracle at 1e-9) and the case '
    'where a partial sum is pruned by the 1e-8 tolerance',
    'freeze_orbitals_sound (whole operators, several distinct frozen orbitals) is proved at the live tolerance against '
    'Spec.applyOp .fermion for prune=False and prune=True (the latter in the form the oracle evaluates: Spec.C16.embed S '
    'occupied with S the increasing list of used modes; prune_unused_indices_sound separately) under the per-run '
    'exact-regime flag (every `tmp_operator +=` of every pass exact; counted as exact-regime(freeze):True/False); not '
    'proved: repeated frozen indices and runs whose flag is False',
    'edit_hamiltonian_for_spin and remove_indices are proved on their own (edit_hamiltonian_for_spin_sound: matrix elements '
    'kept on the sector of the edited qubit, for operators with I/Z there, in the exact regime of compress; '
    'remove_indices_sound: for operators that do not act on the removed qubits); outside these hypotheses: correspondence only',
    'scbk_sector_sound is proved at the Model level: the reduction of symmetry_conserving_bravyi_kitaev '
    '(edit_hamiltonian_for_spin at the last and the middle qubit with the parities of N mod 4, remove_indices) has the '
    'matrix elements of the Bravyi-Kitaev-tree Hamiltonian between the basis states with the two removed qubits fixed '
    'by N mod 4, for operators that carry only I/Z on those qubits (counted: hypothesis(I/Z on the removed qubits)) in the '
    'exact regime of the two compress calls (counted: exact-regime(scbk)); checked exactly by the embedded-matrix-element '
    'oracle; not proved: that bravyi_kitaev_tree of a number- and spin-conserving operator satisfies the hypothesis and '
    'that the fixed sector is the (N, S_z) parity sector (end-to-end sector spectra checked numerically, n = 4; 6 in '
    'thorough)',
]

PAULI = {1: 'X', 2: 'Y', 3: 'Z'}


# ------------------------------------------------------------------ Pauli helpers (generation only)

def commute(p, q):
    """p, q: dict qubit -> code"""
    anti = 0
    for i, a in p.items():
        b = q.get(i)
        if b is not None and a != b:
            anti += 1
    return anti % 2 == 0


def sympl(p, n):
    x = 0
    for i, a in p.items():
        if a in (1, 2):
            x |= 1 << i
        if a in (3, 2):
            x |= 1 << (n + i)
    return x


def independent(vecs):
    basis = []
    for v in vecs:
        for b in basis:
            v = min(v, v ^ b)
        if v == 0:
            return False
        basis.append(v)
    return True


def rand_pauli(rng, n, min_w=1, dens=0.6):
    while True:
        p = {i: rng.choice([1, 2, 3]) for i in range(n) if rng.random() < dens}
        if len(p) >= min_w:
            return p


def pauli_term(p):
    return tuple((i, PAULI[a]) for i, a in sorted(p.items()))


def rand_stabilizers(rng, n, k):
    for _ in range(200):
        st = []
        for _ in range(k):
            for _ in range(60):
                p = rand_pauli(rng, n, 1, rng.choice([0.3, 0.6, 0.9]))
                if all(commute(p, q) for q in st) and independent([sympl(q, n) for q in st + [p]]):
                    st.append(p)
                    break
        if len(st) == k:
            return st
    return None


def pmul(p, q):
    """product of Pauli dicts up to phase"""
    r = dict(p)
    for i, b in q.items():
        a = r.get(i)
        if a is None:
            r[i] = b
        elif a == b:
            del r[i]
        else:
            r[i] = 6 - a - b
    return r


def band_coeff(rng, complex_p=0.0):
    """O(1) dyadic coefficient, or (B) one of magnitude 1e-7 .. 1e-4 (a decade above the 1e-8 pruning threshold)"""
    if rng.random() < 0.25:
        v = rng.choice([1, -1, 3, -3]) * 2.0 ** (-rng.choice([14, 17, 20, 23]))
        if rng.random() < complex_p:
            return complex(0, v) if rng.random() < 0.5 else complex(v, -v)
        return v
    c = dyadic(rng, max_num=6, max_pow=2, complex_p=complex_p)
    if isinstance(c, complex) and rng.random() < 0.3:
        c = complex(0, c.imag if c.imag else 1.0)          # (A) purely imaginary
    return c


def rand_commuting_hamiltonian(of, rng, n, stabs):
    H = of.QubitOperator()
    cands = []
    tries = 0
    while len(cands) < rng.randint(2, 7) and tries < 400:
        tries += 1
        p = rand_pauli(rng, n, 0, rng.choice([0.3, 0.5, 0.8]))
        if all(commute(p, s) for s in stabs):
            cands.append(p)
            # a term equivalent to it on the code space (mergeable by the reduction)
            if rng.random() < 0.5:
                q = pmul(p, rng.choice(stabs))
                cands.append(q)
    cplx = 0.5 if rng.random() < 0.25 else 0.0      # (A) non-Hermitian Hamiltonians with complex coefficients
    for p in cands:
        c = band_coeff(rng, cplx)
        H += of.QubitOperator(pauli_term(p), c if cplx else float(c))
    return H


def leaf(j):
    return ['leaf', j]


def errname(e):
    return type(e).__name__


def gq_c(j):
    a, b = from_gq(j)
    return complex(float(a), float(b))


def mat(jm):
    return numpy.array([[gq_c(c) for c in row] for row in jm])


def op_close(ja, jb, tol=1e-9):
    da = {tuple(tuple(f) for f in t): gq_c(c) for t, c in ja}
    db = {tuple(tuple(f) for f in t): gq_c(c) for t, c in jb}
    return all(abs(da.get(k, 0) - db.get(k, 0)) <= tol for k in set(da) | set(db))


class Oracle:
    def __init__(self, ctx):
        self.ctx = ctx
        self.reqs = []
        self.cbs = []

    def ask(self, req, cb):
        self.reqs.append(req)
        self.cbs.append(cb)

    def flush(self):
        while self.reqs:
            reqs, cbs = self.reqs, self.cbs
            self.reqs, self.cbs = [], []
            for a, cb in zip(self.ctx.driver.run(reqs), cbs):
                cb(a)


def same_result(r, m, keys=('op',)):
    if ('ok' in r) != ('ok' in m):
        return False
    if 'error' in r:
        return r['error'] == m['error']
    for k in keys:
        if k == 'op':
            if canon_op_json(r['ok']['op']) != canon_op_json(m['ok']['op']):
                return False
        elif r['ok'][k] != m['ok'][k]:
            return False
    return True



# ------------------------------------------------------------------ (T) argument types / containers

NP_INT_KINDS = {'np64': numpy.int64, 'np32': numpy.int32, 'np16': numpy.int16, 'np8': numpy.int8,
                'npu8': numpy.uint8, 'npu16': numpy.uint16, 'npu32': numpy.uint32, 'npu64': numpy.uint64}
UNSIGNED_KINDS = ('npu8', 'npu16', 'npu32', 'npu64')


def vary_ints(rng, l, kinds=('int', 'np64', 'np32'), containers=('list',), bool_ok=False, float_ok=False,
              dtype_pool=True):
    """the same integer values in another element type / container; with `dtype_pool` the narrow and the
    UNSIGNED numpy integer types (uint8 as delivered by numpy.unpackbits, uint16, uint32, uint64, int8, int16)
    are drawn as often as the plain ones: arithmetic such as 1 - 2*x wraps around for them"""
    kinds = list(kinds)
    if dtype_pool and all(int(x) >= 0 for x in l):
        kinds += ['np8', 'np16', 'npu8', 'npu8', 'npu16', 'npu32', 'npu64', 'npu64']
    if bool_ok and all(x in (0, 1) for x in l):
        kinds += ['bool', 'npbool', 'bool', 'npbool']
    if float_ok:
        kinds += ['float']
    k = rng.choice(kinds)
    conv = dict({'int': int, 'bool': bool, 'npbool': numpy.bool_, 'float': float}, **NP_INT_KINDS)[k]
    vals = [conv(x) for x in l]
    c = rng.choice(list(containers))
    if c == 'list':
        return vals, k + '/list'
    if c == 'tuple':
        return tuple(vals), k + '/tuple'
    if c == 'range' and list(l) == list(range(l[0], l[0] + len(l))) if l else False:
        return range(l[0], l[0] + len(l)), 'range'
    dt = dict({'int': int, 'bool': bool, 'npbool': bool, 'float': float}, **NP_INT_KINDS)[k]
    return numpy.array(l, dtype=dt), k + '/ndarray'


def int_forms(l, lists_only=False):
    """the deterministic sweep of the dtype pool: (label, value) for the same integers as uint8 (through
    numpy.unpackbits when they are bits), uint16, uint64 and int8, as ndarray and as list of numpy scalars"""
    out = []
    for name in ('npu8', 'npu16', 'npu64', 'np8'):
        dt = NP_INT_KINDS[name]
        if not lists_only:
            if name == 'npu8' and l and all(x in (0, 1) for x in l):
                bits = numpy.unpackbits(numpy.packbits(numpy.array(l, dtype=numpy.uint8)))[:len(l)]
                out.append((name + '/unpackbits', bits))
            else:
                out.append((name + '/ndarray', numpy.array(l, dtype=dt)))
        out.append((name + '/list', [dt(x) for x in l]))
    return out


def vary_int(rng, x):
    """a single non-negative integer argument as a Python or numpy integer of any width / signedness"""
    k = rng.choice(['int', 'np64', 'np32', 'np8', 'npu8', 'npu8', 'npu16', 'npu64', 'npu64'])
    return (int(x), 'int') if k == 'int' else (NP_INT_KINDS[k](x), k)


def vary_coeff(rng, c):
    """the same coefficient as another accepted numeric type (COEFFICIENT_TYPES: int, float, complex and subclasses)"""
    c = complex(c)
    opts = [complex(c), numpy.complex128(c)]
    if c.imag == 0:
        opts += [float(c.real), numpy.float64(c.real)]
        if float(c.real).is_integer():
            opts += [int(c.real)]
    return rng.choice(opts)


def retype_terms(rng, op):
    """replace the coefficients stored in .terms by equal values of other accepted types"""
    for k in list(op.terms):
        op.terms[k] = vary_coeff(rng, op.terms[k])
    return op


def vary_stabilizers(rng, of, stab_ops):
    r = rng.random()
    if r < 0.5:
        return list(stab_ops), 'list'
    if r < 0.7:
        return tuple(stab_ops), 'tuple'
    if r < 0.85:
        a = numpy.empty(len(stab_ops), dtype=object)
        for i, s in enumerate(stab_ops):
            a[i] = s
        return a, 'ndarray'
    # a QubitOperator whose terms are the generators (only when they are distinct strings)
    keys = [list(s.terms)[0] for s in stab_ops if len(s.terms) == 1]
    if len(keys) == len(stab_ops) and len(set(keys)) == len(keys):
        tot = of.QubitOperator()
        for s in stab_ops:
            tot += s
        if [list(x.terms)[0] for x in tot] == keys:
            return tot, 'QubitOperator'
    return list(stab_ops), 'list'


def snap_any(x):
    if isinstance(x, numpy.ndarray):
        return ('arr', str(x.dtype), x.tolist() if x.dtype != object else tuple(snap_any(y) for y in x))
    if hasattr(x, 'terms'):
        return ('op', tuple(sorted((str(k), from_gq(to_gq(v))) for k, v in x.terms.items())))
    if isinstance(x, (list, tuple)):
        return (type(x).__name__,) + tuple(snap_any(y) for y in x)
    return ('v', repr(x))


def mutate_result(r):
    if isinstance(r, tuple):
        for y in r:
            mutate_result(y)
    elif isinstance(r, list):
        r.append(99)
        if len(r) > 1:
            r[0] = -5
    elif hasattr(r, 'terms'):
        for k in list(r.terms):
            r.terms[k] = r.terms[k] * 3 + 1
        r.terms[((0, 'Z'),)] = 7.0


def twice(st, name, fn, args, case, alias_ok=False):
    """(S) call fn twice around an in-place modification of everything the first call returned"""
    s0 = snap_any(args)
    try:
        r1 = fn(*args)
        c1 = snap_any(r1)
        if snap_any(args) != s0:
            st.violate('%s modified its arguments' % name, case, {})
            return None
        parts = r1 if isinstance(r1, tuple) else (r1,)
        if not alias_ok and any(a is b for a in parts for b in args if not isinstance(b, (int, float, bool, type(None)))):
            st.violate('%s returns one of its arguments' % name, case, {})
        mutate_result(r1)
        if snap_any(args) != s0:
            st.violate('modifying the result of %s changed its arguments (aliasing)' % name, case, {})
            return None
        r2 = fn(*args)
        if snap_any(r2) != c1:
            st.violate('%s: a second call after modifying the first result differs from the first result' % name, case,
                       {'first': show(c1, 500), 'second': show(snap_any(r2), 500)})
        st.count('state:' + name)
        return r2
    except Exception as e:
        st.violate('%s: unexpected exception %s: %s' % (name, errname(e), e), case, {})
        return None


# ------------------------------------------------------------------ stream 1: reduction and tapering

def stream_taper(ctx):
    of = ctx.of
    from openfermion.transforms.repconversions.qubit_tapering_from_stabilizer import StabilizerError
    st = Stream('stabilizer-reduction-and-tapering',
                'random signed, commuting, independent stabilizer groups (k <= 3 generators on n <= 5 qubits; 6 in thorough) '
                'and random real Hamiltonians from their centraliser incl. pairs of terms related by a stabilizer; '
                'reduce_number_of_terms (maintain_length on/off), taper_off_qubits, automatic and manual fixed positions; '
                'inadmissible stabilizer lists (identity, complex coefficient, dependent, anti-commuting) for the error kinds; '
                'results compared exactly with the Model; Spec: reduced operator agrees with H on the joint +1 eigenspace '
                '(exact), tapered operator acts on n-k qubits and has the spectrum of H on that eigenspace (eigvalsh 1e-9); '
                'distinct = distinct (H, stabilizers, options)')
    orc = Oracle(ctx)
    rng = rng_for(ctx.seed, 'c16-taper')
    N = budget(ctx.tier, 300, 2500)
    if ctx.drift:
        N = max(N, 500)
    cases = []
    for i in range(N):
        n = rng.choice([2, 3, 3, 4, 4, 5] + ([6] if ctx.tier == 'thorough' else []))
        k = rng.randint(1, min(3, n - 1))
        stabs = rand_stabilizers(rng, n, k)
        if stabs is None:
            continue
        signs = [rng.choice([1.0, -1.0, 1, -1]) for _ in stabs]
        H = rand_commuting_hamiltonian(of, rng, n, stabs)
        bad = None
        r = rng.random()
        stab_ops = [of.QubitOperator(pauli_term(p), s) for p, s in zip(stabs, signs)]
        if r < 0.04:
            bad = 'identity'
            stab_ops[rng.randrange(k)] = of.QubitOperator((), 1.0)
        elif r < 0.08:
            bad = 'complex'
            j = rng.randrange(k)
            stab_ops[j] = stab_ops[j] * 1j
        elif r < 0.12 and k >= 2:
            bad = 'dependent'
            stab_ops[-1] = stab_ops[0] * stab_ops[1] if k >= 3 else stab_ops[0] * (-1.0)
        elif r < 0.16:
            bad = 'anticommuting'
            for _ in range(50):
                p = rand_pauli(rng, n, 1)
                if not all(commute(p, q) for q in stabs):
                    stab_ops.append(of.QubitOperator(pauli_term(p), 1.0))
                    break
        cases.append((n, k, stabs, stab_ops, H, bad))
    # phase 1: automatic mode on the Model gives candidate manual positions
    jcases = []
    reqs = []
    for n, k, stabs, stab_ops, H, bad in cases:
        jH = enc_op('qubit', H.terms)
        jS = [enc_op('qubit', s.terms) for s in stab_ops]
        cands = []
        sup = [sorted(p) for p in stabs]
        for _ in range(3):
            c = []
            for s in sup:
                free = [q for q in s if q not in c]
                c.append(rng.choice(free) if free else rng.randrange(n))
            if len(c) < len(stab_ops):
                c += [rng.randrange(n) for _ in range(len(stab_ops) - len(c))]
            cands.append(c)
        jcases.append((jH, jS, cands))
        for c in cands:
            reqs.append({'op': 'c16.reduce', 'A': jH, 'stabs': jS, 'maintain': False, 'manual': True, 'fixed': c})
    ans = iter(ctx.driver.run(reqs))
    plan = []
    for (n, k, stabs, stab_ops, H, bad), (jH, jS, cands) in zip(cases, jcases):
        res = [next(ans) for _ in cands]
        manual = None
        for c, r in zip(cands, res):
            if 'ok' in r and not r['ok']['stale']:
                manual = c
                break
        if manual is None and rng.random() < 0.3:
            manual = cands[0]          # inadmissible manual positions: correspondence only
        plan.append(manual)
    # phase 2
    reqs = []
    metas = []
    for (n, k, stabs, stab_ops, H, bad), (jH, jS, cands), manual in zip(cases, jcases, plan):
        variants = [('reduce', False, False, None), ('reduce', True, False, None), ('taper', False, False, None)]
        if manual is not None:
            variants += [('reduce', rng.random() < 0.5, True, manual), ('taper', False, True, manual)]
        for f, ml, man, fixed in variants:
            if f == 'reduce':
                reqs.append({'op': 'c16.reduce', 'A': jH, 'stabs': jS, 'maintain': ml, 'manual': man, 'fixed': fixed})
            else:
                reqs.append({'op': 'c16.taper', 'A': jH, 'stabs': jS, 'manual': man, 'fixed': fixed})
            metas.append((n, k, stab_ops, H, bad, jH, jS, f, ml, man, fixed))
    ans = ctx.driver.run(reqs)
    treqs = [dict(r, op='c16.taper_hyp') for r in reqs if r['op'] == 'c16.taper']
    thyp = iter(ctx.driver.run(treqs))
    dense_jobs = []
    for (n, k, stab_ops, H, bad, jH, jS, f, ml, man, fixed), m in zip(metas, ans):
        case = {'f': f, 'H': jH, 'stabilizers': jS, 'maintain_length': ml, 'manual_input': man, 'fixed_positions': fixed}
        st.case(case)
        if f == 'taper':
            hyp = next(thyp)
            if 'ok' in m:
                st.count('hypothesis(each removed qubit carries only I/X or only I/Z):%s' % hyp)
        st.count('%s:%s%s%s' % (f, 'manual' if man else 'auto', ':keep-length' if ml else '', ':' + bad if bad else ''))
        st.count('n=%d,k=%d' % (n, len(stab_ops)))
        import copy as _copy
        stabs_t, skind = vary_stabilizers(rng, of, [retype_terms(rng, _copy.deepcopy(x)) for x in stab_ops]) \
            if bad is None else (list(stab_ops), 'list')
        fixed_t, fkind = (None, 'none') if fixed is None else \
            vary_ints(rng, fixed, containers=('list', 'tuple', 'ndarray'))
        Ht = retype_terms(rng, _copy.deepcopy(H))
        st.count('types:stabilizers=%s,fixed=%s' % (skind, fkind))
        case['types'] = {'stabilizers': skind, 'fixed_positions': fkind}
        try:
            if f == 'reduce':
                out, pos = of.reduce_number_of_terms(Ht, stabs_t, maintain_length=ml, output_fixed_positions=True,
                                                     manual_input=man, fixed_positions=fixed_t)
            else:
                out, pos = of.taper_off_qubits(Ht, stabs_t, manual_input=man, fixed_positions=fixed_t,
                                               output_tapered_positions=True)
            r = {'ok': {'op': enc_op('qubit', out.terms), 'fixed': [int(x) for x in pos]}}
        except (StabilizerError, TypeError, ValueError, IndexError, UnboundLocalError) as e:
            r = {'error': errname(e)}
        except Exception as e:
            st.violate('unexpected exception %s: %s' % (errname(e), e), case, {})
            continue
        if 'error' in r:
            st.count('error:' + r['error'])
        if not same_result(r, m, ('op', 'fixed')):
            st.disagree(f, case, r, m)
        stale = 'ok' in m and m['ok']['stale']
        if 'ok' in m and not ml:
            # hypothesis of reduce_terms_agrees_on_codespace, evaluated by the driver on this input
            st.count('exact-regime(%s):%s' % (f, m['ok']['exact']))
        if 'error' in r:
            if bad is None and not man:
                st.violate('%s rejects an admissible stabilizer list' % f, case, r)
            continue
        if bad is not None or stale:
            st.count('oracle:skipped-inadmissible')
            continue
        jout = r['ok']['op']
        one = leaf([[[], [1, 1, 0, 1]]])
        proj = None
        for js in jS:
            p = ['smul', [1, 2, 0, 1], ['add', one, leaf(js)]]
            proj = p if proj is None else ['mul', proj, p]
        if f == 'reduce':
            def cb(a, case=case):
                st.count('oracle:codespace')
                if not a['eq']:
                    st.violate('reduce_number_of_terms does not agree with H on the joint +1 eigenspace of the stabilizers',
                               case, {'witness_state': a['state'], 'reduced': a['lhs'], 'original': a['rhs']})
            orc.ask({'op': 'spec.eq', 'alg': 'qubit', 'n': n, 'd': 0, 'lhs': ['mul', leaf(jout), proj],
                     'rhs': ['mul', leaf(jH), proj]}, cb)
        else:
            kk = len(jS)
            nq = of.count_qubits(out)
            if nq > n - kk:
                st.violate('taper_off_qubits result acts on more than n-k qubits', case, {'result': jout, 'n': n, 'k': kk})
                continue
            if sorted(r['ok']['fixed']) != r['ok']['fixed'] or len(set(r['ok']['fixed'])) != kk:
                st.violate('taper_off_qubits removed positions are not k distinct sorted positions', case, r)
            dense_jobs.append((case, n, kk, jH, jS, jout))
    for case, n, kk, jH, jS, jout in dense_jobs:
        got = {}

        def fin(got=got, case=case, n=n, kk=kk):
            Hm = mat(got['H'])
            P = numpy.eye(2 ** n, dtype=complex)
            for i in range(kk):
                P = P @ (numpy.eye(2 ** n) + mat(got['S%d' % i])) / 2
            Tm = mat(got['T'])
            st.float_comparisons += 1
            st.count('oracle:spectrum')
            w, V = numpy.linalg.eigh((P + P.conj().T) / 2)
            B = V[:, w > 0.5]
            if B.shape[1] != 2 ** (n - kk):
                st.violate('joint +1 eigenspace does not have dimension 2^(n-k) (generator error?)', case, {})
                return
            Hr = B.conj().T @ Hm @ B
            if numpy.max(numpy.abs(Hm - Hm.conj().T)) > 1e-12:
                # non-Hermitian H: compare the power traces tr(X^k), k = 1..4 (similarity invariants)
                st.count('oracle:power-traces')
                scale = max(1.0, float(numpy.max(numpy.abs(Hm))))
                X, Y = numpy.eye(Hr.shape[0]), numpy.eye(Tm.shape[0])
                for kpow in range(1, 5):
                    X, Y = X @ Hr, Y @ Tm
                    if abs(numpy.trace(X) - numpy.trace(Y)) > 1e-9 * (scale ** kpow) * Hr.shape[0]:
                        st.violate('taper_off_qubits: tr(T^%d) differs from the trace on the joint +1 eigenspace' % kpow, case,
                                   {'sector': complex(numpy.trace(X)), 'tapered': complex(numpy.trace(Y))})
                        break
                return
            ea = numpy.linalg.eigvalsh((Hr + Hr.conj().T) / 2)
            eb = numpy.linalg.eigvalsh((Tm + Tm.conj().T) / 2)
            if numpy.max(numpy.abs(Tm - Tm.conj().T)) > 1e-9 or numpy.max(numpy.abs(ea - eb)) > 1e-9:
                st.violate('taper_off_qubits does not have the spectrum of H on the joint +1 eigenspace', case,
                           {'sector_spectrum': ea.tolist(), 'tapered_spectrum': eb.tolist()})

        def mk(key, need, got=got, fin=fin):
            def cb(a):
                got[key] = a
                if len(got) == need:
                    fin()
            return cb
        need = 2 + kk
        orc.ask({'op': 'c16.spec_dense', 'alg': 'qubit', 'n': n, 'expr': leaf(jH)}, mk('H', need))
        orc.ask({'op': 'c16.spec_dense', 'alg': 'qubit', 'n': n - kk, 'expr': leaf(jout)}, mk('T', need))
        for i, js in enumerate(jS):
            orc.ask({'op': 'c16.spec_dense', 'alg': 'qubit', 'n': n, 'expr': leaf(js)}, mk('S%d' % i, need))
    orc.flush()
    return st


# ------------------------------------------------------------------ stream 2: projection and rotation

def rand_qubit_op(of, rng, n, nterms, complex_p=0.4):
    op = of.QubitOperator()
    for _ in range(nterms):
        p = rand_pauli(rng, n, 0, rng.choice([0.3, 0.6, 0.9]))
        op += of.QubitOperator(pauli_term(p), band_coeff(rng, complex_p))
    return op


ANGLES = [(1, 0), (0, 1), (-1, 0), (Fraction(3, 5), Fraction(4, 5)), (Fraction(4, 5), Fraction(3, 5)),
          (Fraction(-3, 5), Fraction(4, 5)), (Fraction(5, 13), Fraction(-12, 13)), (Fraction(12, 13), Fraction(5, 13)),
          (Fraction(8, 17), Fraction(15, 17)), (Fraction(-4, 5), Fraction(-3, 5))]


def stream_proj(ctx):
    of = ctx.of
    st = Stream('projection-and-pauli-rotation',
                'project_onto_sector / projection_error on random QubitOperators (n <= 5, complex dyadic coefficients, random '
                'qubit subsets in arbitrary order, random sectors, malformed arguments) and rotate_qubit_by_pauli (n <= 3, '
                'random Pauli strings, angles atan2(s, c) of Pythagorean pairs and multiples of pi/2); projection compared '
                'exactly with the Model and with the embedded matrix elements of the original operator (Spec, exact); '
                'qubits / sectors are drawn as list / tuple / ndarray of int, bool, float and of every numpy integer width '
                'and signedness, and every admissible case with a sector 1 is repeated with sectors and qubits as uint8 '
                '(numpy.unpackbits), uint16, uint64 and int8 arrays and scalar lists, which must give the list-form result '
                'exactly (dtype-sweep:*); '
                'rotation compared with the Model at 1e-9 and with the dense Spec matrix of (c - i s P) Q (c + i s P) at 1e-9; '
                'distinct = distinct inputs')
    orc = Oracle(ctx)
    rng = rng_for(ctx.seed, 'c16-proj')
    N = budget(ctx.tier, 500, 5000)
    if ctx.drift:
        N = max(N, 800)
    items = []
    reqs = []
    for i in range(N):
        n = rng.choice([1, 2, 3, 4, 5])
        op = rand_qubit_op(of, rng, n, rng.randint(0, 6))
        k = rng.randint(0, n)
        qubits = rng.sample(range(n), k)
        sectors = [rng.choice([0, 1, 1]) for _ in qubits]
        if k >= 2 and rng.random() < 0.6:
            # Z on several removed qubits (sign = parity of the sector bits), possibly times kept-qubit Paulis
            for _ in range(rng.randint(1, 2)):
                zs = {q: 3 for q in rng.sample(qubits, rng.randint(2, k))}
                for q in range(n):
                    if q not in qubits and rng.random() < 0.4:
                        zs[q] = rng.choice([1, 2, 3])
                op += of.QubitOperator(pauli_term(zs), dyadic(rng, max_num=6, max_pow=2, complex_p=0.4))
        r = rng.random()
        if r < 0.04:
            sectors = sectors + [0]
        elif r < 0.08 and k:
            sectors[0] = 2
        jA = enc_op('qubit', op.terms)
        items.append((n, op, qubits, sectors, jA))
        reqs.append({'op': 'c16.project', 'A': jA, 'qubits': qubits, 'sectors': sectors})
        reqs.append({'op': 'c16.projection_error_sq', 'A': jA, 'qubits': qubits, 'sectors': sectors})
    ans = iter(ctx.driver.run(reqs))
    for n, op, qubits, sectors, jA in items:
        m = next(ans)
        me = next(ans)
        case = {'f': 'project_onto_sector', 'A': jA, 'qubits': qubits, 'sectors': sectors}
        st.case(case)
        admissible = len(qubits) == len(sectors) and all(x in (0, 1) for x in sectors)
        qubits_t, qk = vary_ints(rng, qubits) if admissible else (list(qubits), 'int/list')
        sectors_t, sk = vary_ints(rng, sectors, containers=('list', 'list', 'ndarray'), bool_ok=True, float_ok=True) \
            if admissible else (list(sectors), 'int/list')
        st.count('types:qubits=%s,sectors=%s' % (qk, sk))
        case['types'] = {'qubits': qk, 'sectors': sk}
        op0 = snap_any(op)
        try:
            out = of.transforms.project_onto_sector(op, qubits_t, sectors_t)
            r = {'ok': enc_op('qubit', out.terms)}
        except (ValueError, TypeError) as e:
            r = {'error': errname(e)}
        except Exception as e:
            st.violate('unexpected exception %s: %s' % (errname(e), e), case, {})
            continue
        st.count('project:' + ('ok' if 'ok' in r else r['error']))
        if ('ok' in r) != ('ok' in m) or ('error' in r and r['error'] != m['error']) or \
                ('ok' in r and canon_op_json(r['ok']) != canon_op_json(m['ok']['op'])):
            st.disagree('project_onto_sector', case, r, m)
        if 'ok' in m:
            # hypothesis of project_onto_sector_sound, evaluated by the driver on this input
            st.count('exact-regime(project):%s' % m['ok']['exact'])
        try:
            err = of.transforms.projection_error(op, qubits_t, sectors_t)
            if snap_any(op) != op0:
                st.violate('project_onto_sector / projection_error modified the operator', case, {})
            re = {'ok': float(err)}
        except (ValueError, TypeError) as e:
            re = {'error': errname(e)}
        if ('ok' in re) != ('ok' in me) or ('error' in re and re['error'] != me['error']):
            st.disagree('projection_error', case, re, me)
        elif 'ok' in re:
            st.float_comparisons += 1
            if abs(re['ok'] - math.sqrt(Fraction(me['ok'][0], me['ok'][1]))) > 1e-9:
                st.disagree('projection_error (1e-9)', case, re, me)
        if admissible and 'ok' in m and 'ok' in r and any(x == 1 for x in sectors):
            # family (T): the same sectors / qubits as narrow and UNSIGNED numpy integers (1 - 2*sectors or
            # (-1)**sectors wraps around for uint8 / uint16 / uint64) must give the list-form result exactly
            import warnings as _w
            want = canon_op_json(m['ok']['op'])
            forms = [('sectors=' + lab, list(qubits), v) for lab, v in int_forms(sectors)] + \
                    [('qubits=' + lab, v, list(sectors)) for lab, v in int_forms(qubits, lists_only=True)]
            for lab, qv, sv in forms:
                st.count('dtype-sweep:' + lab)
                try:
                    with _w.catch_warnings():
                        _w.simplefilter('error', RuntimeWarning)
                        o2 = of.transforms.project_onto_sector(op, qv, sv)
                        e2 = of.transforms.projection_error(op, qv, sv)
                except Exception as e:
                    st.violate('project_onto_sector / projection_error fail (%s: %s) when %s' % (errname(e), e, lab),
                               dict(case, types=lab), {})
                    continue
                if canon_op_json(enc_op('qubit', o2.terms)) != want:
                    st.violate('project_onto_sector depends on the integer dtype of its arguments (%s)' % lab,
                               dict(case, types=lab), {'typed': enc_op('qubit', o2.terms), 'list_form': m['ok']['op']})
                st.float_comparisons += 1
                if 'ok' in re and abs(float(e2) - re['ok']) > 1e-12:
                    st.violate('projection_error depends on the integer dtype of its arguments (%s)' % lab,
                               dict(case, types=lab), {'typed': float(e2), 'list_form': re['ok']})
        if 'ok' in r:
            rem = [q for q in range(n) if q not in qubits]
            ones = [q for q, s in zip(qubits, sectors) if s == 1]

            def cb(a, case=case, r=r):
                st.count('oracle:embedded-elements')
                if not a['eq']:
                    st.violate('project_onto_sector does not reproduce the matrix elements of the sector', case,
                               {'result': r['ok'], 'witness': a})
            orc.ask({'op': 'c16.spec_embed_eq', 'alg': 'qubit', 'm': len(rem), 'A': jA, 'B': r['ok'], 'modeMap': rem,
                     'ones': ones}, cb)
    # rotations
    items = []
    reqs = []
    for i in range(N // 2):
        n = rng.choice([1, 2, 3])
        Q = rand_qubit_op(of, rng, n, rng.randint(1, 4))
        P = of.QubitOperator(pauli_term(rand_pauli(rng, n, 0, 0.7)))
        c, s = rng.choice(ANGLES)
        c, s = Fraction(c), Fraction(s)
        theta = math.atan2(float(s), float(c))
        c2, s2 = c * c - s * s, 2 * c * s
        bad = rng.random()
        if bad < 0.04:
            P = P * 2.0
        elif bad < 0.08:
            P = P + of.QubitOperator('X0 Y1')
        jQ, jP = enc_op('qubit', Q.terms), enc_op('qubit', P.terms)
        items.append((n, Q, P, theta, c, s, jQ, jP))
        reqs.append({'op': 'c16.rotate', 'Q': jQ, 'P': jP, 'c2': to_gq(c2), 's2': to_gq(s2)})
    ans = ctx.driver.run(reqs)
    for (n, Q, P, theta, c, s, jQ, jP), m in zip(items, ans):
        case = {'f': 'rotate_qubit_by_pauli', 'Q': jQ, 'P': jP, 'cos_sin': [str(c), str(s)], 'angle': theta}
        st.case(case)
        import copy as _copy
        Qt = retype_terms(rng, _copy.deepcopy(Q))
        Pt = _copy.deepcopy(P)
        if len(Pt.terms) == 1 and list(Pt.terms.values())[0] == 1:
            Pt.terms[list(Pt.terms)[0]] = rng.choice([1, 1.0, numpy.float64(1.0), complex(1, 0), numpy.complex128(1)])
        th_t = rng.choice([float, numpy.float64])(theta) if theta != 0 else rng.choice([0, 0.0, numpy.float64(0)])
        st.count('types:angle=%s' % type(th_t).__name__)
        try:
            out = of.transforms.rotate_qubit_by_pauli(Qt, Pt, th_t)
            r = {'ok': enc_op('qubit', out.terms)}
        except TypeError as e:
            r = {'error': errname(e)}
        except Exception as e:
            st.violate('unexpected exception %s: %s' % (errname(e), e), case, {})
            continue
        st.count('rotate:' + ('ok' if 'ok' in r else r['error']))
        if ('ok' in r) != ('ok' in m) or ('error' in r and r['error'] != m['error']):
            st.disagree('rotate_qubit_by_pauli', case, r, m)
            continue
        if 'error' in r:
            continue
        st.float_comparisons += 1
        if not op_close(r['ok'], m['ok']):
            st.disagree('rotate_qubit_by_pauli (1e-9)', case, r, m)
        one = leaf([[[], [1, 1, 0, 1]]])
        U = ['add', ['smul', to_gq(c), one], ['smul', to_gq((Fraction(0), s)), leaf(jP)]]
        Ud = ['add', ['smul', to_gq(c), one], ['smul', to_gq((Fraction(0), -s)), leaf(jP)]]
        got = {}

        def mk(key, got=got, case=case):
            def cb(a):
                got[key] = a
                if len(got) == 2:
                    st.float_comparisons += 1
                    st.count('oracle:conjugation')
                    if numpy.max(numpy.abs(mat(got['impl']) - mat(got['spec']))) > 1e-9:
                        st.violate('rotate_qubit_by_pauli is not conjugation by exp(i theta P)', case, {})
            return cb
        orc.ask({'op': 'c16.spec_dense', 'alg': 'qubit', 'n': n, 'expr': leaf(r['ok'])}, mk('impl'))
        orc.ask({'op': 'c16.spec_dense', 'alg': 'qubit', 'n': n, 'expr': ['mul', ['mul', Ud, leaf(jQ)], U]}, mk('spec'))
    orc.flush()
    return st


# ------------------------------------------------------------------ stream 3: freeze_orbitals

def stream_freeze(ctx):
    of = ctx.of
    st = Stream('freeze-orbitals',
                'freeze_orbitals (prune on/off) and prune_unused_indices on random FermionOperators (n <= 5 modes, terms of '
                'length <= 5 in any order, not necessarily number conserving, complex dyadic coefficients) for random disjoint '
                'occupied / unoccupied sets; compared exactly with the Model; Spec: the result reproduces the matrix elements '
                'of the original operator between Fock states with the frozen occupations (exact), pruning is the '
                'order-preserving relabelling of the used indices; distinct = distinct inputs')
    orc = Oracle(ctx)
    rng = rng_for(ctx.seed, 'c16-freeze')
    N = budget(ctx.tier, 600, 6000)
    if ctx.drift:
        N = max(N, 1000)
    items = []
    reqs = []
    for i in range(N):
        n = rng.choice([1, 2, 3, 4, 5])
        op = of.FermionOperator()
        for _ in range(rng.randint(0, 5)):
            L = rng.choice([0, 1, 2, 2, 3, 4, 4, 5])
            idx_pool = list(range(n))
            term = tuple((rng.choice(idx_pool), rng.randint(0, 1)) for _ in range(L))
            op += of.FermionOperator(term, band_coeff(rng, 0.4))
        modes = list(range(n))
        rng.shuffle(modes)
        no = min(n, rng.choice([0, 1, 1, 2, 2, 3]))
        nu = min(n - no, rng.choice([0, 0, 1, 1, 2]))
        occ, unocc = modes[:no], modes[no:no + nu]
        jA = enc_op('fermion', op.terms)
        items.append((n, op, occ, unocc, jA))
        for prune in (False, True):
            reqs.append({'op': 'c16.freeze', 'A': jA, 'occupied': occ, 'unoccupied': unocc, 'prune': prune})
    ans = iter(ctx.driver.run(reqs))
    for n, op, occ, unocc, jA in items:
        x0, x1 = next(ans), next(ans)
        m0, m1 = x0['op'], x1['op']
        case = {'f': 'freeze_orbitals', 'A': jA, 'occupied': occ, 'unoccupied': unocc}
        st.case(case)
        st.count('exact-regime(freeze):%s' % x0['exact'])
        st.count('occ=%d,unocc=%d' % (len(occ), len(unocc)))
        before = canon_op_json(enc_op('fermion', op.terms))
        try:
            occ_t, ok_ = vary_ints(rng, occ, containers=('list', 'tuple', 'ndarray'))
            un_t, uk_ = vary_ints(rng, unocc, containers=('list', 'tuple', 'ndarray'))
            st.count('types:occupied=%s' % ok_)
            case['types'] = {'occupied': ok_, 'unoccupied': uk_}
            r0 = of.transforms.freeze_orbitals(op, occ_t, un_t if len(unocc) or rng.random() < 0.5 else None, prune=False)
            j0 = enc_op('fermion', r0.terms)
            if (occ or unocc) and canon_op_json(enc_op('fermion', op.terms)) != before:
                st.violate('freeze_orbitals changed its argument', case, {})
            r1 = of.transforms.freeze_orbitals(op, occ_t, un_t, prune=True)
            j1 = enc_op('fermion', r1.terms)
        except Exception as e:
            st.violate('unexpected exception %s: %s' % (errname(e), e), case, {})
            continue
        if canon_op_json(j0) != canon_op_json(m0):
            st.disagree('freeze_orbitals(prune=False)', case, j0, m0)
        if canon_op_json(j1) != canon_op_json(m1):
            st.disagree('freeze_orbitals(prune=True)', case, j1, m1)
        frozen = set(occ) | set(unocc)
        used0 = sorted({i for t, _ in j0 for i, _a in t})
        if any(i in frozen for i in used0):
            st.violate('freeze_orbitals result still acts on a frozen orbital', case, {'result': j0})
            continue
        # pruning = order-preserving relabelling of the used indices
        relabel = {old: new for new, old in enumerate(used0)}
        expect = canon_op_json([[[[relabel[i], a] for i, a in t], c] for t, c in j0])
        if canon_op_json(j1) != expect:
            st.violate('prune_unused_indices is not the order-preserving relabelling of the used indices', case,
                       {'unpruned': j0, 'pruned': j1})
        # unpruned result with the frozen modes deleted from the register
        rest = [q for q in range(n) if q not in frozen]
        shift = {old: new for new, old in enumerate(rest)}
        jshift = [[[[shift[i], a] for i, a in t], c] for t, c in j0]

        def cb(a, case=case, j0=j0):
            st.count('oracle:embedded-elements')
            if not a['eq']:
                st.violate('freeze_orbitals does not reproduce the matrix elements for the frozen occupations', case,
                           {'result': j0, 'witness': a})
        orc.ask({'op': 'c16.spec_embed_eq', 'alg': 'fermion', 'm': len(rest), 'A': jA, 'B': jshift, 'modeMap': rest,
                 'ones': list(occ)}, cb)

        def cb1(a, case=case, j1=j1):
            st.count('oracle:embedded-elements-pruned')
            if not a['eq']:
                st.violate('freeze_orbitals(prune=True) does not reproduce the matrix elements for the frozen occupations',
                           case, {'result': j1, 'witness': a})
        orc.ask({'op': 'c16.spec_embed_eq', 'alg': 'fermion', 'm': len(used0), 'A': jA, 'B': j1, 'modeMap': used0,
                 'ones': list(occ)}, cb1)
    orc.flush()
    return st


# ------------------------------------------------------------------ stream 4: symmetry conserving Bravyi-Kitaev

def rand_conserving_hamiltonian(of, rng, n):
    H = of.FermionOperator()
    for _ in range(rng.randint(2, 5)):
        sp = rng.randint(0, 1)
        p, q = [2 * rng.randrange(n // 2) + sp for _ in range(2)]
        c = dyadic(rng, max_num=4, max_pow=1, complex_p=0.3)
        t = of.FermionOperator(((p, 1), (q, 0)), c)
        H += t + of.hermitian_conjugated(t)
    for _ in range(rng.randint(0, 4)):
        s1, s2 = rng.randint(0, 1), rng.randint(0, 1)
        p, s = [2 * rng.randrange(n // 2) + s1 for _ in range(2)]
        q, r = [2 * rng.randrange(n // 2) + s2 for _ in range(2)]
        c = dyadic(rng, max_num=4, max_pow=1, complex_p=0.3)
        t = of.FermionOperator(((p, 1), (q, 1), (r, 0), (s, 0)), c)
        H += t + of.hermitian_conjugated(t)
    if rng.random() < 0.5:
        H += of.FermionOperator((), float(dyadic(rng, complex_p=0.0)))
    return H


def stream_scbk(ctx):
    of = ctx.of
    from openfermion.transforms.opconversions.remove_symmetry_qubits import (edit_hamiltonian_for_spin, remove_indices)
    st = Stream('symmetry-conserving-bravyi-kitaev',
                'random number- and spin-conserving Hermitian Hamiltonians on 4 orbitals (6 in thorough) and every electron '
                'count 0 < N < n: symmetry_conserving_bravyi_kitaev compared exactly with the Model of '
                'edit_hamiltonian_for_spin / remove_indices applied to the real bravyi_kitaev_tree output; Spec: the spectrum '
                'equals the spectrum of H (exact dense Spec matrix) restricted to the (N mod 2, ceil(N/2) mod 2) parity '
                'sector (eigvalsh, 1e-9); edit_hamiltonian_for_spin / remove_indices alone on random QubitOperators; '
                'distinct = distinct (H, N)')
    orc = Oracle(ctx)
    rng = rng_for(ctx.seed, 'c16-scbk')
    N = budget(ctx.tier, 100, 600)
    if ctx.drift:
        N = max(N, 150)
    items = []
    reqs = []
    for i in range(N):
        n = 4 if (ctx.tier != 'thorough' or rng.random() < 0.7) else 6
        H = rand_conserving_hamiltonian(of, rng, n)
        ne = rng.randint(1, n - 1)
        try:
            reord = of.transforms.reorder(H, of.utils.up_then_down, num_modes=n)
            bk = of.transforms.bravyi_kitaev_tree(reord, n_qubits=n)
            bk.compress()
        except Exception as e:
            st.violate('unexpected exception in bravyi_kitaev_tree %s: %s' % (errname(e), e), {'H': enc_op('fermion', H.terms)}, {})
            continue
        jbk = enc_op('qubit', bk.terms)
        items.append((n, H, ne, jbk))
        reqs.append({'op': 'c16.scbk_reduce', 'A': jbk, 'n': n, 'fermions': ne})
    ans = ctx.driver.run(reqs)
    flags = ctx.driver.run([dict(r, op='c16.scbk_exact') for r in reqs])
    for (n, H, ne, jbk), m, flag in zip(items, ans, flags):
        jH = enc_op('fermion', H.terms)
        case = {'f': 'symmetry_conserving_bravyi_kitaev', 'H': jH, 'active_orbitals': n, 'active_fermions': ne}
        st.case(case)
        st.count('n=%d,N=%d' % (n, ne))
        st.count('exact-regime(scbk):%s' % flag)
        removed = [n // 2 - 1, n - 1]
        zonly = all(a == 3 for t, _ in jbk for i, a in t if i in removed)
        st.count('hypothesis(I/Z on the removed qubits):%s' % zonly)
        try:
            n_t, nk = vary_int(rng, n)
            ne_t, nek = vary_int(rng, ne)
            st.count('types:active_orbitals=%s,active_fermions=%s' % (nk, nek))
            case['types'] = {'active_orbitals': nk, 'active_fermions': nek}
            out = of.transforms.symmetry_conserving_bravyi_kitaev(H, n, ne)
            if nk != 'int' or nek != 'int':
                # numpy integers: the source insists on `int` (ValueError); if a tree accepts them the
                # result must be the plain-int result (no wrap-around of narrow / unsigned types)
                try:
                    out_t = of.transforms.symmetry_conserving_bravyi_kitaev(H, n_t, ne_t)
                    st.count('numpy-int arguments:accepted')
                    if canon_op_json(enc_op('qubit', out_t.terms)) != canon_op_json(enc_op('qubit', out.terms)):
                        st.violate('symmetry_conserving_bravyi_kitaev depends on the integer type of '
                                   'active_orbitals / active_fermions', case,
                                   {'typed': enc_op('qubit', out_t.terms), 'int_form': enc_op('qubit', out.terms)})
                except ValueError:
                    st.count('numpy-int arguments:ValueError')
        except Exception as e:
            st.violate('unexpected exception %s: %s' % (errname(e), e), case, {})
            continue
        jout = enc_op('qubit', out.terms)
        if canon_op_json(jout) != canon_op_json(m):
            st.disagree('symmetry_conserving_bravyi_kitaev (reduction steps)', case, jout, m)
        if of.count_qubits(out) > n - 2:
            st.violate('symmetry_conserving_bravyi_kitaev result acts on more than n-2 qubits', case, {'result': jout})
            continue
        # the statement of scbk_sector_sound: matrix elements in the sector fixed by N mod 4
        ones = ([n // 2 - 1] if ne % 4 in (1, 2) else []) + ([n - 1] if ne % 4 in (1, 3) else [])

        def cbs(a, case=case, jout=jout):
            st.count('oracle:sector-matrix-elements')
            if not a['eq']:
                st.violate('symmetry_conserving_bravyi_kitaev does not reproduce the matrix elements of the '
                           'Bravyi-Kitaev-tree Hamiltonian in the sector fixed by N mod 4', case,
                           {'result': jout, 'witness': a})
        orc.ask({'op': 'c16.spec_embed_eq', 'alg': 'qubit', 'm': n - 2, 'A': jbk, 'B': jout,
                 'modeMap': [q for q in range(n) if q not in removed], 'ones': ones}, cbs)
        got = {}

        def fin(got=got, case=case, n=n, ne=ne):
            Hm = mat(got['H'])
            Tm = mat(got['T'])
            up_mask = sum(1 << i for i in range(0, n, 2))
            sel = [s for s in range(2 ** n) if bin(s).count('1') % 2 == ne % 2
                   and bin(s & up_mask).count('1') % 2 == ((ne + 1) // 2) % 2]
            Hs = Hm[numpy.ix_(sel, sel)]
            st.float_comparisons += 1
            st.count('oracle:sector-spectrum')
            ea = numpy.linalg.eigvalsh((Hs + Hs.conj().T) / 2)
            eb = numpy.linalg.eigvalsh((Tm + Tm.conj().T) / 2)
            if numpy.max(numpy.abs(Tm - Tm.conj().T)) > 1e-9 or numpy.max(numpy.abs(ea - eb)) > 1e-9:
                st.violate('symmetry_conserving_bravyi_kitaev does not have the spectrum of the parity sector', case,
                           {'sector_spectrum': ea.tolist(), 'reduced_spectrum': eb.tolist()})

        def mk(key, got=got, fin=fin):
            def cb(a):
                got[key] = a
                if len(got) == 2:
                    fin()
            return cb
        orc.ask({'op': 'c16.spec_dense', 'alg': 'fermion', 'n': n, 'expr': leaf(jH)}, mk('H'))
        orc.ask({'op': 'c16.spec_dense', 'alg': 'qubit', 'n': n - 2, 'expr': leaf(jout)}, mk('T'))
    # the two helper functions alone
    items = []
    reqs = []
    for i in range(N * 2):
        n = rng.choice([2, 3, 4, 5])
        op = rand_qubit_op(of, rng, n, rng.randint(0, 6))
        so = rng.randint(1, n)
        par = rng.choice([1, -1])
        idx = sorted(rng.sample(range(1, n + 1), rng.randint(0, min(2, n))))
        jA = enc_op('qubit', op.terms)
        items.append((op, so, par, idx, jA))
        reqs.append({'op': 'c16.edit', 'A': jA, 'spin_orbital': so, 'parity': to_gq(par)})
        reqs.append({'op': 'c16.remove_indices', 'A': jA, 'indices': idx})
    ans = iter(ctx.driver.run(reqs))
    import copy
    for op, so, par, idx, jA in items:
        me, mr = next(ans), next(ans)
        case = {'f': 'edit_hamiltonian_for_spin/remove_indices', 'A': jA, 'spin_orbital': so, 'parity': par, 'indices': idx}
        st.case(case)
        try:
            so_t = rng.choice([so, float(so), numpy.int64(so), numpy.float64(so)])
            par_t = rng.choice([par, float(par), numpy.float64(par)])
            idx_t = rng.choice([tuple(idx), list(idx), tuple(float(x) for x in idx), numpy.array(idx, dtype=int)])
            st.count('types:spin_orbital=%s,indices=%s' % (type(so_t).__name__, type(idx_t).__name__))
            e = edit_hamiltonian_for_spin(retype_terms(rng, copy.deepcopy(op)), so_t, par_t)
            rr = remove_indices(op, idx_t)
        except Exception as ex:
            st.violate('unexpected exception %s: %s' % (errname(ex), ex), case, {})
            continue
        if canon_op_json(enc_op('qubit', e.terms)) != canon_op_json(me):
            st.disagree('edit_hamiltonian_for_spin', case, enc_op('qubit', e.terms), me)
        if canon_op_json(enc_op('qubit', rr.terms)) != canon_op_json(mr):
            st.disagree('remove_indices', case, enc_op('qubit', rr.terms), mr)
    orc.flush()
    return st



# ------------------------------------------------------------------ stream 5: (S) state / aliasing

def stream_state(ctx):
    of = ctx.of
    import copy
    from openfermion.transforms.opconversions.remove_symmetry_qubits import remove_indices
    st = Stream('state-and-aliasing',
                '(S) reduce_number_of_terms / taper_off_qubits (automatic and manual positions, with returned position lists), '
                'project_onto_sector, projection_error, rotate_qubit_by_pauli, freeze_orbitals, prune_unused_indices, '
                'remove_indices, symmetry_conserving_bravyi_kitaev are called twice around an in-place modification of '
                'everything the first call returned (terms rescaled, lists edited): the second result must equal the first; '
                'operators, stabilizer lists and position lists passed in must be unchanged and must not be returned; '
                'distinct = distinct inputs')
    rng = rng_for(ctx.seed, 'c16-state')
    N = budget(ctx.tier, 120, 800)
    if ctx.drift:
        N = max(N, 200)
    for i in range(N):
        n = rng.choice([2, 3, 4])
        k = rng.randint(1, min(2, n - 1))
        stabs = rand_stabilizers(rng, n, k)
        if stabs is not None:
            H = rand_commuting_hamiltonian(of, rng, n, stabs)
            S = [of.QubitOperator(pauli_term(p), rng.choice([1.0, -1.0])) for p in stabs]
            case = {'H': enc_op('qubit', H.terms), 'stabilizers': [enc_op('qubit', x.terms) for x in S]}
            st.case(case)
            twice(st, 'reduce_number_of_terms', lambda h, s: of.reduce_number_of_terms(h, s, output_fixed_positions=True),
                  [H, S], case)
            twice(st, 'reduce_number_of_terms(maintain_length)',
                  lambda h, s: of.reduce_number_of_terms(h, s, maintain_length=True, output_fixed_positions=True), [H, S], case)
            r = twice(st, 'taper_off_qubits', lambda h, s: of.taper_off_qubits(h, s, output_tapered_positions=True), [H, S], case)
            if r is not None:
                # manual positions: the automatic ones in the order the reduction found them
                try:
                    _, pos = of.reduce_number_of_terms(H, S, output_fixed_positions=True)
                    pos = list(pos)[::-1] if False else list(pos)
                    twice(st, 'taper_off_qubits(manual)',
                          lambda h, s, f: of.taper_off_qubits(h, s, manual_input=True, fixed_positions=f,
                                                              output_tapered_positions=True), [H, S, pos], case)
                    twice(st, 'reduce_number_of_terms(manual)',
                          lambda h, s, f: of.reduce_number_of_terms(h, s, manual_input=True, fixed_positions=f,
                                                                    output_fixed_positions=True), [H, S, pos], case)
                except Exception as e:
                    st.violate('manual positions: unexpected exception %s: %s' % (errname(e), e), case, {})
        n = rng.choice([2, 3, 4])
        Q = rand_qubit_op(of, rng, n, rng.randint(1, 5))
        qubits = rng.sample(range(n), rng.randint(1, n))
        sectors = [rng.randint(0, 1) for _ in qubits]
        case = {'Q': enc_op('qubit', Q.terms), 'qubits': qubits, 'sectors': sectors}
        st.case(case)
        twice(st, 'project_onto_sector', of.transforms.project_onto_sector, [Q, qubits, sectors], case)
        twice(st, 'projection_error', of.transforms.projection_error, [Q, qubits, sectors], case)
        P = of.QubitOperator(pauli_term(rand_pauli(rng, n, 1, 0.7)))
        twice(st, 'rotate_qubit_by_pauli', of.transforms.rotate_qubit_by_pauli, [Q, P, 0.375], case)
        twice(st, 'remove_indices', remove_indices, [Q, (1, n)], case)
        A = of.FermionOperator()
        for _ in range(rng.randint(1, 4)):
            A += of.FermionOperator(tuple((rng.randrange(n), rng.randint(0, 1)) for _ in range(rng.choice([1, 2, 2, 4]))),
                                    band_coeff(rng, 0.3))
        occ = rng.sample(range(n), rng.randint(1, min(2, n)))
        unocc = [q for q in range(n) if q not in occ][:rng.randint(0, 1)]
        casef = {'A': enc_op('fermion', A.terms), 'occupied': occ, 'unoccupied': unocc}
        st.case(casef)
        twice(st, 'freeze_orbitals', lambda a, o, u: of.transforms.freeze_orbitals(a, o, u), [A, occ, unocc], casef)
        twice(st, 'freeze_orbitals(prune=False)', lambda a, o, u: of.transforms.freeze_orbitals(a, o, u, prune=False),
              [A, occ, unocc], casef)
        twice(st, 'prune_unused_indices', of.transforms.prune_unused_indices, [A], casef)
        if i % 4 == 0:
            Hf = rand_conserving_hamiltonian(of, rng, 4)
            twice(st, 'symmetry_conserving_bravyi_kitaev', of.transforms.symmetry_conserving_bravyi_kitaev,
                  [Hf, 4, rng.randint(1, 3)], {'H': enc_op('fermion', Hf.terms)})
    return st


# ------------------------------------------------------------------ stream 6: (B) sizes, large indices, small angles

def relabel_q(of, op, f):
    out = of.QubitOperator()
    for t, c in op.terms.items():
        out += of.QubitOperator(tuple((f(i), a) for i, a in t), c)
    return out


def relabel_f(of, op, f):
    out = of.FermionOperator()
    for t, c in op.terms.items():
        out += of.FermionOperator(tuple((f(i), a) for i, a in t), c)
    return out


def jrelabel(jop, f):
    return canon_op_json([[[[f(i), a] for i, a in t], c] for t, c in jop])


def stream_bands(ctx):
    of = ctx.of
    st = Stream('sizes-large-indices-small-angles',
                '(B) the reductions on registers of 9 and 17 qubits / modes (compared exactly with the Model) and on qubit / '
                'mode indices >= 257: shifting every index by an offset in {257, 300, 1000} commutes with '
                'reduce_number_of_terms, taper_off_qubits, project_onto_sector and freeze_orbitals(prune=False); '
                'freeze_orbitals(prune=True) is invariant under any increasing relabelling; rotate_qubit_by_pauli with angles '
                '2^-7 .. 2^-23 (1e-2 .. 1e-7) compared with the Model and the dense Spec matrix at 1e-9; distinct = distinct inputs')
    orc = Oracle(ctx)
    rng = rng_for(ctx.seed, 'c16-bands')
    N = budget(ctx.tier, 100, 600)
    if ctx.drift:
        N = max(N, 150)
    reqs, metas = [], []
    for i in range(N):
        OFF = rng.choice([257, 300, 1000])
        big = rng.random() < 0.35
        n = rng.choice([9, 17]) if big else rng.choice([3, 4, 5])
        kind = rng.choice(['reduce', 'taper', 'project', 'freeze'])
        if kind in ('reduce', 'taper'):
            k = rng.randint(1, 3)
            stabs = rand_stabilizers(rng, n, k)
            if stabs is None:
                continue
            H = rand_commuting_hamiltonian(of, rng, n, stabs)
            S = [of.QubitOperator(pauli_term(p), rng.choice([1.0, -1.0])) for p in stabs]
            jH, jS = enc_op('qubit', H.terms), [enc_op('qubit', x.terms) for x in S]
            ml = kind == 'reduce' and rng.random() < 0.4
            if kind == 'reduce':
                reqs.append({'op': 'c16.reduce', 'A': jH, 'stabs': jS, 'maintain': ml, 'manual': False, 'fixed': None})
            else:
                reqs.append({'op': 'c16.taper', 'A': jH, 'stabs': jS, 'manual': False, 'fixed': None})
            metas.append((kind, n, OFF, (H, S, ml), {'H': jH, 'stabilizers': jS, 'maintain_length': ml}))
        elif kind == 'project':
            Q = rand_qubit_op(of, rng, n, rng.randint(1, 6))
            qubits = rng.sample(range(n), rng.randint(1, min(n, 4)))
            sectors = [rng.randint(0, 1) for _ in qubits]
            jQ = enc_op('qubit', Q.terms)
            reqs.append({'op': 'c16.project', 'A': jQ, 'qubits': qubits, 'sectors': sectors})
            metas.append((kind, n, OFF, (Q, qubits, sectors), {'A': jQ, 'qubits': qubits, 'sectors': sectors}))
        else:
            A = of.FermionOperator()
            for _ in range(rng.randint(1, 5)):
                A += of.FermionOperator(tuple((rng.randrange(n), rng.randint(0, 1)) for _ in range(rng.choice([1, 2, 2, 3, 4]))),
                                        band_coeff(rng, 0.3))
            occ = rng.sample(range(n), rng.randint(0, 2))
            unocc = [q for q in rng.sample(range(n), 2) if q not in occ][:rng.randint(0, 2)]
            jA = enc_op('fermion', A.terms)
            reqs.append({'op': 'c16.freeze', 'A': jA, 'occupied': occ, 'unoccupied': unocc, 'prune': False})
            metas.append((kind, n, OFF, (A, occ, unocc), {'A': jA, 'occupied': occ, 'unoccupied': unocc}))
    ans = ctx.driver.run(reqs)
    for (kind, n, OFF, args, case), m in zip(metas, ans):
        case = dict(case, f=kind, n=n, offset=OFF)
        st.case(case)
        st.count('%s:n=%d' % (kind, n))
        sh = lambda j: j + OFF
        try:
            if kind in ('reduce', 'taper'):
                H, S, ml = args
                Hb, Sb = relabel_q(of, H, sh), [relabel_q(of, x, sh) for x in S]
                if kind == 'reduce':
                    r, pos = of.reduce_number_of_terms(H, list(S), maintain_length=ml, output_fixed_positions=True)
                    rb, posb = of.reduce_number_of_terms(Hb, list(Sb), maintain_length=ml, output_fixed_positions=True)
                else:
                    r, pos = of.taper_off_qubits(H, list(S), output_tapered_positions=True)
                    rb, posb = of.taper_off_qubits(Hb, list(Sb), output_tapered_positions=True)
                jr, jb = enc_op('qubit', r.terms), enc_op('qubit', rb.terms)
                if 'ok' not in m or canon_op_json(jr) != canon_op_json(m['ok']['op']) or [int(x) for x in pos] != m['ok']['fixed']:
                    st.disagree(kind + ' (sizes)', case, {'op': jr, 'fixed': [int(x) for x in pos]}, m)
                if canon_op_json(jb) != jrelabel(jr, sh) or [int(x) for x in posb] != [int(x) + OFF for x in pos]:
                    st.violate('shifting all qubit indices by %d does not commute with %s' % (OFF, kind), case,
                               {'shifted_result': jb, 'result': jr, 'positions': [list(map(int, posb)), list(map(int, pos))]})
            elif kind == 'project':
                Q, qubits, sectors = args
                r = of.transforms.project_onto_sector(Q, list(qubits), list(sectors))
                rb = of.transforms.project_onto_sector(relabel_q(of, Q, sh), [q + OFF for q in qubits], list(sectors))
                jr, jb = enc_op('qubit', r.terms), enc_op('qubit', rb.terms)
                if 'ok' not in m or canon_op_json(jr) != canon_op_json(m['ok']['op']):
                    st.disagree('project_onto_sector (sizes)', case, jr, m)
                if canon_op_json(jb) != jrelabel(jr, sh):
                    st.violate('shifting all qubit indices by %d does not commute with project_onto_sector' % OFF, case,
                               {'shifted_result': jb, 'result': jr})
            else:
                A, occ, unocc = args
                r = of.transforms.freeze_orbitals(A, list(occ), list(unocc), prune=False)
                rb = of.transforms.freeze_orbitals(relabel_f(of, A, sh), [q + OFF for q in occ], [q + OFF for q in unocc],
                                                   prune=False)
                jr, jb = enc_op('fermion', r.terms), enc_op('fermion', rb.terms)
                if canon_op_json(jr) != canon_op_json(m['op']):
                    st.disagree('freeze_orbitals (sizes)', case, jr, m['op'])
                if canon_op_json(jb) != jrelabel(jr, sh):
                    st.violate('shifting all mode indices by %d does not commute with freeze_orbitals' % OFF, case,
                               {'shifted_result': jb, 'result': jr})
                stretch = lambda j: 3 * j + (OFF if j >= n // 2 else 0)
                rp = of.transforms.freeze_orbitals(A, list(occ), list(unocc), prune=True)
                rpb = of.transforms.freeze_orbitals(relabel_f(of, A, stretch), [stretch(q) for q in occ],
                                                    [stretch(q) for q in unocc], prune=True)
                if canon_op_json(enc_op('fermion', rp.terms)) != canon_op_json(enc_op('fermion', rpb.terms)):
                    st.violate('freeze_orbitals(prune=True) is not invariant under an increasing relabelling of the modes',
                               case, {'result': enc_op('fermion', rp.terms), 'relabelled': enc_op('fermion', rpb.terms)})
        except Exception as e:
            st.violate('%s: unexpected exception %s: %s' % (kind, errname(e), e), case, {})
    # small angles
    items, reqs = [], []
    for i in range(N):
        n = rng.choice([1, 2, 3])
        kexp = rng.choice([7, 10, 14, 17, 20, 23])
        theta = rng.choice([1, -1]) * 2.0 ** (-kexp)
        Q = of.QubitOperator()
        for _ in range(rng.randint(1, 4)):
            c = dyadic(rng, max_num=6, max_pow=0 if kexp >= 20 else 2, complex_p=0.4)
            Q += of.QubitOperator(pauli_term(rand_pauli(rng, n, 0, 0.7)), c)
        P = of.QubitOperator(pauli_term(rand_pauli(rng, n, 1, 0.7)))
        c2, s2 = float(numpy.cos(2 * theta)), float(numpy.sin(2 * theta))
        th = rng.choice([float, numpy.float64])(theta)
        jQ, jP = enc_op('qubit', Q.terms), enc_op('qubit', P.terms)
        items.append((n, Q, P, th, jQ, jP))
        reqs.append({'op': 'c16.rotate', 'Q': jQ, 'P': jP, 'c2': to_gq(c2), 's2': to_gq(s2)})
    ans = ctx.driver.run(reqs)
    for (n, Q, P, th, jQ, jP), m in zip(items, ans):
        case = {'f': 'rotate_qubit_by_pauli', 'Q': jQ, 'P': jP, 'angle': float(th), 'angle_type': type(th).__name__}
        st.case(case)
        st.count('angle:2^%d' % round(math.log2(abs(float(th)))))
        try:
            out = of.transforms.rotate_qubit_by_pauli(Q, P, th)
        except Exception as e:
            st.violate('rotate_qubit_by_pauli: unexpected exception %s: %s' % (errname(e), e), case, {})
            continue
        jr = enc_op('qubit', out.terms)
        st.float_comparisons += 1
        if 'ok' not in m or not op_close(jr, m['ok']):
            st.disagree('rotate_qubit_by_pauli (small angle, 1e-9)', case, jr, m)
        c, s_ = float(numpy.cos(float(th))), float(numpy.sin(float(th)))
        one = leaf([[[], [1, 1, 0, 1]]])
        U = ['add', ['smul', to_gq(c), one], ['smul', to_gq(complex(0, s_)), leaf(jP)]]
        Ud = ['add', ['smul', to_gq(c), one], ['smul', to_gq(complex(0, -s_)), leaf(jP)]]
        got = {}

        def mk(key, got=got, case=case):
            def cb(a):
                got[key] = a
                if len(got) == 2:
                    st.float_comparisons += 1
                    st.count('oracle:conjugation')
                    if numpy.max(numpy.abs(mat(got['impl']) - mat(got['spec']))) > 1e-9:
                        st.violate('rotate_qubit_by_pauli (small angle) is not conjugation by exp(i theta P)', case, {})
            return cb
        orc.ask({'op': 'c16.spec_dense', 'alg': 'qubit', 'n': n, 'expr': leaf(jr)}, mk('impl'))
        orc.ask({'op': 'c16.spec_dense', 'alg': 'qubit', 'n': n, 'expr': ['mul', ['mul', Ud, leaf(jQ)], U]}, mk('spec'))
    orc.flush()
    return st


def run(ctx):
    return [stream_taper(ctx), stream_proj(ctx), stream_freeze(ctx), stream_scbk(ctx), stream_state(ctx), stream_bands(ctx)]
