"""C16 — qubit and orbital reductions.

Correspondence of reduce_number_of_terms / taper_off_qubits / project_onto_sector / projection_error /
rotate_qubit_by_pauli / freeze_orbitals / prune_unused_indices / edit_hamiltonian_for_spin / remove_indices
with the Lean Model (OFV.Model.C16) and Spec oracles evaluated by the driver on the implementation's own
outputs: agreement on the stabilizer code space (exact, OFV.Spec.Expr), embedded matrix elements (exact,
OFV.Spec.C16.embedDiff), sector spectra from the exact dense Spec matrices (numpy eigvalsh at 1e-9)."""
import itertools
import math
from fractions import Fraction

import numpy

from common import (Stream, budget, enc_op, enc_term, canon_op_json, to_gq, from_gq, dyadic, rng_for, show)

TRUSTED = [
    'C16: numpy.linalg.eigvalsh / eigh on Hermitian matrices (contract: eigenvalues ascending, accurate to 1e-10 on the '
    '<= 64x64 matrices used), numpy.cos / numpy.sin / math.atan2 accurate to 1 ulp',
    'C16: bravyi_kitaev_tree and reorder (property C05) are called as they are; their output is the input of the modelled '
    'edit_hamiltonian_for_spin / remove_indices steps and the end-to-end sector spectrum is checked against the Spec',
]
ASSUMPTIONS = [
    'stabilizers are single Pauli strings with coefficient +1 or -1, pairwise commuting and independent; every Hamiltonian '
    'term commutes with every stabilizer; manual fixed positions lie in the support of the stabilizer they are used for '
    '(otherwise the code reuses a stale Pauli: compared with the Model only)',
    'coefficients are dyadic Gaussian rationals (exact float arithmetic); rotation angles are atan2 of Pythagorean pairs '
    '(compared at 1e-9, branches |c| < 1e-8 decided with margin >= 1e-3)',
    'symmetry_conserving_bravyi_kitaev: number- and spin-conserving Hermitian Hamiltonians on an even number of orbitals',
]
OPEN_STATEMENTS = [
    'taper_spectrum: taper_off_qubits has exactly the spectrum of H on the joint +1 eigenspace (needs the unitary '
    'equivalence of the Z-sectors of the fixed qubits): checked numerically (eigvalsh, 1e-9) on every generated case; '
    'proved: the qubit re-indexing is the order-preserving bijection with "remove" exactly at the removed positions '
    '(taper_reindex_spec) and the Pauli-table invariant of the fixed position (fixed_position_invariant)',
    'fix_single_term_equiv / reduce_terms_agrees_on_codespace (multiplying by a stabilizer is the identity on its +1 '
    'eigenspace; iteration over the updated stabilizer list; existence of fixed positions): exact Spec oracle only',
    '_reduce_terms_keep_length / _lookup_term: correspondence + Spec oracle only',
    'project_onto_sector_sound for whole terms / operators: proved are the factor-level sector semantics '
    '(sector_factor_spec) and the order-preserving re-indexing (project_reindex_order_preserving); the operator-level '
    'statement is checked by the exact embedded-matrix-element oracle',
    'rotate_qubit_by_pauli_sound: no theorem; Spec oracle (dense matrices of (c - i s P) Q (c + i s P), 1e-9)',
    'freeze_orbitals_sound on Fock space (sum over terms, several frozen orbitals, occupied-orbital sign): proved is the '
    'scan of a single term (deleted operators, swap count = true transpositions - n_ops, occupancy parity, hence correct '
    'sign on surviving terms); the full statement is checked by the exact embedded-matrix-element oracle',
    'scbk_sector: no theorem besides remove_indices_order_preserving; end-to-end sector spectra checked numerically '
    '(n = 4; 6 in thorough), edit_hamiltonian_for_spin / remove_indices by correspondence',
]

PAULI = {1: 'X', 2: 'Y', 3: 'Z'}


# ------------------------------------------------------------------ Pauli helpers (generation only)

def commute(p, q):
    """p, q: dict qubit -> code"""
    anti = 0
    for i, a in p.items():
        b = q.get(i)
        if b is not None and a != b:
            anti += 1
    return anti % 2 == 0


def sympl(p, n):
    x = 0
    for i, a in p.items():
        if a in (1, 2):
            x |= 1 << i
        if a in (3, 2):
            x |= 1 << (n + i)
    return x


def independent(vecs):
    basis = []
    for v in vecs:
        for b in basis:
            v = min(v, v ^ b)
        if v == 0:
            return False
        basis.append(v)
    return True


def rand_pauli(rng, n, min_w=1, dens=0.6):
    while True:
        p = {i: rng.choice([1, 2, 3]) for i in range(n) if rng.random() < dens}
        if len(p) >= min_w:
            return p


def pauli_term(p):
    return tuple((i, PAULI[a]) for i, a in sorted(p.items()))


def rand_stabilizers(rng, n, k):
    for _ in range(200):
        st = []
        for _ in range(k):
            for _ in range(60):
                p = rand_pauli(rng, n, 1, rng.choice([0.3, 0.6, 0.9]))
                if all(commute(p, q) for q in st) and independent([sympl(q, n) for q in st + [p]]):
                    st.append(p)
                    break
        if len(st) == k:
            return st
    return None


def pmul(p, q):
    """product of Pauli dicts up to phase"""
    r = dict(p)
    for i, b in q.items():
        a = r.get(i)
        if a is None:
            r[i] = b
        elif a == b:
            del r[i]
        else:
            r[i] = 6 - a - b
    return r


def rand_commuting_hamiltonian(of, rng, n, stabs):
    H = of.QubitOperator()
    cands = []
    tries = 0
    while len(cands) < rng.randint(2, 7) and tries < 400:
        tries += 1
        p = rand_pauli(rng, n, 0, rng.choice([0.3, 0.5, 0.8]))
        if all(commute(p, s) for s in stabs):
            cands.append(p)
            # a term equivalent to it on the code space (mergeable by the reduction)
            if rng.random() < 0.5:
                q = pmul(p, rng.choice(stabs))
                cands.append(q)
    for p in cands:
        c = dyadic(rng, max_num=6, max_pow=2, complex_p=0.0)
        H += of.QubitOperator(pauli_term(p), float(c))
    return H


def leaf(j):
    return ['leaf', j]


def errname(e):
    return type(e).__name__


def gq_c(j):
    a, b = from_gq(j)
    return complex(float(a), float(b))


def mat(jm):
    return numpy.array([[gq_c(c) for c in row] for row in jm])


def op_close(ja, jb, tol=1e-9):
    da = {tuple(tuple(f) for f in t): gq_c(c) for t, c in ja}
    db = {tuple(tuple(f) for f in t): gq_c(c) for t, c in jb}
    return all(abs(da.get(k, 0) - db.get(k, 0)) <= tol for k in set(da) | set(db))


class Oracle:
    def __init__(self, ctx):
        self.ctx = ctx
        self.reqs = []
        self.cbs = []

    def ask(self, req, cb):
        self.reqs.append(req)
        self.cbs.append(cb)

    def flush(self):
        while self.reqs:
            reqs, cbs = self.reqs, self.cbs
            self.reqs, self.cbs = [], []
            for a, cb in zip(self.ctx.driver.run(reqs), cbs):
                cb(a)


def same_result(r, m, keys=('op',)):
    if ('ok' in r) != ('ok' in m):
        return False
    if 'error' in r:
        return r['error'] == m['error']
    for k in keys:
        if k == 'op':
            if canon_op_json(r['ok']['op']) != canon_op_json(m['ok']['op']):
                return False
        elif r['ok'][k] != m['ok'][k]:
            return False
    return True


# ------------------------------------------------------------------ stream 1: reduction and tapering

def stream_taper(ctx):
    of = ctx.of
    from openfermion.transforms.repconversions.qubit_tapering_from_stabilizer import StabilizerError
    st = Stream('stabilizer-reduction-and-tapering',
                'random signed, commuting, independent stabilizer groups (k <= 3 generators on n <= 5 qubits; 6 in thorough) '
                'and random real Hamiltonians from their centraliser incl. pairs of terms related by a stabilizer; '
                'reduce_number_of_terms (maintain_length on/off), taper_off_qubits, automatic and manual fixed positions; '
                'inadmissible stabilizer lists (identity, complex coefficient, dependent, anti-commuting) for the error kinds; '
                'results compared exactly with the Model; Spec: reduced operator agrees with H on the joint +1 eigenspace '
                '(exact), tapered operator acts on n-k qubits and has the spectrum of H on that eigenspace (eigvalsh 1e-9); '
                'distinct = distinct (H, stabilizers, options)')
    orc = Oracle(ctx)
    rng = rng_for(ctx.seed, 'c16-taper')
    N = budget(ctx.tier, 300, 2500)
    if ctx.drift:
        N = max(N, 500)
    cases = []
    for i in range(N):
        n = rng.choice([2, 3, 3, 4, 4, 5] + ([6] if ctx.tier == 'thorough' else []))
        k = rng.randint(1, min(3, n - 1))
        stabs = rand_stabilizers(rng, n, k)
        if stabs is None:
            continue
        signs = [rng.choice([1.0, -1.0, 1, -1]) for _ in stabs]
        H = rand_commuting_hamiltonian(of, rng, n, stabs)
        bad = None
        r = rng.random()
        stab_ops = [of.QubitOperator(pauli_term(p), s) for p, s in zip(stabs, signs)]
        if r < 0.04:
            bad = 'identity'
            stab_ops[rng.randrange(k)] = of.QubitOperator((), 1.0)
        elif r < 0.08:
            bad = 'complex'
            j = rng.randrange(k)
            stab_ops[j] = stab_ops[j] * 1j
        elif r < 0.12 and k >= 2:
            bad = 'dependent'
            stab_ops[-1] = stab_ops[0] * stab_ops[1] if k >= 3 else stab_ops[0] * (-1.0)
        elif r < 0.16:
            bad = 'anticommuting'
            for _ in range(50):
                p = rand_pauli(rng, n, 1)
                if not all(commute(p, q) for q in stabs):
                    stab_ops.append(of.QubitOperator(pauli_term(p), 1.0))
                    break
        cases.append((n, k, stabs, stab_ops, H, bad))
    # phase 1: automatic mode on the Model gives candidate manual positions
    jcases = []
    reqs = []
    for n, k, stabs, stab_ops, H, bad in cases:
        jH = enc_op('qubit', H.terms)
        jS = [enc_op('qubit', s.terms) for s in stab_ops]
        cands = []
        sup = [sorted(p) for p in stabs]
        for _ in range(3):
            c = []
            for s in sup:
                free = [q for q in s if q not in c]
                c.append(rng.choice(free) if free else rng.randrange(n))
            if len(c) < len(stab_ops):
                c += [rng.randrange(n) for _ in range(len(stab_ops) - len(c))]
            cands.append(c)
        jcases.append((jH, jS, cands))
        for c in cands:
            reqs.append({'op': 'c16.reduce', 'A': jH, 'stabs': jS, 'maintain': False, 'manual': True, 'fixed': c})
    ans = iter(ctx.driver.run(reqs))
    plan = []
    for (n, k, stabs, stab_ops, H, bad), (jH, jS, cands) in zip(cases, jcases):
        res = [next(ans) for _ in cands]
        manual = None
        for c, r in zip(cands, res):
            if 'ok' in r and not r['ok']['stale']:
                manual = c
                break
        if manual is None and rng.random() < 0.3:
            manual = cands[0]          # inadmissible manual positions: correspondence only
        plan.append(manual)
    # phase 2
    reqs = []
    metas = []
    for (n, k, stabs, stab_ops, H, bad), (jH, jS, cands), manual in zip(cases, jcases, plan):
        variants = [('reduce', False, False, None), ('reduce', True, False, None), ('taper', False, False, None)]
        if manual is not None:
            variants += [('reduce', rng.random() < 0.5, True, manual), ('taper', False, True, manual)]
        for f, ml, man, fixed in variants:
            if f == 'reduce':
                reqs.append({'op': 'c16.reduce', 'A': jH, 'stabs': jS, 'maintain': ml, 'manual': man, 'fixed': fixed})
            else:
                reqs.append({'op': 'c16.taper', 'A': jH, 'stabs': jS, 'manual': man, 'fixed': fixed})
            metas.append((n, k, stab_ops, H, bad, jH, jS, f, ml, man, fixed))
    ans = ctx.driver.run(reqs)
    dense_jobs = []
    for (n, k, stab_ops, H, bad, jH, jS, f, ml, man, fixed), m in zip(metas, ans):
        case = {'f': f, 'H': jH, 'stabilizers': jS, 'maintain_length': ml, 'manual_input': man, 'fixed_positions': fixed}
        st.case(case)
        st.count('%s:%s%s%s' % (f, 'manual' if man else 'auto', ':keep-length' if ml else '', ':' + bad if bad else ''))
        st.count('n=%d,k=%d' % (n, len(stab_ops)))
        try:
            if f == 'reduce':
                out, pos = of.reduce_number_of_terms(H, list(stab_ops), maintain_length=ml, output_fixed_positions=True,
                                                     manual_input=man, fixed_positions=None if fixed is None else list(fixed))
            else:
                out, pos = of.taper_off_qubits(H, list(stab_ops), manual_input=man,
                                               fixed_positions=None if fixed is None else list(fixed),
                                               output_tapered_positions=True)
            r = {'ok': {'op': enc_op('qubit', out.terms), 'fixed': [int(x) for x in pos]}}
        except (StabilizerError, TypeError, ValueError, IndexError, UnboundLocalError) as e:
            r = {'error': errname(e)}
        except Exception as e:
            st.violate('unexpected exception %s: %s' % (errname(e), e), case, {})
            continue
        if 'error' in r:
            st.count('error:' + r['error'])
        if not same_result(r, m, ('op', 'fixed')):
            st.disagree(f, case, r, m)
        stale = 'ok' in m and m['ok']['stale']
        if 'error' in r:
            if bad is None and not man:
                st.violate('%s rejects an admissible stabilizer list' % f, case, r)
            continue
        if bad is not None or stale:
            st.count('oracle:skipped-inadmissible')
            continue
        jout = r['ok']['op']
        one = leaf([[[], [1, 1, 0, 1]]])
        proj = None
        for js in jS:
            p = ['smul', [1, 2, 0, 1], ['add', one, leaf(js)]]
            proj = p if proj is None else ['mul', proj, p]
        if f == 'reduce':
            def cb(a, case=case):
                st.count('oracle:codespace')
                if not a['eq']:
                    st.violate('reduce_number_of_terms does not agree with H on the joint +1 eigenspace of the stabilizers',
                               case, {'witness_state': a['state'], 'reduced': a['lhs'], 'original': a['rhs']})
            orc.ask({'op': 'spec.eq', 'alg': 'qubit', 'n': n, 'd': 0, 'lhs': ['mul', leaf(jout), proj],
                     'rhs': ['mul', leaf(jH), proj]}, cb)
        else:
            kk = len(jS)
            nq = of.count_qubits(out)
            if nq > n - kk:
                st.violate('taper_off_qubits result acts on more than n-k qubits', case, {'result': jout, 'n': n, 'k': kk})
                continue
            if sorted(r['ok']['fixed']) != r['ok']['fixed'] or len(set(r['ok']['fixed'])) != kk:
                st.violate('taper_off_qubits removed positions are not k distinct sorted positions', case, r)
            dense_jobs.append((case, n, kk, jH, jS, jout))
    for case, n, kk, jH, jS, jout in dense_jobs:
        got = {}

        def fin(got=got, case=case, n=n, kk=kk):
            Hm = mat(got['H'])
            P = numpy.eye(2 ** n, dtype=complex)
            for i in range(kk):
                P = P @ (numpy.eye(2 ** n) + mat(got['S%d' % i])) / 2
            Tm = mat(got['T'])
            st.float_comparisons += 1
            st.count('oracle:spectrum')
            w, V = numpy.linalg.eigh((P + P.conj().T) / 2)
            B = V[:, w > 0.5]
            if B.shape[1] != 2 ** (n - kk):
                st.violate('joint +1 eigenspace does not have dimension 2^(n-k) (generator error?)', case, {})
                return
            Hr = B.conj().T @ Hm @ B
            ea = numpy.linalg.eigvalsh((Hr + Hr.conj().T) / 2)
            eb = numpy.linalg.eigvalsh((Tm + Tm.conj().T) / 2)
            if numpy.max(numpy.abs(Tm - Tm.conj().T)) > 1e-9 or numpy.max(numpy.abs(ea - eb)) > 1e-9:
                st.violate('taper_off_qubits does not have the spectrum of H on the joint +1 eigenspace', case,
                           {'sector_spectrum': ea.tolist(), 'tapered_spectrum': eb.tolist()})

        def mk(key, need, got=got, fin=fin):
            def cb(a):
                got[key] = a
                if len(got) == need:
                    fin()
            return cb
        need = 2 + kk
        orc.ask({'op': 'c16.spec_dense', 'alg': 'qubit', 'n': n, 'expr': leaf(jH)}, mk('H', need))
        orc.ask({'op': 'c16.spec_dense', 'alg': 'qubit', 'n': n - kk, 'expr': leaf(jout)}, mk('T', need))
        for i, js in enumerate(jS):
            orc.ask({'op': 'c16.spec_dense', 'alg': 'qubit', 'n': n, 'expr': leaf(js)}, mk('S%d' % i, need))
    orc.flush()
    return st


# ------------------------------------------------------------------ stream 2: projection and rotation

def rand_qubit_op(of, rng, n, nterms, complex_p=0.4):
    op = of.QubitOperator()
    for _ in range(nterms):
        p = rand_pauli(rng, n, 0, rng.choice([0.3, 0.6, 0.9]))
        op += of.QubitOperator(pauli_term(p), dyadic(rng, max_num=6, max_pow=2, complex_p=complex_p))
    return op


ANGLES = [(1, 0), (0, 1), (-1, 0), (Fraction(3, 5), Fraction(4, 5)), (Fraction(4, 5), Fraction(3, 5)),
          (Fraction(-3, 5), Fraction(4, 5)), (Fraction(5, 13), Fraction(-12, 13)), (Fraction(12, 13), Fraction(5, 13)),
          (Fraction(8, 17), Fraction(15, 17)), (Fraction(-4, 5), Fraction(-3, 5))]


def stream_proj(ctx):
    of = ctx.of
    st = Stream('projection-and-pauli-rotation',
                'project_onto_sector / projection_error on random QubitOperators (n <= 5, complex dyadic coefficients, random '
                'qubit subsets in arbitrary order, random sectors, malformed arguments) and rotate_qubit_by_pauli (n <= 3, '
                'random Pauli strings, angles atan2(s, c) of Pythagorean pairs and multiples of pi/2); projection compared '
                'exactly with the Model and with the embedded matrix elements of the original operator (Spec, exact); '
                'rotation compared with the Model at 1e-9 and with the dense Spec matrix of (c - i s P) Q (c + i s P) at 1e-9; '
                'distinct = distinct inputs')
    orc = Oracle(ctx)
    rng = rng_for(ctx.seed, 'c16-proj')
    N = budget(ctx.tier, 500, 5000)
    if ctx.drift:
        N = max(N, 800)
    items = []
    reqs = []
    for i in range(N):
        n = rng.choice([1, 2, 3, 4, 5])
        op = rand_qubit_op(of, rng, n, rng.randint(0, 6))
        k = rng.randint(0, n)
        qubits = rng.sample(range(n), k)
        sectors = [rng.randint(0, 1) for _ in qubits]
        r = rng.random()
        if r < 0.04:
            sectors = sectors + [0]
        elif r < 0.08 and k:
            sectors[0] = 2
        jA = enc_op('qubit', op.terms)
        items.append((n, op, qubits, sectors, jA))
        reqs.append({'op': 'c16.project', 'A': jA, 'qubits': qubits, 'sectors': sectors})
        reqs.append({'op': 'c16.projection_error_sq', 'A': jA, 'qubits': qubits, 'sectors': sectors})
    ans = iter(ctx.driver.run(reqs))
    for n, op, qubits, sectors, jA in items:
        m = next(ans)
        me = next(ans)
        case = {'f': 'project_onto_sector', 'A': jA, 'qubits': qubits, 'sectors': sectors}
        st.case(case)
        try:
            out = of.transforms.project_onto_sector(op, list(qubits), list(sectors))
            r = {'ok': enc_op('qubit', out.terms)}
        except (ValueError, TypeError) as e:
            r = {'error': errname(e)}
        except Exception as e:
            st.violate('unexpected exception %s: %s' % (errname(e), e), case, {})
            continue
        st.count('project:' + ('ok' if 'ok' in r else r['error']))
        if ('ok' in r) != ('ok' in m) or ('error' in r and r['error'] != m['error']) or \
                ('ok' in r and canon_op_json(r['ok']) != canon_op_json(m['ok'])):
            st.disagree('project_onto_sector', case, r, m)
        try:
            err = of.transforms.projection_error(op, list(qubits), list(sectors))
            re = {'ok': float(err)}
        except (ValueError, TypeError) as e:
            re = {'error': errname(e)}
        if ('ok' in re) != ('ok' in me) or ('error' in re and re['error'] != me['error']):
            st.disagree('projection_error', case, re, me)
        elif 'ok' in re:
            st.float_comparisons += 1
            if abs(re['ok'] - math.sqrt(Fraction(me['ok'][0], me['ok'][1]))) > 1e-9:
                st.disagree('projection_error (1e-9)', case, re, me)
        if 'ok' in r:
            rem = [q for q in range(n) if q not in qubits]
            ones = [q for q, s in zip(qubits, sectors) if s == 1]

            def cb(a, case=case, r=r):
                st.count('oracle:embedded-elements')
                if not a['eq']:
                    st.violate('project_onto_sector does not reproduce the matrix elements of the sector', case,
                               {'result': r['ok'], 'witness': a})
            orc.ask({'op': 'c16.spec_embed_eq', 'alg': 'qubit', 'm': len(rem), 'A': jA, 'B': r['ok'], 'modeMap': rem,
                     'ones': ones}, cb)
    # rotations
    items = []
    reqs = []
    for i in range(N // 2):
        n = rng.choice([1, 2, 3])
        Q = rand_qubit_op(of, rng, n, rng.randint(1, 4))
        P = of.QubitOperator(pauli_term(rand_pauli(rng, n, 0, 0.7)))
        c, s = rng.choice(ANGLES)
        c, s = Fraction(c), Fraction(s)
        theta = math.atan2(float(s), float(c))
        c2, s2 = c * c - s * s, 2 * c * s
        bad = rng.random()
        if bad < 0.04:
            P = P * 2.0
        elif bad < 0.08:
            P = P + of.QubitOperator('X0 Y1')
        jQ, jP = enc_op('qubit', Q.terms), enc_op('qubit', P.terms)
        items.append((n, Q, P, theta, c, s, jQ, jP))
        reqs.append({'op': 'c16.rotate', 'Q': jQ, 'P': jP, 'c2': to_gq(c2), 's2': to_gq(s2)})
    ans = ctx.driver.run(reqs)
    for (n, Q, P, theta, c, s, jQ, jP), m in zip(items, ans):
        case = {'f': 'rotate_qubit_by_pauli', 'Q': jQ, 'P': jP, 'cos_sin': [str(c), str(s)], 'angle': theta}
        st.case(case)
        try:
            out = of.transforms.rotate_qubit_by_pauli(Q, P, theta)
            r = {'ok': enc_op('qubit', out.terms)}
        except TypeError as e:
            r = {'error': errname(e)}
        except Exception as e:
            st.violate('unexpected exception %s: %s' % (errname(e), e), case, {})
            continue
        st.count('rotate:' + ('ok' if 'ok' in r else r['error']))
        if ('ok' in r) != ('ok' in m) or ('error' in r and r['error'] != m['error']):
            st.disagree('rotate_qubit_by_pauli', case, r, m)
            continue
        if 'error' in r:
            continue
        st.float_comparisons += 1
        if not op_close(r['ok'], m['ok']):
            st.disagree('rotate_qubit_by_pauli (1e-9)', case, r, m)
        one = leaf([[[], [1, 1, 0, 1]]])
        U = ['add', ['smul', to_gq(c), one], ['smul', to_gq((Fraction(0), s)), leaf(jP)]]
        Ud = ['add', ['smul', to_gq(c), one], ['smul', to_gq((Fraction(0), -s)), leaf(jP)]]
        got = {}

        def mk(key, got=got, case=case):
            def cb(a):
                got[key] = a
                if len(got) == 2:
                    st.float_comparisons += 1
                    st.count('oracle:conjugation')
                    if numpy.max(numpy.abs(mat(got['impl']) - mat(got['spec']))) > 1e-9:
                        st.violate('rotate_qubit_by_pauli is not conjugation by exp(i theta P)', case, {})
            return cb
        orc.ask({'op': 'c16.spec_dense', 'alg': 'qubit', 'n': n, 'expr': leaf(r['ok'])}, mk('impl'))
        orc.ask({'op': 'c16.spec_dense', 'alg': 'qubit', 'n': n, 'expr': ['mul', ['mul', Ud, leaf(jQ)], U]}, mk('spec'))
    orc.flush()
    return st


# ------------------------------------------------------------------ stream 3: freeze_orbitals

def stream_freeze(ctx):
    of = ctx.of
    st = Stream('freeze-orbitals',
                'freeze_orbitals (prune on/off) and prune_unused_indices on random FermionOperators (n <= 5 modes, terms of '
                'length <= 5 in any order, not necessarily number conserving, complex dyadic coefficients) for random disjoint '
                'occupied / unoccupied sets; compared exactly with the Model; Spec: the result reproduces the matrix elements '
                'of the original operator between Fock states with the frozen occupations (exact), pruning is the '
                'order-preserving relabelling of the used indices; distinct = distinct inputs')
    orc = Oracle(ctx)
    rng = rng_for(ctx.seed, 'c16-freeze')
    N = budget(ctx.tier, 600, 6000)
    if ctx.drift:
        N = max(N, 1000)
    items = []
    reqs = []
    for i in range(N):
        n = rng.choice([1, 2, 3, 4, 5])
        op = of.FermionOperator()
        for _ in range(rng.randint(0, 5)):
            L = rng.choice([0, 1, 2, 2, 3, 4, 4, 5])
            idx_pool = list(range(n))
            term = tuple((rng.choice(idx_pool), rng.randint(0, 1)) for _ in range(L))
            op += of.FermionOperator(term, dyadic(rng, max_num=6, max_pow=2, complex_p=0.4))
        modes = list(range(n))
        rng.shuffle(modes)
        no = min(n, rng.choice([0, 1, 1, 2, 2, 3]))
        nu = min(n - no, rng.choice([0, 0, 1, 1, 2]))
        occ, unocc = modes[:no], modes[no:no + nu]
        jA = enc_op('fermion', op.terms)
        items.append((n, op, occ, unocc, jA))
        for prune in (False, True):
            reqs.append({'op': 'c16.freeze', 'A': jA, 'occupied': occ, 'unoccupied': unocc, 'prune': prune})
    ans = iter(ctx.driver.run(reqs))
    for n, op, occ, unocc, jA in items:
        m0, m1 = next(ans), next(ans)
        case = {'f': 'freeze_orbitals', 'A': jA, 'occupied': occ, 'unoccupied': unocc}
        st.case(case)
        st.count('occ=%d,unocc=%d' % (len(occ), len(unocc)))
        before = canon_op_json(enc_op('fermion', op.terms))
        try:
            r0 = of.transforms.freeze_orbitals(op, list(occ), list(unocc) if unocc or rng.random() < 0.5 else None, prune=False)
            j0 = enc_op('fermion', r0.terms)
            if (occ or unocc) and canon_op_json(enc_op('fermion', op.terms)) != before:
                st.violate('freeze_orbitals changed its argument', case, {})
            r1 = of.transforms.freeze_orbitals(op, list(occ), list(unocc), prune=True)
            j1 = enc_op('fermion', r1.terms)
        except Exception as e:
            st.violate('unexpected exception %s: %s' % (errname(e), e), case, {})
            continue
        if canon_op_json(j0) != canon_op_json(m0):
            st.disagree('freeze_orbitals(prune=False)', case, j0, m0)
        if canon_op_json(j1) != canon_op_json(m1):
            st.disagree('freeze_orbitals(prune=True)', case, j1, m1)
        frozen = set(occ) | set(unocc)
        used0 = sorted({i for t, _ in j0 for i, _a in t})
        if any(i in frozen for i in used0):
            st.violate('freeze_orbitals result still acts on a frozen orbital', case, {'result': j0})
            continue
        # pruning = order-preserving relabelling of the used indices
        relabel = {old: new for new, old in enumerate(used0)}
        expect = canon_op_json([[[[relabel[i], a] for i, a in t], c] for t, c in j0])
        if canon_op_json(j1) != expect:
            st.violate('prune_unused_indices is not the order-preserving relabelling of the used indices', case,
                       {'unpruned': j0, 'pruned': j1})
        # unpruned result with the frozen modes deleted from the register
        rest = [q for q in range(n) if q not in frozen]
        shift = {old: new for new, old in enumerate(rest)}
        jshift = [[[[shift[i], a] for i, a in t], c] for t, c in j0]

        def cb(a, case=case, j0=j0):
            st.count('oracle:embedded-elements')
            if not a['eq']:
                st.violate('freeze_orbitals does not reproduce the matrix elements for the frozen occupations', case,
                           {'result': j0, 'witness': a})
        orc.ask({'op': 'c16.spec_embed_eq', 'alg': 'fermion', 'm': len(rest), 'A': jA, 'B': jshift, 'modeMap': rest,
                 'ones': list(occ)}, cb)

        def cb1(a, case=case, j1=j1):
            st.count('oracle:embedded-elements-pruned')
            if not a['eq']:
                st.violate('freeze_orbitals(prune=True) does not reproduce the matrix elements for the frozen occupations',
                           case, {'result': j1, 'witness': a})
        orc.ask({'op': 'c16.spec_embed_eq', 'alg': 'fermion', 'm': len(used0), 'A': jA, 'B': j1, 'modeMap': used0,
                 'ones': list(occ)}, cb1)
    orc.flush()
    return st


# ------------------------------------------------------------------ stream 4: symmetry conserving Bravyi-Kitaev

def rand_conserving_hamiltonian(of, rng, n):
    H = of.FermionOperator()
    for _ in range(rng.randint(2, 5)):
        sp = rng.randint(0, 1)
        p, q = [2 * rng.randrange(n // 2) + sp for _ in range(2)]
        c = dyadic(rng, max_num=4, max_pow=1, complex_p=0.3)
        t = of.FermionOperator(((p, 1), (q, 0)), c)
        H += t + of.hermitian_conjugated(t)
    for _ in range(rng.randint(0, 4)):
        s1, s2 = rng.randint(0, 1), rng.randint(0, 1)
        p, s = [2 * rng.randrange(n // 2) + s1 for _ in range(2)]
        q, r = [2 * rng.randrange(n // 2) + s2 for _ in range(2)]
        c = dyadic(rng, max_num=4, max_pow=1, complex_p=0.3)
        t = of.FermionOperator(((p, 1), (q, 1), (r, 0), (s, 0)), c)
        H += t + of.hermitian_conjugated(t)
    if rng.random() < 0.5:
        H += of.FermionOperator((), float(dyadic(rng, complex_p=0.0)))
    return H


def stream_scbk(ctx):
    of = ctx.of
    from openfermion.transforms.opconversions.remove_symmetry_qubits import (edit_hamiltonian_for_spin, remove_indices)
    st = Stream('symmetry-conserving-bravyi-kitaev',
                'random number- and spin-conserving Hermitian Hamiltonians on 4 orbitals (6 in thorough) and every electron '
                'count 0 < N < n: symmetry_conserving_bravyi_kitaev compared exactly with the Model of '
                'edit_hamiltonian_for_spin / remove_indices applied to the real bravyi_kitaev_tree output; Spec: the spectrum '
                'equals the spectrum of H (exact dense Spec matrix) restricted to the (N mod 2, ceil(N/2) mod 2) parity '
                'sector (eigvalsh, 1e-9); edit_hamiltonian_for_spin / remove_indices alone on random QubitOperators; '
                'distinct = distinct (H, N)')
    orc = Oracle(ctx)
    rng = rng_for(ctx.seed, 'c16-scbk')
    N = budget(ctx.tier, 100, 600)
    if ctx.drift:
        N = max(N, 150)
    items = []
    reqs = []
    for i in range(N):
        n = 4 if (ctx.tier != 'thorough' or rng.random() < 0.7) else 6
        H = rand_conserving_hamiltonian(of, rng, n)
        ne = rng.randint(1, n - 1)
        try:
            reord = of.transforms.reorder(H, of.utils.up_then_down, num_modes=n)
            bk = of.transforms.bravyi_kitaev_tree(reord, n_qubits=n)
            bk.compress()
        except Exception as e:
            st.violate('unexpected exception in bravyi_kitaev_tree %s: %s' % (errname(e), e), {'H': enc_op('fermion', H.terms)}, {})
            continue
        jbk = enc_op('qubit', bk.terms)
        items.append((n, H, ne, jbk))
        reqs.append({'op': 'c16.scbk_reduce', 'A': jbk, 'n': n, 'fermions': ne})
    ans = ctx.driver.run(reqs)
    for (n, H, ne, jbk), m in zip(items, ans):
        jH = enc_op('fermion', H.terms)
        case = {'f': 'symmetry_conserving_bravyi_kitaev', 'H': jH, 'active_orbitals': n, 'active_fermions': ne}
        st.case(case)
        st.count('n=%d,N=%d' % (n, ne))
        try:
            out = of.transforms.symmetry_conserving_bravyi_kitaev(H, n, ne)
        except Exception as e:
            st.violate('unexpected exception %s: %s' % (errname(e), e), case, {})
            continue
        jout = enc_op('qubit', out.terms)
        if canon_op_json(jout) != canon_op_json(m):
            st.disagree('symmetry_conserving_bravyi_kitaev (reduction steps)', case, jout, m)
        if of.count_qubits(out) > n - 2:
            st.violate('symmetry_conserving_bravyi_kitaev result acts on more than n-2 qubits', case, {'result': jout})
            continue
        got = {}

        def fin(got=got, case=case, n=n, ne=ne):
            Hm = mat(got['H'])
            Tm = mat(got['T'])
            up_mask = sum(1 << i for i in range(0, n, 2))
            sel = [s for s in range(2 ** n) if bin(s).count('1') % 2 == ne % 2
                   and bin(s & up_mask).count('1') % 2 == ((ne + 1) // 2) % 2]
            Hs = Hm[numpy.ix_(sel, sel)]
            st.float_comparisons += 1
            st.count('oracle:sector-spectrum')
            ea = numpy.linalg.eigvalsh((Hs + Hs.conj().T) / 2)
            eb = numpy.linalg.eigvalsh((Tm + Tm.conj().T) / 2)
            if numpy.max(numpy.abs(Tm - Tm.conj().T)) > 1e-9 or numpy.max(numpy.abs(ea - eb)) > 1e-9:
                st.violate('symmetry_conserving_bravyi_kitaev does not have the spectrum of the parity sector', case,
                           {'sector_spectrum': ea.tolist(), 'reduced_spectrum': eb.tolist()})

        def mk(key, got=got, fin=fin):
            def cb(a):
                got[key] = a
                if len(got) == 2:
                    fin()
            return cb
        orc.ask({'op': 'c16.spec_dense', 'alg': 'fermion', 'n': n, 'expr': leaf(jH)}, mk('H'))
        orc.ask({'op': 'c16.spec_dense', 'alg': 'qubit', 'n': n - 2, 'expr': leaf(jout)}, mk('T'))
    # the two helper functions alone
    items = []
    reqs = []
    for i in range(N * 2):
        n = rng.choice([2, 3, 4, 5])
        op = rand_qubit_op(of, rng, n, rng.randint(0, 6))
        so = rng.randint(1, n)
        par = rng.choice([1, -1])
        idx = sorted(rng.sample(range(1, n + 1), rng.randint(0, min(2, n))))
        jA = enc_op('qubit', op.terms)
        items.append((op, so, par, idx, jA))
        reqs.append({'op': 'c16.edit', 'A': jA, 'spin_orbital': so, 'parity': to_gq(par)})
        reqs.append({'op': 'c16.remove_indices', 'A': jA, 'indices': idx})
    ans = iter(ctx.driver.run(reqs))
    import copy
    for op, so, par, idx, jA in items:
        me, mr = next(ans), next(ans)
        case = {'f': 'edit_hamiltonian_for_spin/remove_indices', 'A': jA, 'spin_orbital': so, 'parity': par, 'indices': idx}
        st.case(case)
        try:
            e = edit_hamiltonian_for_spin(copy.deepcopy(op), so, par)
            rr = remove_indices(op, tuple(idx))
        except Exception as ex:
            st.violate('unexpected exception %s: %s' % (errname(ex), ex), case, {})
            continue
        if canon_op_json(enc_op('qubit', e.terms)) != canon_op_json(me):
            st.disagree('edit_hamiltonian_for_spin', case, enc_op('qubit', e.terms), me)
        if canon_op_json(enc_op('qubit', rr.terms)) != canon_op_json(mr):
            st.disagree('remove_indices', case, enc_op('qubit', rr.terms), mr)
    orc.flush()
    return st


def run(ctx):
    return [stream_taper(ctx), stream_proj(ctx), stream_freeze(ctx), stream_scbk(ctx)]
