"""C06 — sparse matrices and linear operators equal the operator they represent.

The real functions (get_sparse_operator & co, LinearQubitOperator, ParallelLinearQubitOperator with a
fake pool delivering the group results in every order, get_linear_qubit_operator_diagonal, expectation /
variance / eigenspectrum) are compared exactly with the Lean Model (OFV.Model.C06) and with the Spec
(OFV.Spec.C06: big-endian matrix of the Spec action `applyOp`), entry by entry."""
import itertools
import warnings
from fractions import Fraction

from common import (Stream, budget, enc_op, enc_term, canon_op_json, to_gq, from_gq, gq_key, dyadic, rng_for)

TRUSTED = [
    'C06: scipy.sparse (kron, csc/coo conversion, nonzero ordering, matmul) is modelled as index arithmetic on entry '
    'lists; numpy.split/concatenate as list take/drop; both tied by the exact correspondence run',
    'C06: bosonic matrices contain sqrt(n): the Model returns amplitudes as sqrt(R) (R natural) and the comparison '
    'uses tolerance 1e-9; expectation / variance on sparse matrices are compared exactly with the Model, eigenspectrum and '
    'LinearOperator expectation values are glue over numpy/scipy compared to 1e-9',
    'C06: multiprocessing.Pool is replaced by a fake pool (every completion order); real pools only in thorough',
]
ASSUMPTIONS = [
    'the matrix of a bosonic operator in the truncated Fock basis is the product of the truncated single-mode '
    'ladder matrices (mode 0 = most significant digit), as in the docstrings; for non-normal-ordered terms this '
    'differs from the truncation of the exact product at the cut-off level',
    'n_qubits >= count_qubits(operator) (smaller values: QubitOperator paths must raise ValueError; '
    'jordan_wigner_sparse is not called with fewer qubits than the operator needs)',
    'coefficients and vector entries are dyadic Gaussian rationals (float arithmetic exact)',
]
OPEN_STATEMENTS = [
    'qubit_operator_sparse and jordan_wigner_sparse are proved end to end for every register size '
    '(qubit_term_matrix_sound, coordinate_extraction_sound, coo_assembly_sound, qubit_sparse_sound; jw_ladder_sound, '
    'jw_term_matrix_sound, jw_sparse_sound); the tensor dispatch (get_fermion_operator) belongs to C08 and is '
    'covered here by the oracle against the operator built from the tensors by the checker',
    'matvec_sound is proved for the whole operator in matrix form (every entry = sum over basis states of the Spec '
    'matrix element times the vector entry; matvec_eq_sparse_matvec: LinearQubitOperator(a) x = '
    'qubit_operator_sparse(a) x); parallel_matvec_matrix: the same for ParallelLinearQubitOperator and every '
    'completion order; diagonal_sound covers the sum over the terms and diagonal_eq_sparse_diagonal ties it to the '
    'diagonal of the sparse matrix',
    'truncated boson matrices: every column of a ladder word is proved against the truncated polynomial Spec, cut-off '
    'branch and mixed-radix index arithmetic included (boson_column_sound, boson_truncation_restricts, '
    'boson_index_bijection, boson_term_sound_partial), up to diag(sqrt(n!)) stated without square roots; the float '
    'sum over terms with sqrt amplitudes and the QuadOperator route (q, p as combinations of ladder matrices) are '
    'numeric correspondence only',
    'expectation / variance: proved for the Model\'s sparse-matrix form (expectation_vec_sound, '
    'expectation_density_sound, expectation_pure_consistent, variance_def, second_moment_hermitian_only) and tied '
    'to the source by an exact correspondence run on the implementation\'s own matrices; is_hermitian(sparse '
    'matrix) and with it the eigvalsh / eigvals choice of sparse_eigenspectrum are modelled, proved '
    '(is_hermitian_sparse_sound, eigenspectrum_route_sound) and compared exactly; the eigenvalues themselves '
    '(LAPACK), the dense-array branch of is_hermitian and LinearOperator arguments are numeric correspondence only',
    'OS-level behaviour of multiprocessing.Pool (fork, pickling, worker death) is not expressible',
]

ONE = [1, 1, 0, 1]


def safe(f, *a, **k):
    try:
        with warnings.catch_warnings():
            warnings.simplefilter('ignore')
            return 'ok', f(*a, **k)
    except Exception as e:  # noqa
        return 'err', type(e).__name__ + ': ' + str(e)[:160]


def fr(x):
    c = complex(x)
    return (Fraction(c.real), Fraction(c.imag))


def mat_entries(M):
    """scipy sparse matrix -> {(r, c): (re, im)} exact, zeros dropped, duplicates summed"""
    M = M.tocoo()
    out = {}
    for r, c, v in zip(M.row.tolist(), M.col.tolist(), M.data.tolist()):
        a = fr(v)
        p = out.get((r, c), (Fraction(0), Fraction(0)))
        out[(r, c)] = (p[0] + a[0], p[1] + a[1])
    return {k: v for k, v in out.items() if v != (0, 0)}


def j_entries(js):
    out = {}
    for r, c, v in js:
        a = from_gq(v)
        p = out.get((r, c), (Fraction(0), Fraction(0)))
        out[(r, c)] = (p[0] + a[0], p[1] + a[1])
    return {k: v for k, v in out.items() if v != (0, 0)}


def show_entries(d, limit=12):
    return [[r, c, str(v[0]), str(v[1])] for (r, c), v in sorted(d.items())[:limit]]


def vec_j(v):
    return [to_gq(x) for x in v]


def j_vec(js):
    return [from_gq(x) for x in js]


def rand_qubit_op(rng, of, n, n_terms, complex_typed=None, zero_p=0.0):
    Q = of.QubitOperator
    op = Q()
    for _ in range(n_terms):
        k = rng.randint(0, min(n, 4))
        qs = sorted(rng.sample(range(n), k))
        t = tuple((q, rng.choice('XYZ')) for q in qs)
        c = dyadic(rng, max_num=4, max_pow=2, zero_p=zero_p)
        if complex_typed is True:
            c = complex(c)
        elif complex_typed is False and isinstance(c, complex):
            c = c.real if c.real != 0 else 0.5
        if t in op.terms:
            continue
        op.terms[t] = c      # keeps the coefficient type and explicit zeros
    return op


def rand_fermion_op(rng, of, n, n_terms, zero_p=0.0):
    F = of.FermionOperator
    op = F()
    for _ in range(n_terms):
        k = rng.randint(0, 4)
        t = tuple((rng.randrange(n), rng.randint(0, 1)) for _ in range(k))
        c = dyadic(rng, max_num=4, max_pow=2, zero_p=zero_p)
        if t in op.terms:
            continue
        op.terms[t] = c
    return op


class Batch:
    def __init__(self, ctx):
        self.ctx = ctx
        self.items = []

    def ask(self, req, cb):
        self.items.append((req, cb))

    def flush(self):
        if self.items:
            ans = self.ctx.driver.run([r for r, _ in self.items])
            for (r, cb), a in zip(self.items, ans):
                cb(a)
        self.items = []


# ---------------------------------------------------------------- sparse matrices

def stream_sparse(ctx):
    of = ctx.of
    import numpy
    from openfermion.linalg import sparse_tools as stl
    st = Stream('sparse-matrices', 'get_sparse_operator / qubit_operator_sparse / jordan_wigner_sparse on random Qubit- and '
                'FermionOperators (<= 5 qubits, int/float/complex dyadic coefficients, stored zeros, identity terms), '
                'n_qubits in {None, count, count+1, count+2}; every jordan_wigner_ladder_sparse for n <= 4; tensors '
                '(PolynomialTensor, InteractionOperator, DiagonalCoulombHamiltonian) with trailing zero orbitals; '
                'shape and all entries compared exactly with the Model and with the Spec matrix (big-endian); '
                'distinct = distinct (operator, n_qubits)')
    B = Batch(ctx)
    rng = rng_for(ctx.seed, 'c06-sparse')
    n_cases = budget(ctx.tier, 400, 3000)
    if ctx.drift:
        n_cases = max(n_cases, 500)

    def check_matrix(case, M, n, cls, jop, model_req):
        """impl matrix M vs Model (request) and vs Spec"""
        if M.shape != (2 ** n, 2 ** n):
            st.violate('shape %s is not 2^n_qubits = %d' % (M.shape, 2 ** n), case, None)
            return
        E = mat_entries(M)

        def cbm(m):
            if isinstance(m, dict) and 'error' in m:
                st.disagree('matrix', case, show_entries(E), m)
                return
            if m['dim'] != M.shape[0] or j_entries(m['entries']) != E:
                st.disagree('matrix entries', case, show_entries(E), show_entries(j_entries(m['entries'])))
        if model_req is not None:
            B.ask(model_req, cbm)

        def cbs(s):
            st.count('oracle:spec-matrix')
            S = j_entries(s)
            if S != E:
                bad = sorted(set(S.items()) ^ set(E.items()))[:6]
                st.violate('matrix != matrix of the operator in the big-endian basis', case,
                           {'differing_entries': [[k[0], k[1], str(v[0]), str(v[1])] for k, v in bad]})
        B.ask({'op': 'c06.spec_matrix', 'alg': cls, 'n': n, 'a': jop}, cbs)

    for k in range(n_cases):
        cls = 'qubit' if k % 2 == 0 else 'fermion'
        nq = rng.randint(1, 5) if cls == 'qubit' else rng.randint(1, 4)
        if cls == 'qubit':
            op = rand_qubit_op(rng, of, nq, rng.randint(0, 5), complex_typed=rng.choice([None, True, False]),
                               zero_p=0.1)
        else:
            op = rand_fermion_op(rng, of, nq, rng.randint(0, 4), zero_p=0.1)
        jop = enc_op(cls, op.terms)
        cnt = of.count_qubits(op)
        extra = rng.choice([None, 0, 1, 2])
        n_arg = None if extra is None else cnt + extra
        n = cnt if n_arg is None else n_arg
        if n > 6:
            continue
        case = {'fn': 'get_sparse_operator', 'cls': cls, 'a': jop, 'n_qubits': n_arg}
        st.case(case)
        st.count('%s:n_qubits=%s' % (cls, 'None' if extra is None else '+%d' % extra))

        def cbc(m, cnt=cnt, case=case):
            if m != cnt:
                st.disagree('count_qubits', case, cnt, m)
        B.ask({'op': 'c06.count_qubits', 'cls': cls, 'a': jop}, cbc)
        real_cnt = max([i + 1 for t in op.terms for i, _ in t] + [0])
        if cnt != real_cnt:
            st.violate('count_qubits != highest index + 1', case, {'got': cnt, 'want': real_cnt})
        kind, M = safe(of.get_sparse_operator, op, n_arg)
        if kind == 'err':
            st.violate('get_sparse_operator raised', case, M)
            continue
        check_matrix(case, M, n, cls, jop, {'op': 'c06.qubit_sparse' if cls == 'qubit' else 'c06.jw_sparse',
                                           'a': jop, 'n': n_arg})
        # the direct entry points agree
        if k % 5 == 0:
            f = stl.qubit_operator_sparse if cls == 'qubit' else stl.jordan_wigner_sparse
            kind, M2 = safe(f, op, n_arg)
            if kind == 'err' or mat_entries(M2) != mat_entries(M):
                st.violate('%s differs from get_sparse_operator' % f.__name__, case, str(M2)[:200])

    # too few qubits: ValueError (QubitOperator paths)
    for _ in range(budget(ctx.tier, 10, 60)):
        op = rand_qubit_op(rng, of, 4, 3)
        cnt = of.count_qubits(op)
        if cnt < 2:
            continue
        jop = enc_op('qubit', op.terms)
        case = {'fn': 'qubit_operator_sparse', 'a': jop, 'n_qubits': cnt - 1}
        st.case(case)
        st.count('too-few-qubits')
        kind, r = safe(of.get_sparse_operator, op, cnt - 1)
        if not (kind == 'err' and r.startswith('ValueError')):
            st.violate('n_qubits < count_qubits did not raise ValueError', case, str(r)[:200])

        def cbe(m, case=case):
            if not (isinstance(m, dict) and m.get('error') == 'ValueError'):
                st.disagree('error kind', case, 'ValueError', m)
        B.ask({'op': 'c06.qubit_sparse', 'a': jop, 'n': cnt - 1}, cbe)

    # ladder operators
    for n in range(1, 5):
        for j in range(n):
            for ty in (0, 1):
                case = {'fn': 'jordan_wigner_ladder_sparse', 'n': n, 'j': j, 'type': ty}
                st.case(case)
                st.count('ladder')
                kind, M = safe(stl.jordan_wigner_ladder_sparse, n, j, ty)
                if kind == 'err':
                    st.violate('jordan_wigner_ladder_sparse raised', case, M)
                    continue
                check_matrix(case, M, n, 'fermion', [[[[j, ty]], ONE]], {'op': 'c06.jw_ladder', 'n': n, 'j': j, 'type': ty})

    # tensors with trailing zero orbitals; n_qubits forwarded
    for _ in range(budget(ctx.tier, 30, 300)):
        size = rng.randint(1, 4)
        live = rng.randint(0, size)          # orbitals >= live carry only zero coefficients
        kindt = rng.choice(['poly', 'interaction', 'dch'])

        def d():
            return float(dyadic(rng, max_num=3, max_pow=1, complex_p=0.0))
        one = numpy.zeros((size, size))
        two = numpy.zeros((size, size, size, size))
        for i in range(live):
            for j in range(live):
                if rng.random() < 0.6:
                    one[i, j] = d()
        if kindt == 'dch':
            one = one + one.T
            twob = numpy.zeros((size, size))
            for i in range(live):
                for j in range(live):
                    if rng.random() < 0.5:
                        twob[i, j] = twob[j, i] = d()
            op = of.DiagonalCoulombHamiltonian(one, twob, d())
        else:
            for _ in range(rng.randint(0, 4)):
                if live:
                    idx = tuple(rng.randrange(live) for _ in range(4))
                    two[idx] = d()
            if kindt == 'poly':
                op = of.PolynomialTensor({(): d(), (1, 0): one, (1, 1, 0, 0): two})
            else:
                op = of.InteractionOperator(d(), one, two)
        extra = rng.choice([None, 0, 1])
        n_arg = None if extra is None else size + extra
        n = size if n_arg is None else n_arg
        kind, fop = safe(of.get_fermion_operator, op)
        if kind == 'err':
            continue
        jop = enc_op('fermion', fop.terms)
        case = {'fn': 'get_sparse_operator', 'cls': kindt, 'size': size, 'live_orbitals': live, 'a': jop,
                'n_qubits': n_arg}
        st.case(case)
        st.count('tensor:%s:n_qubits=%s' % (kindt, 'None' if extra is None else '+%d' % extra))
        kind, M = safe(of.get_sparse_operator, op, n_arg)
        if kind == 'err':
            st.violate('get_sparse_operator(tensor) raised', case, M)
            continue
        check_matrix(case, M, n, 'fermion', jop, {'op': 'c06.jw_sparse', 'a': jop, 'n': n})
    kind, r = safe(of.get_sparse_operator, 'x')
    if not (kind == 'err' and r.startswith('TypeError')):
        st.violate('get_sparse_operator of an unsupported type did not raise TypeError', {'arg': 'str'}, str(r)[:100])
    B.flush()
    return st


# ---------------------------------------------------------------- linear operators

class FakePool:
    """delivers the results of imap_unordered in a prescribed order"""

    def __init__(self, perm):
        self.perm = perm
        self.closed = self.joined = False

    def imap_unordered(self, f, args):
        args = list(args)
        res = [f(a) for a in args]
        return iter([res[i] for i in self.perm])

    def close(self):
        self.closed = True

    def join(self):
        self.joined = True


def stream_linear(ctx):
    of = ctx.of
    import numpy
    from openfermion.linalg import linear_qubit_operator as lq
    from openfermion.linalg import sparse_tools as stl
    st = Stream('linear-operators', 'LinearQubitOperator on basis vectors and random dyadic complex vectors (<= 5 qubits, '
                'n_qubits up to +2), as a matrix (operator * identity); get_linear_qubit_operator_diagonal incl. complex-typed '
                '(python / numpy) coefficients on Z-only terms; '
                'get_operator_groups(k) and ParallelLinearQubitOperator with a fake pool delivering the group results '
                'in every permutation (<= 4 groups; sampled beyond) for 1..5 processes; all compared exactly with the '
                'Model and with the Spec matrix-vector product; distinct = distinct (operator, n, vector / k, order)')
    B = Batch(ctx)
    rng = rng_for(ctx.seed, 'c06-linear')
    n_cases = budget(ctx.tier, 250, 1800)
    if ctx.drift:
        n_cases = max(n_cases, 300)

    def rvec(dim):
        return [complex(rng.randint(-4, 4) / 2 ** rng.randint(0, 2), rng.randint(-4, 4) / 2 ** rng.randint(0, 2))
                for _ in range(dim)]

    for k in range(n_cases):
        nq = rng.randint(1, 5)
        op = rand_qubit_op(rng, of, nq, rng.randint(0, 5), complex_typed=rng.choice([None, True, False]), zero_p=0.05)
        jop = enc_op('qubit', op.terms)
        cnt = of.count_qubits(op)
        extra = rng.choice([None, 0, 1, 2])
        n_arg = None if extra is None else cnt + extra
        n = cnt if n_arg is None else n_arg
        if n > 6:
            continue
        dim = 2 ** n
        if rng.random() < 0.4:
            x = [0j] * dim
            x[rng.randrange(dim)] = 1 + 0j
        else:
            x = rvec(dim)
        case = {'fn': 'LinearQubitOperator', 'a': jop, 'n_qubits': n_arg, 'x': [[v.real, v.imag] for v in x]}
        st.case(case)
        st.count('matvec:n=%d' % n)
        kind, L = safe(of.LinearQubitOperator, op, n_arg)
        if kind == 'err':
            st.violate('LinearQubitOperator raised', case, L)
            continue
        if L.shape != (dim, dim):
            st.violate('LinearQubitOperator shape', case, L.shape)
            continue
        kind, y = safe(lambda: L * numpy.array(x))
        if kind == 'err':
            st.violate('matvec raised', case, y)
            continue
        ye = [fr(v) for v in y]

        def cbm(m, ye=ye, case=case):
            if j_vec(m) != ye:
                st.disagree('matvec', case, [str(v) for v in ye[:8]], [str(v) for v in j_vec(m)[:8]])
        B.ask({'op': 'c06.matvec', 'a': jop, 'x': vec_j(x)}, cbm)

        def cbs(s, ye=ye, case=case):
            st.count('oracle:spec-matvec')
            if j_vec(s) != ye:
                st.violate('LinearQubitOperator * x != (matrix of the operator) x', case,
                           {'got': [str(v) for v in ye[:8]], 'want': [str(v) for v in j_vec(s)[:8]]})
        B.ask({'op': 'c06.spec_matvec', 'alg': 'qubit', 'n': n, 'a': jop, 'x': vec_j(x)}, cbs)

        # agrees with the sparse matrix as a whole
        if k % 6 == 0 and n <= 4:
            kind, r = safe(lambda: (L * numpy.eye(dim), of.get_sparse_operator(op, n_arg).toarray()))
            if kind == 'err':
                st.violate('LinearQubitOperator * identity raised', case, r)
            elif not numpy.array_equal(r[0], r[1]):
                st.violate('LinearQubitOperator as a matrix != get_sparse_operator', case, None)

        # diagonal
        if k % 2 == 0:
            dcase = {'fn': 'get_linear_qubit_operator_diagonal', 'a': jop, 'n_qubits': n_arg,
                     'coefficient_types': sorted({type(c).__name__ for c in op.terms.values()})}
            st.case(dcase)
            kind, dg = safe(stl.get_linear_qubit_operator_diagonal, op, n_arg)
            if kind == 'err':
                st.count('diagonal:raised')
                st.violate('get_linear_qubit_operator_diagonal raised %s' % dg.split(':')[0], dcase, {'error': dg})
            else:
                st.count('diagonal:ok')
                de = [fr(v) for v in dg]

                def cbd(m, de=de, dcase=dcase):
                    if 'error' in m or j_vec(m['diag']) != de:
                        st.disagree('diagonal', dcase, [str(v) for v in de[:8]], m)
                B.ask({'op': 'c06.diagonal', 'a': jop, 'n': n_arg}, cbd)

                def cbds(s, de=de, dcase=dcase, dim=dim):
                    S = j_entries(s)
                    want = [S.get((i, i), (Fraction(0), Fraction(0))) for i in range(dim)]
                    if want != de:
                        st.violate('diagonal != diagonal of the matrix of the operator', dcase,
                                   {'got': [str(v) for v in de[:8]], 'want': [str(v) for v in want[:8]]})
                B.ask({'op': 'c06.spec_matrix', 'alg': 'qubit', 'n': n, 'a': jop}, cbds)

    # complex-typed coefficients on X/Y-free terms (what every transform of the library emits): an ordinary case
    for k in range(budget(ctx.tier, 40, 400)):
        nq = rng.randint(1, 4)
        op = of.QubitOperator()
        for _ in range(rng.randint(1, 4)):
            qs = sorted(rng.sample(range(nq), rng.randint(0, nq)))
            acts = 'Z' if rng.random() < 0.8 else 'XYZ'
            t = tuple((q, rng.choice(acts)) for q in qs)
            c = complex(rng.randint(-4, 4) / 2 ** rng.randint(0, 2), rng.choice([0, 0, -3, -1, 1, 2]) / 2 ** rng.randint(0, 2))
            if k % 3 == 0:
                c = numpy.complex128(c)
            op.terms[t] = c
        jop = enc_op('qubit', op.terms)
        cnt = of.count_qubits(op)
        extra = rng.choice([None, 0, 1])
        n_arg = None if extra is None else cnt + extra
        n = cnt if n_arg is None else n_arg
        dim = 2 ** n
        dcase = {'fn': 'get_linear_qubit_operator_diagonal', 'a': jop, 'n_qubits': n_arg,
                 'coefficient_types': sorted({type(c).__name__ for c in op.terms.values()})}
        st.case(dcase)
        st.count('diagonal:complex-typed')
        kind, dg = safe(stl.get_linear_qubit_operator_diagonal, op, n_arg)
        if kind == 'err':
            st.violate('get_linear_qubit_operator_diagonal raised %s' % dg.split(':')[0], dcase, {'error': dg})
            continue
        if len(dg) != dim:
            st.violate('diagonal has length %d, not 2^n = %d' % (len(dg), dim), dcase, None)
            continue
        de = [fr(v) for v in dg]

        def cbd2(m, de=de, dcase=dcase):
            if 'error' in m or j_vec(m['diag']) != de:
                st.disagree('diagonal', dcase, [str(v) for v in de[:8]], m)
        B.ask({'op': 'c06.diagonal', 'a': jop, 'n': n_arg}, cbd2)

        def cbds2(s_, de=de, dcase=dcase, dim=dim):
            st.count('oracle:spec-diagonal')
            S = j_entries(s_)
            want = [S.get((i, i), (Fraction(0), Fraction(0))) for i in range(dim)]
            if want != de:
                st.violate('diagonal != diagonal of the matrix of the operator', dcase,
                           {'got': [str(v) for v in de[:8]], 'want': [str(v) for v in want[:8]]})
        B.ask({'op': 'c06.spec_matrix', 'alg': 'qubit', 'n': n, 'a': jop}, cbds2)
    # too few qubits: ValueError
    kind, r = safe(stl.get_linear_qubit_operator_diagonal, of.QubitOperator('Z3'), 2)
    if not (kind == 'err' and r.startswith('ValueError')):
        st.violate('get_linear_qubit_operator_diagonal with too few qubits did not raise ValueError', {}, str(r)[:100])

    # operator groups and the parallel operator
    for k in range(budget(ctx.tier, 100, 800)):
        nq = rng.randint(1, 4)
        op = rand_qubit_op(rng, of, nq, rng.randint(0, 7), complex_typed=rng.choice([None, True]), zero_p=0.05)
        jop = enc_op('qubit', op.terms)
        n = of.count_qubits(op) + rng.choice([0, 0, 1])
        procs = rng.randint(1, 5)
        gcase = {'fn': 'get_operator_groups', 'a': jop, 'k': procs}
        st.case(gcase)
        kind, groups = safe(lambda: list(op.get_operator_groups(procs)))
        if kind == 'err':
            st.violate('get_operator_groups raised', gcase, groups)
            continue
        jg = [enc_op('qubit', g.terms) for g in groups]
        st.count('groups:%d' % len(groups))

        def cbg(m, jg=jg, gcase=gcase):
            # the Model keeps stored zeros / tiny coefficients, `accumulate` (+=) drops them
            mm = [[e for e in g if from_gq(e[1]) != (0, 0)] for g in m]
            if [canon_op_json(g) for g in mm] != [canon_op_json(g) for g in jg]:
                st.disagree('operator groups', gcase, jg, m)
        B.ask({'op': 'c06.groups', 'a': jop, 'k': procs}, cbg)
        # Spec: the groups partition the (non-zero) terms
        union = {}
        dup = False
        for g in groups:
            for t, c in g.terms.items():
                dup = dup or t in union
                union[t] = c
        want = {t: c for t, c in op.terms.items() if c != 0}
        if dup or {t: fr(c) for t, c in union.items()} != {t: fr(c) for t, c in want.items()} \
                or len(groups) > max(procs, 1):
            st.violate('operator groups do not partition the terms', gcase, jg)
        dim = 2 ** n
        x = rvec(dim)
        ngroups = len(groups)
        perms = list(itertools.permutations(range(ngroups)))
        if len(perms) > 24:
            perms = rng.sample(perms, 24)
        if ctx.tier == 'quick' and not ctx.drift and len(perms) > 6:
            perms = rng.sample(perms, 6) + [tuple(range(ngroups)), tuple(reversed(range(ngroups)))]
        for perm in perms:
            pcase = {'fn': 'ParallelLinearQubitOperator', 'a': jop, 'n_qubits': n, 'processes': procs,
                     'completion_order': list(perm), 'x': [[v.real, v.imag] for v in x]}
            st.case(pcase)
            st.count('parallel:groups=%d' % ngroups)
            pool = FakePool(list(perm))

            class Opt(lq.LinearQubitOperatorOptions):
                def get_pool(self, num=None, pool=pool):
                    return pool
            kind, y = safe(lambda: of.ParallelLinearQubitOperator(op, n, Opt(processes=procs)) * numpy.array(x))
            if kind == 'err':
                st.violate('ParallelLinearQubitOperator raised', pcase, y)
                continue
            if ngroups and not (pool.closed and pool.joined):
                st.violate('pool not closed / joined', pcase, None)
            ye = [fr(v) for v in y]

            def cbp(m, ye=ye, pcase=pcase):
                if j_vec(m) != ye:
                    st.disagree('parallel matvec', pcase, [str(v) for v in ye[:8]], [str(v) for v in j_vec(m)[:8]])
            B.ask({'op': 'c06.parallel_matvec', 'a': jop, 'k': procs, 'x': vec_j(x), 'perm': list(perm)}, cbp)

            def cbq(s, ye=ye, pcase=pcase):
                st.count('oracle:spec-matvec')
                if j_vec(s) != ye:
                    st.violate('ParallelLinearQubitOperator * x != (matrix of the operator) x', pcase,
                               {'got': [str(v) for v in ye[:8]], 'want': [str(v) for v in j_vec(s)[:8]]})
            B.ask({'op': 'c06.spec_matvec', 'alg': 'qubit', 'n': n, 'a': jop, 'x': vec_j(x)}, cbq)
    # too few qubits
    kind, r = safe(of.LinearQubitOperator, of.QubitOperator('Z3'), 2)
    if not (kind == 'err' and r.startswith('ValueError')):
        st.violate('LinearQubitOperator with too few qubits did not raise ValueError', {}, str(r)[:100])
    kind, r = safe(lq.LinearQubitOperatorOptions, 0)
    if not (kind == 'err' and r.startswith('ValueError')):
        st.violate('LinearQubitOperatorOptions(0) did not raise ValueError', {}, str(r)[:100])
    # real worker pools (thorough only)
    if ctx.tier == 'thorough':
        for procs in (1, 2, 3, 4):
            op = rand_qubit_op(rng, of, 3, 6, complex_typed=None)
            jop = enc_op('qubit', op.terms)
            n = of.count_qubits(op)
            x = rvec(2 ** n)
            pcase = {'fn': 'ParallelLinearQubitOperator(real pool)', 'a': jop, 'processes': procs}
            st.case(pcase)
            st.count('parallel:real-pool')
            kind, y = safe(lambda: of.ParallelLinearQubitOperator(
                op, n, lq.LinearQubitOperatorOptions(processes=procs)) * numpy.array(x))
            if kind == 'err':
                st.violate('ParallelLinearQubitOperator (real pool) raised', pcase, y)
                continue
            s = ctx.driver.one({'op': 'c06.spec_matvec', 'alg': 'qubit', 'n': n, 'a': jop, 'x': vec_j(x)})
            if j_vec(s) != [fr(v) for v in y]:
                st.violate('ParallelLinearQubitOperator (real pool) * x != M x', pcase, None)
    B.flush()
    return st


# ---------------------------------------------------------------- bosons

def stream_boson(ctx):
    of = ctx.of
    import numpy
    st = Stream('boson-matrices', 'get_sparse_operator / boson_operator_sparse on random Boson- and QuadOperators '
                '(<= 2 modes, terms of length <= 4, truncations 1..4, hbar in {1/2, 2, 8}); compared (tolerance 1e-9) '
                'with the Model (amplitudes sqrt(R)) and with dense matrices built by the checker from the truncated '
                'single-mode ladder matrices; distinct = distinct (operator, trunc, hbar)')
    rng = rng_for(ctx.seed, 'c06-boson')
    reqs = []
    for k in range(budget(ctx.tier, 150, 1200)):
        quad = k % 3 == 2
        n_modes = rng.randint(1, 2)
        trunc = rng.randint(1, 4)
        if k % 10 == 9:
            n_modes, trunc = rng.choice([(3, 3), (2, 5), (3, 2)])     # dimensions 27, 25, 8
        hbar = rng.choice([0.5, 2.0, 8.0])
        C = of.QuadOperator if quad else of.BosonOperator
        op = C()
        for _ in range(rng.randint(0, 4)):
            ln = rng.randint(0, 4)
            t = tuple((rng.randrange(n_modes), rng.choice('qp') if quad else rng.randint(0, 1)) for _ in range(ln))
            op += C(t, dyadic(rng, max_num=4, max_pow=2))
        case = {'fn': 'get_sparse_operator', 'cls': 'quad' if quad else 'boson', 'trunc': trunc,
                'hbar': hbar if quad else None, 'a': enc_op('quad' if quad else 'boson', op.terms)}
        st.case(case)
        st.count('%s:trunc=%d' % (case['cls'], trunc))
        kind, M = safe(of.get_sparse_operator, op, trunc=trunc, hbar=hbar)
        if kind == 'err':
            st.violate('get_sparse_operator(boson) raised', case, M)
            continue
        # dense reference from scratch
        modes = max([i + 1 for t in op.terms for i, _ in t] + [0])
        dim = trunc ** modes
        if M.shape != (dim, dim):
            st.violate('shape %s is not trunc^modes = %d' % (M.shape, dim), case, None)
            continue
        b = numpy.zeros((trunc, trunc), dtype=complex)
        for j in range(1, trunc):
            b[j - 1, j] = numpy.sqrt(j)
        bd = b.conj().T

        def embed(m, mode):
            out = numpy.eye(1, dtype=complex)
            for j in range(modes):
                out = numpy.kron(out, m if j == mode else numpy.eye(trunc))
            return out
        ref = numpy.zeros((dim, dim), dtype=complex)
        for t, c in op.terms.items():
            T = numpy.eye(dim, dtype=complex) * c
            for i, a in t:
                if quad:
                    s = numpy.sqrt(hbar / 2)
                    m = s * (b + bd) if a == 'q' else -1j * s * (b - bd)
                else:
                    m = bd if a == 1 else b
                T = T @ embed(m, i)
            ref += T
        st.float_comparisons += dim * dim
        err = float(numpy.max(numpy.abs(M.toarray() - ref))) if dim else 0.0
        if not err <= 1e-9:
            st.violate('boson matrix != product of truncated ladder matrices (max error %g)' % err, case, None)
        if not quad:
            reqs.append((case, op, M, {'op': 'c06.boson_entries', 'a': case['a'], 'trunc': trunc}))
    if reqs:
        ans = ctx.driver.run([r for _, _, _, r in reqs])
        for (case, op, M, _), a in zip(reqs, ans):
            coeffs = [complex(c) for c in op.terms.values()]
            dim = a['dim']
            if M.shape != (dim, dim):
                st.disagree('boson dimension', case, M.shape, dim)
                continue
            mod = numpy.zeros((dim, dim), dtype=complex)
            for r, c, ti, R in a['entries']:
                mod[r, c] += coeffs[ti] * numpy.sqrt(R)
            st.float_comparisons += dim * dim
            if dim and float(numpy.max(numpy.abs(M.toarray() - mod))) > 1e-9:
                st.disagree('boson matrix', case, 'implementation', 'model')
    for bad in (0, -1, 2.0):
        kind, r = safe(of.get_sparse_operator, of.BosonOperator('0^'), trunc=bad)
        st.count('bad-trunc')
        if not (kind == 'err' and r.startswith('ValueError')):
            st.violate('truncation %r did not raise ValueError' % (bad,), {'trunc': bad}, str(r)[:100])
    return st


def model_is_hermitian(ctx, st, M, case):
    """exact correspondence of is_hermitian(sparse matrix) with Model.C06.isHermitianMat on the matrix's own
    (dyadic) entries and the live EQ_TOLERANCE"""
    import openfermion.config as cfg
    Mc = M.tocoo()
    ents = [[int(r_), int(c_), to_gq(complex(v_))] for r_, c_, v_ in zip(Mc.row, Mc.col, Mc.data)]
    tol = Fraction(cfg.EQ_TOLERANCE).limit_denominator(10 ** 12)
    ans = ctx.driver.one({'op': 'c06.is_hermitian', 'dim': int(M.shape[0]), 'entries': ents,
                          'tol': [tol.numerator, tol.denominator]})
    kind, got = safe(ctx.of.is_hermitian, M)
    st.count('model-is_hermitian:%s' % bool(ans))
    if kind == 'err':
        st.violate('is_hermitian(sparse matrix) raised', case, got)
    elif bool(got) != bool(ans):
        st.disagree('is_hermitian(sparse matrix)', case, bool(got), bool(ans))


# ---------------------------------------------------------------- expectation / variance / eigenspectrum

def stream_numeric(ctx):
    of = ctx.of
    import numpy
    import scipy.sparse
    st = Stream('expectation-variance-eigenspectrum', 'expectation / variance with state vectors (1-d, column) and density '
                'matrices, through sparse matrices and LinearQubitOperators, for Hermitian AND non-Hermitian operators (complex Pauli '
                'strings, single hopping terms via jordan_wigner_sparse, truncated boson ladders: <O^2> - <O>^2); eigenspectrum of Hermitian Qubit / Fermion '
                'operators; eigenspectrum / sparse_eigenspectrum / is_hermitian (sparse and dense matrix branches) on non-Hermitian '
                'operators (complex diagonal, anti-Hermitian, hopping + imaginary diagonal, imaginary number operators) against '
                'numpy.linalg.eigvals of the Spec matrix; compared (1e-9 / 1e-8) with direct linear algebra on the Spec matrix; '
                'distinct = distinct (operator, state)')
    rng = rng_for(ctx.seed, 'c06-numeric')
    for k in range(budget(ctx.tier, 80, 600)):
        cls = 'qubit' if k % 2 == 0 else 'fermion'
        n = rng.randint(1, 3)
        if cls == 'qubit':
            op = rand_qubit_op(rng, of, n, rng.randint(1, 4))
        else:
            op = rand_fermion_op(rng, of, n, rng.randint(1, 3))
        op = op + of.hermitian_conjugated(op)
        jop = enc_op(cls, op.terms)
        nq = of.count_qubits(op)
        dim = 2 ** nq
        S = j_entries(ctx.driver.one({'op': 'c06.spec_matrix', 'alg': cls, 'n': nq, 'a': jop}))
        D = numpy.zeros((dim, dim), dtype=complex)
        for (r, c), v in S.items():
            D[r, c] = complex(float(v[0]), float(v[1]))
        psi = numpy.array([complex(rng.randint(-3, 3), rng.randint(-3, 3)) / 2 for _ in range(dim)])
        case = {'fn': 'expectation/variance/eigenspectrum', 'cls': cls, 'a': jop,
                'state': [[v.real, v.imag] for v in psi]}
        st.case(case)
        st.count(cls)
        want_e = numpy.vdot(psi, D @ psi)
        want_v = numpy.vdot(psi, D @ (D @ psi)) - want_e ** 2
        kind, r = safe(lambda: (of.get_sparse_operator(op),))
        if kind == 'err':
            st.violate('get_sparse_operator raised', case, r)
            continue
        M = r[0]
        tests = [('expectation(sparse, vector)', lambda: of.expectation(M, psi), want_e),
                 ('expectation(sparse, column vector)', lambda: of.expectation(M, psi.reshape(-1, 1)), want_e),
                 ('variance(sparse, vector)', lambda: of.variance(M, psi), want_v),
                 ('expectation(sparse, density matrix)',
                  lambda: of.expectation(M, scipy.sparse.csc_matrix(numpy.outer(psi, psi.conj()))), want_e)]
        if cls == 'qubit':
            L = of.LinearQubitOperator(op)
            tests += [('expectation(LinearQubitOperator, vector)', lambda: of.expectation(L, psi), want_e),
                      ('variance(LinearQubitOperator, vector)', lambda: of.variance(L, psi), want_v)]
        for name, f, want in tests:
            kind, got = safe(f)
            st.float_comparisons += 1
            if kind == 'err':
                st.violate(name + ' raised', case, got)
            elif not abs(complex(got) - complex(want)) <= 1e-9:
                st.violate(name + ' != direct linear algebra', case, {'got': str(got), 'want': str(want)})
        kind, spec = safe(of.eigenspectrum, op)
        want_s = numpy.linalg.eigvalsh(D)
        st.float_comparisons += dim
        if kind == 'err':
            st.violate('eigenspectrum raised', case, spec)
        elif len(spec) != dim or not float(numpy.max(numpy.abs(numpy.sort(numpy.real(spec)) - want_s))) <= 1e-9:
            st.violate('eigenspectrum != eigenvalues of the matrix of the operator', case,
                       {'got': [float(numpy.real(x)) for x in spec], 'want': want_s.tolist()})
    from openfermion.linalg import sparse_tools as stl
    # expectation / variance of NON-Hermitian operators: <O^2> - <O>^2 (not <O^dagger O> - <O>^2), for every admissible
    # state format: 1-D ndarray, column ndarray, density matrix (pure and mixed)
    def nh_cases():
        Qo, Fo, Bo = of.QubitOperator, of.FermionOperator, of.BosonOperator
        out = [('qubit', Qo('Z0', 1j), None), ('qubit', Qo('X0 Y1', 0.5 - 1j) + Qo('Z1', 2j), None),
               ('fermion', Fo('0^ 2'), None), ('fermion', Fo('1^ 0', 1j), None),
               ('boson', Bo('0'), 3), ('boson', Bo('0^'), 3)]
        for _ in range(budget(ctx.tier, 14, 150)):
            r = rng.random()
            if r < 0.4:
                out.append(('qubit', rand_qubit_op(rng, of, rng.randint(1, 3), rng.randint(1, 3), complex_typed=True), None))
            elif r < 0.6:
                p_, q_ = rng.sample(range(3), 2)
                out.append(('fermion', Fo(((p_, 1), (q_, 0)), dyadic(rng, max_num=3, max_pow=1)), None))
            elif r < 0.8:
                out.append(('fermion', rand_fermion_op(rng, of, 3, rng.randint(1, 2)), None))
            else:
                t = tuple((rng.randrange(2), rng.randint(0, 1)) for _ in range(rng.randint(1, 3)))
                out.append(('boson', Bo(t, dyadic(rng, max_num=3, max_pow=1)), rng.randint(2, 3)))
        return out

    for cls, op, trunc in nh_cases():
        jop = enc_op(cls, op.terms)
        case = {'fn': 'expectation/variance (non-Hermitian)', 'cls': cls, 'a': jop, 'trunc': trunc}
        if cls == 'boson':
            modes = max([i + 1 for t in op.terms for i, _ in t] + [0])
            dim = trunc ** modes
            b = numpy.zeros((trunc, trunc), dtype=complex)
            for j in range(1, trunc):
                b[j - 1, j] = numpy.sqrt(j)

            def embed(m, mode, modes=modes, trunc=trunc):
                o = numpy.eye(1, dtype=complex)
                for j in range(modes):
                    o = numpy.kron(o, m if j == mode else numpy.eye(trunc))
                return o
            D = numpy.zeros((dim, dim), dtype=complex)
            for t, c in op.terms.items():
                T = numpy.eye(dim, dtype=complex) * c
                for i, a in t:
                    T = T @ embed(b.conj().T if a == 1 else b, i)
                D += T
            kind, M = safe(of.get_sparse_operator, op, trunc=trunc)
        else:
            nq = max(of.count_qubits(op), 1)
            dim = 2 ** nq
            S = j_entries(ctx.driver.one({'op': 'c06.spec_matrix', 'alg': cls, 'n': nq, 'a': jop}))
            D = numpy.zeros((dim, dim), dtype=complex)
            for (r, c), v in S.items():
                D[r, c] = complex(float(v[0]), float(v[1]))
            if cls == 'fermion' and rng.random() < 0.5:
                kind, M = safe(stl.jordan_wigner_sparse, op, nq)
            else:
                kind, M = safe(of.get_sparse_operator, op, nq)
        if kind == 'err':
            st.violate('sparse operator construction raised', case, M)
            continue
        if M.shape != (dim, dim):
            st.violate('shape', case, M.shape)
            continue
        if cls != 'boson':
            model_is_hermitian(ctx, st, M, case)
        states = []
        e0 = numpy.zeros(dim, dtype=complex)
        e0[rng.randrange(dim)] = 1
        states.append(e0)
        for _ in range(2):
            states.append(numpy.array([complex(rng.randint(-3, 3), rng.randint(-3, 3)) / 2 for _ in range(dim)]))
        for psi in states:
            scase = dict(case, state=[[v.real, v.imag] for v in psi])
            st.case(scase)
            st.count('non-hermitian-variance:' + cls)
            e1 = numpy.vdot(psi, D @ psi)
            e2 = numpy.vdot(psi, D @ (D @ psi))
            phi = numpy.array([complex(rng.randint(-2, 2), rng.randint(-2, 2)) / 2 for _ in range(dim)])
            rho_pure = numpy.outer(psi, psi.conj())
            rho_mixed = 0.5 * rho_pure + 0.25 * numpy.outer(phi, phi.conj())
            tests = [('expectation(sparse, 1-D vector)', lambda: of.expectation(M, psi), e1),
                     ('expectation(sparse, column vector)', lambda: of.expectation(M, psi.reshape(-1, 1)), e1),
                     ('variance(sparse, 1-D vector)', lambda: of.variance(M, psi), e2 - e1 ** 2),
                     ('variance(sparse, column vector)', lambda: of.variance(M, psi.reshape(-1, 1)), e2 - e1 ** 2)]
            for nm, rho in (('pure density matrix', rho_pure), ('mixed density matrix', rho_mixed)):
                t1 = numpy.trace(rho @ D)
                t2 = numpy.trace(rho @ D @ D)
                sp = scipy.sparse.csc_matrix(rho)
                tests += [('expectation(sparse, %s)' % nm, lambda sp=sp: of.expectation(M, sp), t1),
                          ('variance(sparse, %s)' % nm, lambda sp=sp: of.variance(M, sp), t2 - t1 ** 2)]
            if cls == 'qubit':
                L = of.LinearQubitOperator(op, nq)
                tests += [('expectation(LinearQubitOperator, 1-D vector)', lambda: of.expectation(L, psi), e1),
                          ('variance(LinearQubitOperator, 1-D vector)', lambda: of.variance(L, psi), e2 - e1 ** 2),
                          ('variance(LinearQubitOperator, column vector)',
                           lambda: of.variance(L, psi.reshape(-1, 1)), e2 - e1 ** 2)]
            for name, f, want in tests:
                kind, got = safe(f)
                st.float_comparisons += 1
                if kind == 'err':
                    st.violate(name + ' raised', scase, got)
                elif not abs(complex(got) - complex(want)) <= 1e-9 * max(1.0, abs(complex(want))):
                    st.violate(name + ' != psi^dagger M^k psi / Tr(rho M^k) of the matrix of the (non-Hermitian) operator',
                               scase, {'got': str(complex(got)), 'want': str(complex(want))})
            if cls != 'boson':
                # exact correspondence with the Model of expectation / variance (Model.C06Expect) on the
                # implementation's own matrix: dyadic entries and states, every float operation is exact
                Mc = M.tocoo()
                ents = [[int(r_), int(c_), to_gq(complex(v_))] for r_, c_, v_ in zip(Mc.row, Mc.col, Mc.data)]
                rr, cc = numpy.nonzero(rho_mixed)
                rents = [[int(r_), int(c_), to_gq(complex(rho_mixed[r_, c_]))] for r_, c_ in zip(rr, cc)]
                spm = scipy.sparse.csc_matrix(rho_mixed)
                for label, req, fe, fv in (
                        ('vector', {'state': [to_gq(complex(v)) for v in psi]},
                         lambda: of.expectation(M, psi), lambda: of.variance(M, psi)),
                        ('density matrix', {'rho': rents},
                         lambda: of.expectation(M, spm), lambda: of.variance(M, spm))):
                    ans = ctx.driver.one(dict(req, op='c06.expectation', dim=dim, entries=ents))
                    for what, f in (('expectation', fe), ('variance', fv)):
                        kind, got = safe(f)
                        st.count('model-%s:%s' % (what, label))
                        if kind == 'err':
                            st.violate('%s(sparse, %s) raised' % (what, label), scase, got)
                        elif gq_key(complex(got)) != from_gq(ans[what]):
                            st.disagree('%s(sparse, %s)' % (what, label), scase, str(complex(got)), ans[what])

    # non-Hermitian operators: eigenspectrum must use the general eigenvalue routine, is_hermitian must say False.
    # Families with well-conditioned (distinct or exactly diagonal) spectra so that 1e-8 is decided with margin.
    Q, F = of.QubitOperator, of.FermionOperator

    def spec_dense(cls, op):
        jop = enc_op(cls, op.terms)
        nq = of.count_qubits(op)
        S = j_entries(ctx.driver.one({'op': 'c06.spec_matrix', 'alg': cls, 'n': nq, 'a': jop}))
        D = numpy.zeros((2 ** nq, 2 ** nq), dtype=complex)
        for (r, c), v in S.items():
            D[r, c] = complex(float(v[0]), float(v[1]))
        return jop, D

    def match_spectra(got, want, tol):
        got = [complex(x) for x in got]
        used = [False] * len(got)
        for w in want:
            best, bi = None, -1
            for i, g in enumerate(got):
                if not used[i] and (best is None or abs(g - w) < best):
                    best, bi = abs(g - w), i
            if bi < 0 or best > tol:
                return False
            used[bi] = True
        return len(got) == len(want)

    nonherm = []
    for _ in range(budget(ctx.tier, 12, 120)):
        kindn = rng.choice(['diag-complex', 'anti-hermitian', 'hopping+imag-diagonal', 'imag-identity-shift',
                            'fermion-imag-number'])
        if kindn == 'diag-complex':
            # complex coefficients on Z strings: a diagonal (normal) matrix
            op = Q()
            for _ in range(rng.randint(1, 3)):
                qs = sorted(rng.sample(range(3), rng.randint(1, 2)))
                op += Q(tuple((q, 'Z') for q in qs), complex(rng.randint(-3, 3) / 2, rng.choice([-2, -1, 1, 2]) / 2))
            cls = 'qubit'
        elif kindn == 'anti-hermitian':
            h = rand_qubit_op(rng, of, 2, 3, complex_typed=False)
            op = 1j * (h + of.hermitian_conjugated(h)) + Q('Z0', 0.5j)
            cls = 'qubit'
        elif kindn == 'imag-identity-shift':
            h = rand_qubit_op(rng, of, 2, 3, complex_typed=False)
            op = (h + of.hermitian_conjugated(h)) + Q((), rng.choice([0.5j, -1j, 2j]))
            cls = 'qubit'
        elif kindn == 'hopping+imag-diagonal':
            t, g = rng.choice([(1.0, 0.5), (0.5, 0.25), (1.0, 0.25), (2.0, 0.5), (0.5, 1.0), (0.25, 1.0)])
            op = Q('X0 X1', t / 2) + Q('Y0 Y1', t / 2) + Q('Z0', 0.5j * g) + Q('Z1', -0.5j * g)
            cls = 'qubit'
        else:
            t, g = rng.choice([(1.0, 0.5), (0.5, 0.25), (1.0, 0.25), (2.0, 0.5), (0.5, 1.0)])
            op = F('0^ 1', t) + F('1^ 0', t) + F('0^ 0', 1j * g) + F('1^ 1', -1j * g)
            cls = 'fermion'
        nonherm.append((kindn, cls, op))
    nonherm.append(('imag-Z', 'qubit', Q('Z0', 1j)))
    nonherm.append(('imag-number', 'fermion', F('0^ 0', 1j)))
    for kindn, cls, op in nonherm:
        jop, D = spec_dense(cls, op)
        case = {'fn': 'eigenspectrum/is_hermitian (non-Hermitian)', 'family': kindn, 'cls': cls, 'a': jop}
        st.case(case)
        st.count('non-hermitian:' + kindn)
        exact_herm = bool(numpy.array_equal(D, D.conj().T))
        want = numpy.linalg.eigvals(D)
        kind, M = safe(of.get_sparse_operator, op)
        if kind == 'err':
            st.violate('get_sparse_operator raised', case, M)
            continue
        model_is_hermitian(ctx, st, M, case)
        for name, f in (('is_hermitian(sparse matrix)', lambda: of.is_hermitian(M)),
                        ('is_hermitian(dense matrix)', lambda: of.is_hermitian(M.toarray()))):
            kind, got = safe(f)
            if kind == 'err':
                st.violate(name + ' raised', case, got)
            elif bool(got) != exact_herm:
                st.violate('%s = %s but the matrix %s Hermitian' % (name, got, 'is' if exact_herm else 'is not'),
                           case, None)
        for name, f in (('eigenspectrum(operator)', lambda: of.eigenspectrum(op)),
                        ('sparse_eigenspectrum(matrix)', lambda: stl.sparse_eigenspectrum(M))):
            kind, got = safe(f)
            st.float_comparisons += len(want)
            if kind == 'err':
                st.violate(name + ' raised', case, got)
            elif not match_spectra(list(numpy.asarray(got).ravel()), list(want), 1e-8):
                st.violate(name + ' != eigenvalues of the (non-Hermitian) matrix of the operator', case,
                           {'got': [str(complex(x)) for x in numpy.asarray(got).ravel()],
                            'want': [str(complex(x)) for x in want]})
    # is_hermitian on Hermitian matrices (must say True), sparse and dense
    for _ in range(budget(ctx.tier, 8, 60)):
        h = rand_qubit_op(rng, of, 3, 3)
        op = h + of.hermitian_conjugated(h)
        kind, M = safe(of.get_sparse_operator, op)
        st.count('is_hermitian:hermitian')
        if kind == 'ok':
            model_is_hermitian(ctx, st, M, {'a': enc_op('qubit', op.terms)})
            for name, f in (('is_hermitian(sparse matrix)', lambda: of.is_hermitian(M)),
                            ('is_hermitian(dense matrix)', lambda: of.is_hermitian(M.toarray()))):
                kind2, got = safe(f)
                if kind2 == 'err' or not got:
                    st.violate(name + ' is not True on a Hermitian matrix', {'a': enc_op('qubit', op.terms)}, str(got)[:100])
    kind, r = safe(of.eigenspectrum, of.BosonOperator('0^ 0'))
    if not (kind == 'err' and r.startswith('TypeError')):
        st.violate('eigenspectrum(BosonOperator) did not raise TypeError', {}, str(r)[:100])
    kind, r = safe(of.expectation, of.LinearQubitOperator(of.QubitOperator('Z0')),
                   scipy.sparse.csc_matrix(numpy.eye(2)))
    if not (kind == 'err' and r.startswith('ValueError')):
        st.violate('expectation(LinearOperator, density matrix) did not raise ValueError', {}, str(r)[:100])
    return st


# ---------------------------------------------------------------- hardening: state, types, bands, asymmetry

def tensor_fermion_jop(constant, one, two, dch=False):
    """the fermion operator a tensor object denotes, built from scratch by the checker:
    constant + sum T[p,q] p^ q + sum V[p,q,r,s] p^ q^ r s   (DiagonalCoulombHamiltonian: V[p,q] p^ p q^ q)"""
    import numpy
    acc = {}

    def add(t, c):
        c = complex(c)
        if c != 0:
            acc[t] = acc.get(t, 0) + c
    add((), constant)
    for idx in numpy.ndindex(*one.shape):
        add(((idx[0], 1), (idx[1], 0)), one[idx])
    for idx in numpy.ndindex(*two.shape):
        if dch:
            add(((idx[0], 1), (idx[0], 0), (idx[1], 1), (idx[1], 0)), two[idx])
        else:
            add(((idx[0], 1), (idx[1], 1), (idx[2], 0), (idx[3], 0)), two[idx])
    return [[[[i, a] for i, a in t], to_gq(c)] for t, c in acc.items()]


def small_band(rng):
    return rng.choice([-3, -1, 1, 3]) * 2.0 ** (-rng.randint(13, 20))


def retype(rng, op):
    import numpy
    for t in list(op.terms):
        c = op.terms[t]
        r = rng.random()
        if isinstance(c, complex):
            op.terms[t] = numpy.complex64(c) if r < 0.5 else numpy.complex128(c)
        elif isinstance(c, float):
            op.terms[t] = numpy.float32(c) if r < 0.5 else numpy.float64(c)
        elif isinstance(c, int) and not isinstance(c, bool):
            op.terms[t] = numpy.int64(c) if r < 0.7 else numpy.int32(c)
    return op


def stream_hardening(ctx):
    import numpy
    import scipy.sparse
    of = ctx.of
    from openfermion.linalg import sparse_tools as stl
    from openfermion.linalg import linear_qubit_operator as lq
    Q, F = of.QubitOperator, of.FermionOperator
    st = Stream('state-types-bands-asymmetry', '(S) every matrix / vector producing function is called, its result edited in place, '
                'and called again: the second result must equal the first, share no memory with it, and the arguments '
                '(operator terms, tensor arrays, vectors, states) must be unchanged; (T) numpy-scalar coefficients '
                '(complex64 / float32 / int64 / int32), vectors of dtype int32 .. complex128, Fortran-ordered blocks, '
                'numpy integer n_qubits, tensor dtypes; (B) coefficients of magnitude 1e-4 .. 1e-6 next to O(1), count_qubits '
                'with indices >= 257; (A) InteractionOperator / PolynomialTensor / DiagonalCoulombHamiltonian with complex '
                'constants and complex non-Hermitian tensors against the operator built from the tensors by the checker; '
                'all compared exactly with the Model and the Spec matrix; distinct = distinct inputs')
    B = Batch(ctx)
    rng = rng_for(ctx.seed, 'c06-hardening')
    n_cases = budget(ctx.tier, 30, 400)
    if ctx.drift:
        n_cases = max(n_cases, 120)

    def terms_snap(op):
        return [(t, to_gq(c), type(c).__name__) for t, c in op.terms.items()]

    def dense(x):
        return x.toarray() if scipy.sparse.issparse(x) else numpy.array(x)

    def mem(x):
        return x.data if scipy.sparse.issparse(x) else x

    def spoil(x):
        if scipy.sparse.issparse(x):
            x.data *= 3
            x.data += 1
        else:
            x += 1.0

    def twice(name, case, f, ops=(), arrays=()):
        """(S): call, edit the result in place, call again"""
        st.case(dict(case, fn='state:' + name))
        st.count('state:' + name)
        before_t = [terms_snap(o) for o in ops]
        before_a = [numpy.array(a, copy=True) for a in arrays]
        kind, r1 = safe(f)
        if kind == 'err':
            st.violate(name + ' raised', case, r1)
            return None
        first = dense(r1).copy()
        for a in arrays:
            if isinstance(a, numpy.ndarray) and isinstance(mem(r1), numpy.ndarray) and numpy.shares_memory(mem(r1), a):
                st.violate(name + ': the result shares memory with an argument', case, None)
        try:
            spoil(r1)
        except Exception:
            r1 = None
        kind, r2 = safe(f)
        if kind == 'err':
            st.violate(name + ' raised on the second call', case, r2)
            return first
        if dense(r2).shape != first.shape or not numpy.array_equal(dense(r2), first):
            st.violate(name + ': second call after an in-place edit of the first result differs', case,
                       {'first': first.tolist()[:8] if first.ndim == 1 else None})
        if r1 is not None and isinstance(mem(r1), numpy.ndarray) and isinstance(mem(r2), numpy.ndarray) \
                and mem(r1).size and numpy.shares_memory(mem(r1), mem(r2)):
            st.violate(name + ': two results share memory', case, None)
        if [terms_snap(o) for o in ops] != before_t:
            st.violate(name + ' modified an operator argument', case, None)
        for a, b0 in zip(arrays, before_a):
            if not numpy.array_equal(numpy.asarray(a), b0):
                st.violate(name + ' modified an array argument', case, None)
        return first

    # ---- (S) on the qubit functions; X/Y-only and zero operators included (shared scratch vectors)
    for k in range(n_cases):
        nq = rng.randint(1, 3)
        r = rng.random()
        if r < 0.2:
            op = Q()
        elif r < 0.5:
            op = Q()
            for _ in range(rng.randint(1, 3)):
                qs = sorted(rng.sample(range(nq), rng.randint(1, nq)))
                op += Q(tuple((q, rng.choice('XY')) for q in qs), dyadic(rng, max_num=3, max_pow=1))
        else:
            op = rand_qubit_op(rng, of, nq, rng.randint(1, 4))
        n = of.count_qubits(op) + rng.choice([0, 1])
        jop = enc_op('qubit', op.terms)
        case = {'a': jop, 'n_qubits': n}
        x = numpy.array([complex(rng.randint(-3, 3), rng.randint(-3, 3)) / 2 for _ in range(2 ** n)])
        d = twice('get_linear_qubit_operator_diagonal', case, lambda: stl.get_linear_qubit_operator_diagonal(op, n), [op])
        if d is not None:
            def cbd(s_, d=d, case=case, n=n):
                S = j_entries(s_)
                want = [S.get((i, i), (Fraction(0), Fraction(0))) for i in range(2 ** n)]
                if want != [fr(v) for v in d]:
                    st.violate('diagonal != diagonal of the matrix of the operator', case, None)
            B.ask({'op': 'c06.spec_matrix', 'alg': 'qubit', 'n': n, 'a': jop}, cbd)
        twice('get_sparse_operator(QubitOperator)', case, lambda: of.get_sparse_operator(op, n), [op])
        twice('LinearQubitOperator * x', case, lambda: of.LinearQubitOperator(op, n) * x, [op], [x])
        X2 = numpy.asfortranarray(numpy.eye(2 ** n)[:, :2] * (1 + 0.5j))
        twice('LinearQubitOperator * block', case, lambda: of.LinearQubitOperator(op, n) * X2, [op], [X2])

        class Opt(lq.LinearQubitOperatorOptions):
            def get_pool(self, num=None):
                return FakePool(list(range(num or 0))[::-1])
        twice('ParallelLinearQubitOperator * x', case,
              lambda: of.ParallelLinearQubitOperator(op, n, Opt(processes=2)) * x, [op], [x])
        # operator groups are fresh objects
        before = terms_snap(op)
        kind, gs = safe(lambda: list(op.get_operator_groups(2)))
        if kind == 'ok':
            for g in gs:
                g *= 5
                g.terms[((0, 'X'),)] = 9
            if terms_snap(op) != before:
                st.violate('editing an operator group changed the operator', case, None)
    # ---- (S) fermionic and bosonic constructions
    for k in range(n_cases):
        n = rng.randint(1, 3)
        fop = rand_fermion_op(rng, of, n, rng.randint(1, 3))
        nq = max(of.count_qubits(fop), 1)
        case = {'a': enc_op('fermion', fop.terms), 'n_qubits': nq}
        twice('jordan_wigner_sparse', case, lambda: stl.jordan_wigner_sparse(fop, nq), [fop])
        j = rng.randrange(nq)
        ty = rng.randint(0, 1)
        twice('jordan_wigner_ladder_sparse', {'n': nq, 'j': j, 'type': ty}, lambda: stl.jordan_wigner_ladder_sparse(nq, j, ty))
        tr = rng.randint(2, 3)
        twice('boson_ladder_sparse', {'trunc': tr, 'type': ty}, lambda: stl.boson_ladder_sparse(1, 0, ty, tr))
        twice('single_quad_op_sparse', {'trunc': tr}, lambda: stl.single_quad_op_sparse(1, 0, rng.choice('qp') if False else 'q', 2.0, tr))
        bop = of.BosonOperator(((0, ty),), 0.5) + of.BosonOperator(((0, 1), (0, 0)), 1.0)
        twice('boson_operator_sparse', {'trunc': tr}, lambda: of.get_sparse_operator(bop, trunc=tr), [bop])
        # expectation / variance leave operator and state alone
        M = stl.jordan_wigner_sparse(fop, nq)
        Md = M.toarray().copy()
        psi = numpy.array([complex(rng.randint(-2, 2), rng.randint(-2, 2)) / 2 for _ in range(2 ** nq)])
        psi0 = psi.copy()
        rho = scipy.sparse.csc_matrix(numpy.outer(psi, psi.conj()))
        rho0 = rho.toarray().copy()
        kind, _ = safe(lambda: (of.expectation(M, psi), of.variance(M, psi), of.expectation(M, rho), of.variance(M, rho),
                                of.expectation(M, psi.reshape(-1, 1))))
        st.count('state:expectation-arguments')
        if kind == 'err' or not (numpy.array_equal(M.toarray(), Md) and numpy.array_equal(psi, psi0)
                                 and numpy.array_equal(rho.toarray(), rho0)):
            st.violate('expectation / variance modified the operator or the state', case, None)
        h = fop + of.hermitian_conjugated(fop)
        twice('eigenspectrum', case, lambda: numpy.asarray(of.eigenspectrum(h, nq)), [h])

    # ---- (A) tensors with complex constants and complex non-Hermitian entries, (T) tensor dtypes / memory order
    def cval(kind):
        if kind == 'imag':
            return complex(0, rng.choice([-3, -1, 1, 2]) / 2 ** rng.randint(0, 2))
        if kind == 'real':
            return float(rng.choice([-3, -1, 1, 2, 4]) / 2 ** rng.randint(0, 2))
        return complex(rng.randint(-4, 4) / 2 ** rng.randint(0, 2), rng.choice([-3, -1, 1, 2]) / 2 ** rng.randint(0, 2))
    # probe once per run which tensor dtypes the tree accepts at all (a rejected dtype is excluded, never an alarm)
    accepted = {}
    for kt in ('interaction', 'poly', 'dch'):
        for dtp in ('float64', 'float32', 'int64', 'complex128', 'complex64'):
            o1 = numpy.array([[1, 2], [0, 1]]).astype(dtp)
            try:
                if kt == 'interaction':
                    obj = of.InteractionOperator(1.0, o1, numpy.zeros((2, 2, 2, 2), dtype=dtp))
                elif kt == 'poly':
                    obj = of.PolynomialTensor({(): 1.0, (1, 0): o1})
                else:
                    obj = of.DiagonalCoulombHamiltonian(o1 + o1.T, numpy.eye(2), 1.0)
                of.get_sparse_operator(obj)
                accepted[(kt, dtp)] = True
            except Exception:
                accepted[(kt, dtp)] = False
                st.count('tensor:dtype-rejected-by-the-tree:%s:%s' % (kt, dtp))
    for k in range(n_cases):
        size = rng.randint(1, 3)
        kindt = rng.choice(['interaction', 'poly', 'dch'])
        kind = rng.choice(['complex', 'imag', 'real'])
        dt = {'real': rng.choice(['float64', 'float32', 'int64']), 'imag': rng.choice(['complex128', 'complex64']),
              'complex': rng.choice(['complex128', 'complex64'])}[kind]
        if not accepted.get((kindt, dt), False):
            dt = 'complex128' if dt.startswith('complex') else 'float64'
        one = numpy.zeros((size, size), dtype=complex)
        for i in range(size):
            for j in range(size):
                if rng.random() < 0.6:
                    one[i, j] = cval(kind)
        if kindt == 'dch':
            two = numpy.zeros((size, size), dtype=complex)
            for i in range(size):
                for j in range(size):
                    if rng.random() < 0.5:
                        two[i, j] = cval(kind)
        else:
            two = numpy.zeros((size,) * 4, dtype=complex)
            for _ in range(rng.randint(0, 4)):
                two[tuple(rng.randrange(size) for _ in range(4))] = cval(kind)
        if dt == 'int64':
            one, two = numpy.round(one.real * 4), numpy.round(two.real * 4)
        if kind == 'real':
            one, two = one.real, two.real
        one, two = one.astype(dt), two.astype(dt)
        if kindt == 'dch':
            # the class insists on a real symmetric float64 two-body matrix and a Hermitian one-body matrix;
            # the constant may be complex.  The constructor edits its arguments, so it gets copies.
            two = numpy.real(two).astype('float64')
            two = two + two.T
            one = one + one.conj().T
        orig_one, orig_two = one.copy(), two.copy()
        if rng.random() < 0.3:
            one, two = numpy.asfortranarray(one), numpy.asfortranarray(two)
        const = rng.choice([cval('complex'), cval('imag'), 0.5, 2])
        if kindt == 'interaction':
            mk = lambda: of.InteractionOperator(const, one, two)
        elif kindt == 'poly':
            mk = lambda: of.PolynomialTensor({(): const, (1, 0): one, (1, 1, 0, 0): two})
        else:
            mk = lambda: of.DiagonalCoulombHamiltonian(one.copy(), two.copy(), const)
        kindc, op = safe(mk)
        if kindc == 'err':
            st.count('tensor:constructor-rejected:' + kindt)
            continue
        # the object may normalise its tensors (DiagonalCoulombHamiltonian): read them back
        if kindt == 'dch':
            # semantics of the ORIGINAL arguments: sum T[p,q] p^ q + sum V[p,q] n_p n_q + constant
            c_, o_, t_ = const, orig_one, orig_two
        elif kindt == 'interaction':
            c_, o_, t_ = op.constant, numpy.array(op.one_body_tensor), numpy.array(op.two_body_tensor)
        else:
            c_, o_, t_ = op.n_body_tensors[()], numpy.array(op.n_body_tensors[(1, 0)]), numpy.array(op.n_body_tensors[(1, 1, 0, 0)])
        jop = tensor_fermion_jop(c_, o_, t_, dch=(kindt == 'dch'))
        extra = rng.choice([None, 0, 1])
        n_arg = None if extra is None else size + extra
        if n_arg is not None and rng.random() < 0.5:
            n_arg = numpy.int64(n_arg)
        n = size if n_arg is None else int(n_arg)
        case = {'fn': 'get_sparse_operator', 'cls': kindt, 'kind': kind, 'dtype': dt, 'size': size, 'a': jop,
                'n_qubits': None if n_arg is None else int(n_arg), 'constant': [complex(const).real, complex(const).imag]}
        if kindt == 'dch':
            live = [op.one_body, op.two_body]
        elif kindt == 'interaction':
            live = [op.one_body_tensor, op.two_body_tensor]
        else:
            live = [op.n_body_tensors[(1, 0)], op.n_body_tensors[(1, 1, 0, 0)]]
        first = twice('get_sparse_operator(%s)' % kindt, case, lambda: of.get_sparse_operator(op, n_arg), [], live)
        st.count('tensor:%s:%s:%s' % (kindt, kind, dt))
        kindc, M = safe(of.get_sparse_operator, op, n_arg)
        if kindc == 'err':
            continue
        if M.shape != (2 ** n, 2 ** n):
            st.violate('shape %s is not 2^n_qubits = %d' % (M.shape, 2 ** n), case, None)
            continue
        E = mat_entries(M)

        def cbt(s_, E=E, case=case):
            st.count('oracle:spec-matrix')
            if j_entries(s_) != E:
                bad = sorted(set(j_entries(s_).items()) ^ set(E.items()))[:6]
                st.violate('matrix != matrix of the operator the tensors denote (big-endian basis)', case,
                           {'differing_entries': [[k_[0], k_[1], str(v[0]), str(v[1])] for k_, v in bad]})
        B.ask({'op': 'c06.spec_matrix', 'alg': 'fermion', 'n': n, 'a': jop}, cbt)

    # ---- (T) numpy-scalar coefficients / vector dtypes / numpy n_qubits, (B) small bands
    for k in range(n_cases * 3):
        cls = 'qubit' if k % 3 else 'fermion'
        variant = rng.choice(['numpy-scalars', 'small-band', 'imaginary'])
        nq = rng.randint(1, 4) if cls == 'qubit' else rng.randint(1, 3)
        op = rand_qubit_op(rng, of, nq, rng.randint(1, 4)) if cls == 'qubit' else rand_fermion_op(rng, of, nq, rng.randint(1, 3))
        if variant == 'small-band':
            for t in list(op.terms):
                if rng.random() < 0.5:
                    op.terms[t] = small_band(rng) * (1j if rng.random() < 0.3 else 1)
        elif variant == 'imaginary':
            for t in list(op.terms):
                op.terms[t] = complex(0, rng.choice([-3, -1, 1, 2]) / 2 ** rng.randint(0, 2))
        else:
            retype(rng, op)
        jop = enc_op(cls, op.terms)
        cnt = of.count_qubits(op)
        n = cnt + rng.choice([0, 1])
        n_arg = numpy.int64(n) if rng.random() < 0.4 else n
        case = {'fn': 'get_sparse_operator', 'cls': cls, 'variant': variant, 'a': jop, 'n_qubits': n,
                'coefficient_types': sorted({type(c).__name__ for c in op.terms.values()}),
                'n_type': type(n_arg).__name__}
        st.case(case)
        st.count('types:%s:%s' % (cls, variant))
        kind, M = safe(of.get_sparse_operator, op, n_arg)
        if kind == 'err':
            st.violate('get_sparse_operator raised', case, M)
            continue
        if M.shape != (2 ** n, 2 ** n):
            st.violate('shape', case, M.shape)
            continue
        E = mat_entries(M)

        def cbm(m, E=E, case=case):
            if isinstance(m, dict) and 'error' in m or j_entries(m['entries']) != E:
                st.disagree('matrix entries', case, show_entries(E), m if 'error' in m else show_entries(j_entries(m['entries'])))
        B.ask({'op': 'c06.qubit_sparse' if cls == 'qubit' else 'c06.jw_sparse', 'a': jop, 'n': n}, cbm)

        def cbs(s_, E=E, case=case):
            st.count('oracle:spec-matrix')
            if j_entries(s_) != E:
                st.violate('matrix != matrix of the operator in the big-endian basis', case, None)
        B.ask({'op': 'c06.spec_matrix', 'alg': cls, 'n': n, 'a': jop}, cbs)
        if cls == 'qubit':
            dt = rng.choice(['int32', 'int64', 'float32', 'float64', 'complex64', 'complex128'])
            if dt.startswith('complex'):
                x = numpy.array([complex(rng.randint(-2, 2), rng.randint(-2, 2)) / 2 for _ in range(2 ** n)]).astype(dt)
            elif dt.startswith('float'):
                x = numpy.array([rng.randint(-4, 4) / 4 for _ in range(2 ** n)]).astype(dt)
            else:
                x = numpy.array([rng.randint(-4, 4) for _ in range(2 ** n)]).astype(dt)
            vcase = dict(case, fn='LinearQubitOperator', x_dtype=dt, x=[[complex(v).real, complex(v).imag] for v in x])
            st.case(vcase)
            kind, y = safe(lambda: of.LinearQubitOperator(op, n_arg) * x)
            if kind == 'err':
                st.violate('matvec raised', vcase, y)
            else:
                ye = [fr(v) for v in y]

                def cbv(s_, ye=ye, vcase=vcase):
                    st.count('oracle:spec-matvec')
                    if j_vec(s_) != ye:
                        st.violate('LinearQubitOperator * x != (matrix of the operator) x', vcase, None)
                B.ask({'op': 'c06.spec_matvec', 'alg': 'qubit', 'n': n, 'a': jop, 'x': vec_j(x)}, cbv)

                def cbw(m, ye=ye, vcase=vcase):
                    if j_vec(m) != ye:
                        st.disagree('matvec', vcase, [str(v) for v in ye[:8]], [str(v) for v in j_vec(m)[:8]])
                B.ask({'op': 'c06.matvec', 'a': jop, 'x': vec_j(x)}, cbw)
            kind, dg = safe(stl.get_linear_qubit_operator_diagonal, op, n_arg)
            if kind == 'err':
                st.violate('get_linear_qubit_operator_diagonal raised', case, dg)
            else:
                de = [fr(v) for v in dg]

                def cbdg(s_, de=de, case=case, n=n):
                    S = j_entries(s_)
                    want = [S.get((i, i), (Fraction(0), Fraction(0))) for i in range(2 ** n)]
                    if want != de:
                        st.violate('diagonal != diagonal of the matrix of the operator', case, None)
                B.ask({'op': 'c06.spec_matrix', 'alg': 'qubit', 'n': n, 'a': jop}, cbdg)

    # ---- (B) count_qubits with large indices (fresh int objects)
    for k in range(budget(ctx.tier, 40, 400)):
        cls = rng.choice(['qubit', 'fermion'])
        op = Q() if cls == 'qubit' else F()
        top = 0
        for _ in range(rng.randint(1, 4)):
            idx = sorted({int(str(rng.choice([3, 255, 256, 257, 258, 300, 1000, 65537]) + rng.randint(0, 2)))
                          for _ in range(rng.randint(1, 3))})
            if cls == 'qubit':
                op += Q(tuple((i, rng.choice('XYZ')) for i in idx), 1.0)
            else:
                op += F(tuple((i, rng.randint(0, 1)) for i in idx), 1.0)
        top = max([i + 1 for t in op.terms for i, _ in t] + [0])
        jop = enc_op(cls, op.terms)
        case = {'fn': 'count_qubits', 'cls': cls, 'a': jop}
        st.case(case)
        st.count('count_qubits:large-index')
        kind, cnt = safe(of.count_qubits, op)
        if kind == 'err' or cnt != top:
            st.violate('count_qubits != highest index + 1', case, {'got': str(cnt), 'want': top})

        def cbc(m, cnt=cnt, case=case):
            if m != cnt:
                st.disagree('count_qubits', case, cnt, m)
        B.ask({'op': 'c06.count_qubits', 'cls': cls, 'a': jop}, cbc)
    B.flush()
    return st


# ---------------------------------------------------------------- registers beyond 8 qubits

def be_index(n, s):
    """big-endian matrix index of the basis state with mask s (bit j = qubit j)"""
    r = 0
    for j in range(n):
        if (s >> j) & 1:
            r |= 1 << (n - 1 - j)
    return r


def transpose_jop(cls, jop):
    """the operator whose matrix is the TRANSPOSE (no conjugation): Pauli strings pick up (-1)^{#Y};
    ladder products are reversed with creation <-> annihilation (their matrices are real)"""
    out = []
    for t, c in jop:
        if cls == 'qubit':
            sign = -1 if sum(1 for _, a in t if a == 2) % 2 else 1
            out.append([t, [sign * c[0], c[1], sign * c[2], c[3]]])
        else:
            out.append([[[i, 1 - a] for i, a in reversed(t)], c])
    return out


def stream_large(ctx):
    import numpy
    import scipy.sparse
    of = ctx.of
    from openfermion.linalg import sparse_tools as stl
    from openfermion.linalg import linear_qubit_operator as lq
    Q, F = of.QubitOperator, of.FermionOperator
    st = Stream('large-registers', 'every matrix / vector producer on 9, 10 and 12 qubits (diagonal and matvec also on 17), operators '
                'acting on low, middle and high qubits and operators padded to n_qubits beyond 8: sparse matrices are compared '
                'on sampled columns and rows (non-zero pattern and values, exactly) with the Spec image of the sampled basis '
                'states; diagonals with a direct per-index parity; matvec / parallel matvec on sparse and dense vectors with '
                'the Spec images (exactly) and the Model; tensors of 9 / 10 orbitals; boson registers of dimension 25 / 27; '
                'distinct = distinct (function, operator, n)')
    rng = rng_for(ctx.seed, 'c06-large')
    reps = budget(ctx.tier, 1, 5)
    if ctx.drift:
        reps = max(reps, 2)
    spec_reqs = []     # (request, callback)

    def spec_image(cls, jop, s, cb):
        spec_reqs.append(({'op': 'spec.apply', 'alg': cls, 'expr': ['leaf', jop], 'state': [s]}, cb))

    def img_dict(n, ans):
        d = {}
        for e, c in ans:
            v = from_gq(c)
            if v != (0, 0):
                d[be_index(n, e[0] if e else 0)] = v
        return d

    def check_sparse(name, cls, jop, n, M, case):
        if M.shape != (2 ** n, 2 ** n):
            st.violate('%s: shape %s is not 2^n = %d' % (name, M.shape, 2 ** n), case, None)
            return
        Mc = M.tocsc()
        Mr = M.tocsr()
        states = {0, 2 ** n - 1, 1, 1 << (n - 1)} | {rng.randrange(2 ** n) for _ in range(10)}
        for s in sorted(states):
            col = Mc.getcol(be_index(n, s)).tocoo()
            got = {int(r): fr(v) for r, v in zip(col.row, col.data) if v != 0}

            def cb(ans, got=got, s=s):
                st.count('oracle:spec-column')
                want = img_dict(n, ans)
                if want != got:
                    st.violate('%s: column of basis state %d differs from the Spec image' % (name, s), case,
                               {'got': sorted((k, str(v)) for k, v in got.items())[:6],
                                'want': sorted((k, str(v)) for k, v in want.items())[:6]})
            spec_image(cls, jop, s, cb)
            row = Mr.getrow(be_index(n, s)).tocoo()
            gotr = {int(c): fr(v) for c, v in zip(row.col, row.data) if v != 0}

            def cbr(ans, gotr=gotr, s=s):
                st.count('oracle:spec-row')
                want = img_dict(n, ans)
                if want != gotr:
                    st.violate('%s: row of basis state %d differs from the Spec (transposed operator)' % (name, s), case,
                               {'got': sorted((k, str(v)) for k, v in gotr.items())[:6],
                                'want': sorted((k, str(v)) for k, v in want.items())[:6]})
            spec_image(cls, transpose_jop(cls, jop), s, cbr)

    def qubit_op_on(n, cnt, n_terms, z_only=False):
        """terms on qubits < cnt; always touches qubit 0, the middle and qubit cnt-1"""
        op = Q()
        forced = [[0], [cnt - 1], [0, min(2, cnt - 1)], [cnt // 2]]
        for k in range(n_terms):
            qs = sorted(set(forced[k])) if k < len(forced) else sorted(rng.sample(range(cnt), rng.randint(1, min(4, cnt))))
            t = tuple((q, 'Z' if (z_only or rng.random() < 0.5) else rng.choice('XY')) for q in qs)
            if t not in op.terms:
                op.terms[t] = dyadic(rng, max_num=4, max_pow=2)
        return op

    for rep in range(reps):
        for n in (9, 10, 12, 17):
            # ---------------- diagonal: direct per-index parity
            for cnt in sorted({n, max(3, n - 9), rng.randint(2, n)}):
                op = qubit_op_on(n, cnt, rng.randint(2, 5), z_only=(rng.random() < 0.6))
                jop = enc_op('qubit', op.terms)
                case = {'fn': 'get_linear_qubit_operator_diagonal', 'a': jop, 'n_qubits': n, 'count_qubits': cnt}
                st.case(case)
                st.count('diagonal:n=%d' % n)
                kind, dg = safe(stl.get_linear_qubit_operator_diagonal, op, n)
                if kind == 'err':
                    st.violate('get_linear_qubit_operator_diagonal raised', case, dg)
                    continue
                idx = numpy.arange(2 ** n, dtype=numpy.int64)
                want = numpy.zeros(2 ** n, dtype=complex)
                for t, c in op.terms.items():
                    if all(a == 'Z' for _, a in t):
                        sign = numpy.ones(2 ** n)
                        for q, _ in t:
                            sign = sign * (1 - 2 * ((idx >> (n - 1 - q)) & 1))
                        want = want + complex(c) * sign
                if len(dg) != 2 ** n or not numpy.array_equal(numpy.asarray(dg, dtype=complex), want):
                    bad = [int(i) for i in numpy.nonzero(numpy.asarray(dg, dtype=complex) != want)[0][:5]] if len(dg) == 2 ** n else []
                    st.violate('diagonal != (-1)^(parity of the Z qubits) summed over the Z-only terms', case,
                               {'first_bad_indices': bad})
                if n <= 10:
                    m = ctx.driver.one({'op': 'c06.diagonal', 'a': jop, 'n': n})
                    if 'error' in m or j_vec(m['diag']) != [fr(v) for v in dg]:
                        st.disagree('diagonal', case, 'implementation', 'model')
            # ---------------- matvec (sparse vector exactly vs Spec; dense vector vs the Model for n <= 10)
            op = qubit_op_on(n, rng.choice([n, n - 1, max(2, n - 8)]), rng.randint(2, 4))
            jop = enc_op('qubit', op.terms)
            case = {'fn': 'LinearQubitOperator', 'a': jop, 'n_qubits': n}
            st.case(case)
            st.count('matvec:n=%d' % n)
            x = numpy.zeros(2 ** n, dtype=complex)
            support = sorted({0, 2 ** n - 1, 1 << (n - 1)} | {rng.randrange(2 ** n) for _ in range(4)})
            for s_ in support:
                x[be_index(n, s_)] = complex(rng.randint(1, 3), rng.randint(-2, 2)) / 2
            kind, y = safe(lambda: of.LinearQubitOperator(op, n) * x)
            if kind == 'err':
                st.violate('matvec raised', case, y)
            else:
                acc = {}
                pending = {'left': len(support)}

                def cbm(ans, s_=None, acc=acc, pending=pending, y=y, case=case, n=n, x=x):
                    xs = fr(x[be_index(n, s_)])
                    for i, v in img_dict(n, ans).items():
                        a = acc.get(i, (Fraction(0), Fraction(0)))
                        acc[i] = (a[0] + xs[0] * v[0] - xs[1] * v[1], a[1] + xs[0] * v[1] + xs[1] * v[0])
                    pending['left'] -= 1
                    if pending['left'] == 0:
                        st.count('oracle:spec-matvec')
                        got = {int(i): fr(y[i]) for i in numpy.nonzero(y)[0]}
                        want = {i: v for i, v in acc.items() if v != (0, 0)}
                        if got != want:
                            st.violate('LinearQubitOperator * x != (matrix of the operator) x', case,
                                       {'got': sorted((k, str(v)) for k, v in got.items())[:6],
                                        'want': sorted((k, str(v)) for k, v in want.items())[:6]})
                for s_ in support:
                    spec_image('qubit', jop, s_, lambda ans, s_=s_, cbm=cbm: cbm(ans, s_))
                if n <= 12:
                    class Opt(lq.LinearQubitOperatorOptions):
                        def get_pool(self, num=None):
                            return FakePool(list(range(num or 0))[::-1])
                    kind, yp = safe(lambda: of.ParallelLinearQubitOperator(op, n, Opt(processes=3)) * x)
                    st.count('parallel:n=%d' % n)
                    if kind == 'err' or not numpy.array_equal(yp, y):
                        st.violate('ParallelLinearQubitOperator * x != LinearQubitOperator * x', case, str(yp)[:100])
                if n <= 10:
                    m = ctx.driver.one({'op': 'c06.matvec', 'a': jop, 'x': vec_j(x)})
                    if j_vec(m) != [fr(v) for v in y]:
                        st.disagree('matvec', case, 'implementation', 'model')
            if n > 12:
                continue
            # ---------------- sparse matrices on sampled columns and rows
            cnt = rng.choice([n, n, max(2, n - 8)])
            op = qubit_op_on(n, cnt, rng.randint(2, 4))
            jop = enc_op('qubit', op.terms)
            case = {'fn': 'get_sparse_operator', 'cls': 'qubit', 'a': jop, 'n_qubits': n, 'count_qubits': cnt}
            st.case(case)
            st.count('sparse:qubit:n=%d' % n)
            kind, M = safe(of.get_sparse_operator, op, n)
            if kind == 'err':
                st.violate('get_sparse_operator raised', case, M)
            else:
                check_sparse('get_sparse_operator(QubitOperator)', 'qubit', jop, n, M, case)
            # fermions: modes at both ends (long parity strings), padded registers
            fop = F()
            hi = rng.choice([n - 1, n - 1, max(1, n - 9)])
            for t in [((hi, 1), (0, 0)), ((0, 1), (0, 0)), ((hi, 1), (hi // 2, 1), (1 if hi > 1 else 0, 0), (0, 0))]:
                if len({i for i, _ in t}) == len(t) or len(t) == 2:
                    fop += F(t, dyadic(rng, max_num=3, max_pow=1))
            jf = enc_op('fermion', fop.terms)
            case = {'fn': 'jordan_wigner_sparse', 'cls': 'fermion', 'a': jf, 'n_qubits': n}
            st.case(case)
            st.count('sparse:fermion:n=%d' % n)
            kind, M = safe(stl.jordan_wigner_sparse, fop, n)
            if kind == 'err':
                st.violate('jordan_wigner_sparse raised', case, M)
            else:
                check_sparse('jordan_wigner_sparse', 'fermion', jf, n, M, case)
            j = rng.choice([0, n - 1, n - 9 if n > 9 else 0, rng.randrange(n)])
            ty = rng.randint(0, 1)
            case = {'fn': 'jordan_wigner_ladder_sparse', 'n': n, 'j': j, 'type': ty}
            st.case(case)
            st.count('ladder:n=%d' % n)
            kind, M = safe(stl.jordan_wigner_ladder_sparse, n, j, ty)
            if kind == 'err':
                st.violate('jordan_wigner_ladder_sparse raised', case, M)
            else:
                check_sparse('jordan_wigner_ladder_sparse', 'fermion', [[[[j, ty]], ONE]], n, M, case)
            # tensors with 9 / 10 orbitals (n_qubits None or padded)
            if n <= 10:
                size = n - rng.choice([0, 1])
                one = numpy.zeros((size, size), dtype=complex)
                two = numpy.zeros((size,) * 4, dtype=complex)
                for _ in range(4):
                    one[rng.randrange(size), rng.randrange(size)] = complex(rng.randint(-3, 3), rng.randint(-2, 2)) / 2
                one[size - 1, 0] = 0.5 - 1j
                for _ in range(3):
                    two[tuple(rng.randrange(size) for _ in range(4))] = complex(rng.randint(-3, 3), rng.randint(-2, 2)) / 2
                const = 1.5 - 0.5j
                opt = of.InteractionOperator(const, one, two) if rng.random() < 0.5 else \
                    of.PolynomialTensor({(): const, (1, 0): one, (1, 1, 0, 0): two})
                jt = tensor_fermion_jop(const, one, two)
                n_arg = None if size == n and rng.random() < 0.5 else n
                case = {'fn': 'get_sparse_operator', 'cls': type(opt).__name__, 'size': size, 'a': jt, 'n_qubits': n_arg}
                st.case(case)
                st.count('sparse:tensor:n=%d' % n)
                kind, M = safe(of.get_sparse_operator, opt, n_arg)
                if kind == 'err':
                    st.violate('get_sparse_operator(tensor) raised', case, M)
                else:
                    check_sparse('get_sparse_operator(tensor)', 'fermion', jt, n, M, case)
        # ---------------- expectation on 10 qubits (sparse state), eigenspectrum on 9 qubits
        n = 10
        op = qubit_op_on(n, n, 3)
        op = op + of.hermitian_conjugated(op)
        jop = enc_op('qubit', op.terms)
        support = sorted({0, 2 ** n - 1} | {rng.randrange(2 ** n) for _ in range(3)})
        psi = numpy.zeros(2 ** n, dtype=complex)
        for s_ in support:
            psi[be_index(n, s_)] = complex(rng.randint(1, 3), rng.randint(-2, 2)) / 2
        case = {'fn': 'expectation', 'a': jop, 'n_qubits': n, 'support': support}
        st.case(case)
        st.count('expectation:n=10')
        kind, got = safe(lambda: of.expectation(of.get_sparse_operator(op, n), psi))
        imgs = ctx.driver.run([{'op': 'spec.apply', 'alg': 'qubit', 'expr': ['leaf', jop], 'state': [s_]} for s_ in support])
        want = 0
        for s_, ans in zip(support, imgs):
            for i, v in img_dict(n, ans).items():
                want += numpy.conj(psi[i]) * complex(float(v[0]), float(v[1])) * psi[be_index(n, s_)]
        st.float_comparisons += 1
        if kind == 'err' or not abs(complex(got) - want) <= 1e-9 * max(1.0, abs(want)):
            st.violate('expectation on 10 qubits != psi^dagger M psi', case, {'got': str(got), 'want': str(want)})
        n = 9
        op = qubit_op_on(n, n, 3, z_only=True) + Q(((0, 'X'), (8, 'X')), 0.5) + Q(((4, 'Y'),), 0.25)
        op = op + of.hermitian_conjugated(op)
        jop = enc_op('qubit', op.terms)
        case = {'fn': 'eigenspectrum', 'a': jop, 'n_qubits': n}
        st.case(case)
        st.count('eigenspectrum:n=9')
        cols = ctx.driver.run([{'op': 'spec.apply', 'alg': 'qubit', 'expr': ['leaf', jop], 'state': [s_]} for s_ in range(2 ** n)])
        D = numpy.zeros((2 ** n, 2 ** n), dtype=complex)
        for s_, ans in enumerate(cols):
            for i, v in img_dict(n, ans).items():
                D[i, be_index(n, s_)] = complex(float(v[0]), float(v[1]))
        kind, spec = safe(of.eigenspectrum, op)
        st.float_comparisons += 2 ** n
        if kind == 'err' or len(spec) != 2 ** n or \
                not float(numpy.max(numpy.abs(numpy.sort(numpy.real(spec)) - numpy.linalg.eigvalsh(D)))) <= 1e-9:
            st.violate('eigenspectrum on 9 qubits != eigenvalues of the matrix of the operator', case, str(spec)[:100])
    if spec_reqs:
        answers = ctx.driver.run([r for r, _ in spec_reqs])
        for (_, cb), a in zip(spec_reqs, answers):
            cb(a)
    return st


# ---------------------------------------------------------------- vector dtypes

VEC_DTYPES = ['bool', 'uint8', 'uint16', 'uint32', 'uint64', 'int8', 'int16', 'int32', 'int64',
              'float16', 'float32', 'float64', 'complex64', 'complex128']


def stream_vector_dtypes(ctx):
    import numpy
    of = ctx.of
    from openfermion.linalg import linear_qubit_operator as lq
    Q = of.QubitOperator
    st = Stream('vector-dtypes', 'LinearQubitOperator (`*`, .matvec, .dot, expectation, variance) and '
                'ParallelLinearQubitOperator (fake pool) on vectors of every numpy dtype (bool, uint8..uint64, int8..int64 '
                'incl. the extreme values -128 / 255 / 65535 / 2^32-1 (64-bit entries up to 2^40 so that float64 stays exact), float16 / float32 / float64, complex64 / complex128) '
                'crossed with X-only, Y-only, Z-only, identity and mixed operators with int / float / complex coefficients '
                'on non-zero entries; result dtype must be complex128; compared EXACTLY with the Spec matrix-vector '
                'product and with the Model; distinct = distinct (operator, dtype, vector, call)')
    B = Batch(ctx)
    rng = rng_for(ctx.seed, 'c06-vdtypes')
    reps = budget(ctx.tier, 2, 12)
    if ctx.drift:
        reps = max(reps, 4)

    def vec(dt, dim):
        d = numpy.dtype(dt)
        if d.kind == 'b':
            vals = [True] + [rng.random() < 0.6 for _ in range(dim - 1)]
        elif d.kind in 'iu':
            info = numpy.iinfo(d)
            big = min(info.max, 2 ** 40 + 3)
            pool = [info.max if info.max <= 2 ** 32 else 2 ** 40, big, 1, 2, 3, 200 if info.max >= 200 else 100]
            if d.kind == 'i':
                pool += [info.min if info.min >= -2 ** 31 else -(2 ** 40), -1, -3]
            vals = [rng.choice(pool) for _ in range(dim)]
            vals[0] = pool[0]
            if d.kind == 'i':
                vals[-1] = pool[6]
        elif d.kind == 'f':
            vals = [rng.choice([-3, -1, -0.5, 0.5, 1, 2, 3]) for _ in range(dim)]
        else:
            vals = [complex(rng.choice([-2, -1, 0.5, 1, 2]), rng.choice([-1, -0.5, 0.5, 1])) for _ in range(dim)]
        rng.shuffle(vals)
        return numpy.array(vals, dtype=d)

    def coeff(kind):
        if kind == 'int':
            return rng.choice([-3, -1, 1, 2, 3])
        if kind == 'float':
            return rng.choice([-1.5, -0.5, 0.5, 1.0, 2.0, 2.5])
        return complex(rng.choice([-1, 0.5, 1, 2]), rng.choice([-1, -0.5, 0.5, 1]))

    def make_op(family, n):
        op = Q()
        if family == 'identity':
            op.terms[()] = coeff(rng.choice(['int', 'float', 'complex']))
            if rng.random() < 0.5:
                op.terms[((n - 1, 'Z'),)] = coeff('float')
            return op
        letters = {'X': 'X', 'Y': 'Y', 'Z': 'Z', 'mixed': 'XYZ'}[family]
        for _ in range(rng.randint(1, 3)):
            qs = sorted(rng.sample(range(n), rng.randint(1, n)))
            t = tuple((q, rng.choice(letters)) for q in qs)
            op.terms[t] = coeff(rng.choice(['int', 'float', 'complex']))
        if family == 'mixed' and rng.random() < 0.5:
            op.terms[()] = coeff('int')
        return op

    class Opt(lq.LinearQubitOperatorOptions):
        def get_pool(self, num=None):
            return FakePool(list(range(num or 0))[::-1])

    for rep in range(reps):
        for dt in VEC_DTYPES:
            for family in ('X', 'Y', 'Z', 'identity', 'mixed'):
                n = rng.randint(1, 3)
                op = make_op(family, n)
                nq = max(of.count_qubits(op), 1) if rng.random() < 0.7 else n
                nq = max(nq, of.count_qubits(op))
                x = vec(dt, 2 ** nq)
                jop = enc_op('qubit', op.terms)
                base = {'a': jop, 'n_qubits': nq, 'family': family, 'x_dtype': dt, 'x': [str(v) for v in x.tolist()],
                        'coefficient_types': sorted({type(c).__name__ for c in op.terms.values()})}
                x0 = x.copy()
                calls = [('LinearQubitOperator * x', lambda: of.LinearQubitOperator(op, nq) * x),
                         ('LinearQubitOperator.matvec', lambda: of.LinearQubitOperator(op, nq).matvec(x)),
                         ('LinearQubitOperator.dot', lambda: of.LinearQubitOperator(op, nq).dot(x)),
                         ('ParallelLinearQubitOperator * x', lambda: of.ParallelLinearQubitOperator(op, nq, Opt(processes=2)) * x)]
                results = []
                for name, f in calls:
                    case = dict(base, fn=name)
                    st.case(case)
                    st.count('%s:%s' % (dt, family))
                    kind, y = safe(f)
                    if kind == 'err':
                        st.violate('vector-dtype: %s raised %s' % (name, y.split(':')[0]), case, {'error': y})
                        continue
                    y = numpy.asarray(y)
                    if y.shape != x.shape:
                        st.violate('vector-dtype: %s returned shape %s' % (name, y.shape), case, None)
                        continue
                    if len(op.terms) and y.dtype != numpy.complex128:
                        st.violate('vector-dtype: %s returned dtype %s, not complex128' % (name, y.dtype), case, None)
                    results.append((name, case, [fr(v) for v in y]))
                if not numpy.array_equal(x, x0):
                    st.violate('vector-dtype: the input vector was modified', base, None)
                xj = vec_j(x.tolist())

                def cbs(s_, results=results):
                    st.count('oracle:spec-matvec')
                    want = j_vec(s_)
                    for name, case, ye in results:
                        if ye != want:
                            bad = [i for i in range(len(want)) if ye[i] != want[i]][:4]
                            st.violate('vector-dtype: %s != (matrix of the operator) x' % name, case,
                                       {'indices': bad, 'got': [str(ye[i]) for i in bad], 'want': [str(want[i]) for i in bad]})
                B.ask({'op': 'c06.spec_matvec', 'alg': 'qubit', 'n': nq, 'a': jop, 'x': xj}, cbs)

                def cbm(m, results=results):
                    want = j_vec(m)
                    for name, case, ye in results[:1]:
                        if ye != want:
                            st.disagree('matvec (Model is dtype-free: the result is complex whatever the input dtype)',
                                        case, [str(v) for v in ye[:6]], [str(v) for v in want[:6]])
                B.ask({'op': 'c06.matvec', 'a': jop, 'x': xj}, cbm)
                # expectation / variance through the linear operator (exact integers / dyadics)
                L = of.LinearQubitOperator(op, nq)
                xs = [fr(v) for v in x.tolist()]

                def cbe(s_, xs=xs, L=L, x=x, base=base, op=op, nq=nq, jop=jop):
                    mx = j_vec(s_)
                    # exact x^dagger M x; skipped when the partial sums leave the exact range of float64
                    re = sum((a[0] * b[0] + a[1] * b[1] for a, b in zip(xs, mx)), Fraction(0))
                    im = sum((a[0] * b[1] - a[1] * b[0] for a, b in zip(xs, mx)), Fraction(0))
                    mag = sum((abs(a[0]) + abs(a[1])) * (abs(b[0]) + abs(b[1])) for a, b in zip(xs, mx))
                    if mag > 2 ** 50:
                        st.discards += 1
                        return
                    e1 = complex(float(re), float(im))
                    kind, got = safe(of.expectation, L, x)
                    st.float_comparisons += 1
                    case = dict(base, fn='expectation(LinearQubitOperator, x)')
                    st.case(case)
                    if kind == 'err':
                        st.violate('vector-dtype: expectation raised %s' % got.split(':')[0], case, {'error': got})
                    elif not abs(complex(got) - e1) <= 1e-9 * max(1.0, abs(e1)):
                        st.violate('vector-dtype: expectation(LinearQubitOperator, x) != x^dagger M x', case,
                                   {'got': str(got), 'want': str(e1)})
                B.ask({'op': 'c06.spec_matvec', 'alg': 'qubit', 'n': nq, 'a': jop, 'x': xj}, cbe)
    B.flush()
    return st


def run(ctx):
    return [stream_sparse(ctx), stream_linear(ctx), stream_boson(ctx), stream_numeric(ctx), stream_hardening(ctx), stream_large(ctx), stream_vector_dtypes(ctx)]


def replay(ctx, payload):
    """Re-evaluate a recorded Spec violation by regenerating the streams of the recorded (seed, tier):
    False = the recorded input still fails, True = it was re-evaluated and passes now,
    None = the input could not be regenerated (different sampling regime)."""
    import hashlib
    import json
    from common import show
    v = payload.get('violation')
    if not isinstance(v, dict) or 'input' not in v:
        return None
    ctx.seed = payload.get('seed', ctx.seed)
    ctx.tier = payload.get('tier', ctx.tier)
    want = json.dumps(v['input'], default=str)
    key = hashlib.sha1(show(v['input'], 10 ** 7).encode()).hexdigest()[:16]
    seen = False
    for drift in (ctx.drift, not ctx.drift):
        ctx.drift = drift
        for s in run(ctx):
            for w in s.violations:
                if json.dumps(json.loads(json.dumps(w['input'], default=str))) == want:
                    return False
            seen = seen or key in s.distinct
        if seen:
            return True
    return None
