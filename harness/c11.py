"""C11 — Givens decompositions.

Streams
  schedule      : the (column pair) schedule of the three decompositions on generic (Haar) inputs of
                  every shape m <= n <= NMAX / N <= NMAX against the Lean schedule functions (exact),
                  plus the reconstruction oracle on the same inputs.
  elements      : givens_matrix_elements on exact structured pairs (zero / real / imaginary / complex
                  with rational modulus) against the Lean Model (1e-9) + oracle (G unitary, G(a,b)^T
                  has the promised zero, (theta, phi) reproduce G).
  structured    : the three decompositions on exact structured inputs (signed / complex permutations,
                  identity, block diagonal, products of Pythagorean rotations, zero columns, real
                  matrices, BCS-like pairing) against the Lean Model (indices exact, parameters / V /
                  diagonal at 1e-9) + oracles.
  robust        : typed / non-contiguous arrays, argument integrity, repeatability of the decompositions.
  helpers       : (S) histories interleaving the public helpers (givens_matrix_elements, givens_rotate,
                  double_givens_rotate, row and col) with the decompositions on the very (a, b) the
                  decomposition uses first: the helpers must not modify the rotation they are given,
                  repeated givens_matrix_elements calls return equal, unshared arrays, then the
                  reconstruction oracle; the two rotation helpers against their definitions, exactly,
                  for dyadic complex G and M.

Oracles (Spec, independent of the Model, on the implementation's own outputs)
  * reconstruction (numpy, 1e-9): the product of the elementary matrices rebuilt from the RETURNED
    (i, j, theta, phi) / 'pht' equals the input:  V Q U^dagger = (D | 0),  Q = D U,
    V W U^dagger = (0 | D) with V rebuilt from left_decomposition / left_diagonal;  |D_kk| = 1; V unitary.
  * structure (Lean, OFV.Spec.C11.layersOk): adjacency, disjointness within a layer, depth bound.
"""
import itertools
import math
import random
from fractions import Fraction as F

import os
for _v in ('OMP_NUM_THREADS', 'OPENBLAS_NUM_THREADS', 'MKL_NUM_THREADS'):
    os.environ.setdefault(_v, '2')   # small matrices only: BLAS threading is pure overhead here
import numpy as np  # noqa: E402

from common import Stream, budget, rng_for, show, InfraError

TOL = 1e-9

TRUSTED = [
    'C11: numpy sqrt / arcsin / angle / cos / sin / exp behind the contracts sin(arcsin x)=x, cos(arcsin x)=sqrt(1-x^2), '
    'exp(i angle z)=z/|z|, angle(+0.0)=0, angle(-0.0)=pi; numpy matrix products of the reconstruction oracle',
]
ASSUMPTIONS = [
    'weak-pairing Bogoliubov inputs (left block with smallest singular value 2e-2 .. 2e-6, exactly ONE pairing rotation, left block '
    'not exactly singular): reconstruction tolerance 1e-3 instead of 1e-9 - the library prunes quantities below EQ_TOLERANCE = 1e-8 '
    'and that truncation is amplified by the condition number of the left block (<= 3.7e-6 measured on the unmodified code); a '
    'skipped particle-hole transformation leaves exact zeros in the diagonal (deviation 1)',
    'single-precision inputs (float32 / complex64) of the robust stream: tolerance 1e-5',
    'float comparisons use absolute tolerance 1e-9 and only on inputs whose every branch test |x| <> EQ_TOLERANCE is decided '
    'identically by the Model for tolerances 1e-5, 1e-8 and 1e-908 (i.e. every tested entry is exactly zero or >= 1e-5: the '
    'exact-regime hypothesis of the theorems; other inputs are discarded and counted)',
]
OPEN_STATEMENTS = [
    'square_reconstruct and givens_reconstruct (m < n): PROVED in the exact regime as matrix products '
    '(square_reconstruct_product, givens_reconstruct_product): with V the returned left_unitary and U^dagger the matrix obtained '
    'by applying the RECORDED rotations (each rebuilt from its returned (theta, phi) as the docstring matrix) to the identity, '
    'Q U^dagger = D resp. V Q U^dagger = (D | 0), |D_ii| = 1, D the returned diagonal.  Not formalised: unitarity of V as a '
    'separate statement (row orthonormality of V Q is proved), the case m = n of givens_decomposition (left stage only), and the '
    'exact-regime hypothesis itself, which the driver evaluates per input (op c11.hypotheses) rather than deriving it.',
    'gaussian_reconstruct (V W U^dagger = (0|D)): not proved.  FALSE on the real code for inputs on which the pivot hypothesis '
    'gaussAllPivots fails (known finding F11, kernel-checked instance test_pivot_hypothesis_fails_on_F11).  The hypothesis '
    '"all N particle-hole pivots are non-zero" is a decidable predicate evaluated by the driver and, from the returned pht count, on '
    'the implementation output; the harness enforces the reconstruction as a hard oracle whenever it holds (also for singular '
    'left blocks).  Named gap of the proof: after the sweep the right block is diagonal (needs the canonical constraints to be '
    'propagated through the double rotations).',
    'Gaussian reconstruction, proved part: the whole column sweep (particle-hole swaps + double Givens rotations) preserves the inner '
    'products of the rows, i.e. the first canonical constraint W1 W1^dagger + W2 W2^dagger = 1, in the exact regime '
    '(gaussian_sweep_preserves_row_gram, double_rotation_preserves_row_gram, particle_hole_swap_preserves_row_gram); the second '
    'constraint and the diagonal right block remain open.',
    'm = n case of givens_decomposition and unitarity of the returned left_unitary: proved (givens_square_case_product, '
    'givens_left_unitary_is_unitary).',
    'givens_matrix_elements_sound is stated in the exact regime (entries below EQ_TOLERANCE are exactly 0, an imaginary part of the '
    'relative phase (a/|a|) conj(b/|b|) below EQ_TOLERANCE is exactly 0 - the real / complex test of the repaired code 7be94873); '
    'behaviour for 0 < |x| < 1e-8 is outside the theorem.  For pairs with a real ratio (Im(a conj b) = 0: real, purely imaginary, '
    'common phase) the phase hypothesis is proved, not assumed (givens_matrix_elements_sound_real_ratio); the executable test '
    'realExactB decides the hypothesis exactly (real_exact_test_decides).',
]

# --------------------------------------------------------------------------- exact complex numbers


class Z:
    """Gaussian rational"""
    __slots__ = ('re', 'im')

    def __init__(self, re=0, im=0):
        self.re, self.im = F(re), F(im)

    def __add__(self, o):
        return Z(self.re + o.re, self.im + o.im)

    def __sub__(self, o):
        return Z(self.re - o.re, self.im - o.im)

    def __neg__(self):
        return Z(-self.re, -self.im)

    def __mul__(self, o):
        return Z(self.re * o.re - self.im * o.im, self.re * o.im + self.im * o.re)

    def conj(self):
        return Z(self.re, -self.im)

    def is_zero(self):
        return self.re == 0 and self.im == 0

    def c(self):
        return complex(float(self.re), float(self.im))

    def j(self):
        return [self.re.numerator, self.re.denominator, self.im.numerator, self.im.denominator]


ZERO, ONE = Z(0), Z(1)


def zeye(n):
    return [[ONE if i == j else ZERO for j in range(n)] for i in range(n)]


def zmul(A, B):
    n, k, m = len(A), len(B), len(B[0])
    out = []
    for i in range(n):
        row = []
        for j in range(m):
            s = ZERO
            for t in range(k):
                if not A[i][t].is_zero() and not B[t][j].is_zero():
                    s = s + A[i][t] * B[t][j]
            row.append(s)
        out.append(row)
    return out


def znp(M, ncols=None):
    if not M:
        return np.zeros((0, ncols or 0), dtype=complex)
    return np.array([[x.c() for x in r] for r in M], dtype=complex)


def zjson(M):
    return [[x.j() for x in r] for r in M]


def zrank(M):
    """exact rank (Gaussian elimination over Q(i))"""
    A = [list(r) for r in M]
    rank = 0
    rows = len(A)
    cols = len(A[0]) if A else 0
    for c in range(cols):
        piv = None
        for r in range(rank, rows):
            if not A[r][c].is_zero():
                piv = r
                break
        if piv is None:
            continue
        A[rank], A[piv] = A[piv], A[rank]
        p = A[rank][c]
        nrm = p.re * p.re + p.im * p.im
        inv = Z(p.re / nrm, -p.im / nrm)
        for r in range(rank + 1, rows):
            if not A[r][c].is_zero():
                f = A[r][c] * inv
                A[r] = [x - f * y for x, y in zip(A[r], A[rank])]
        rank += 1
    return rank


# Pythagorean (cos, sin) pairs and unit phases with rational modulus
CS_DENSE = [(F(3, 5), F(4, 5)), (F(4, 5), F(-3, 5)), (F(5, 13), F(12, 13)), (F(-3, 5), F(4, 5)),
            (F(8, 17), F(15, 17)), (F(12, 13), F(-5, 13))]
CS_TRIV = [(F(1), F(0)), (F(0), F(1)), (F(0), F(-1)), (F(-1), F(0))]
PHASES = [Z(1), Z(-1), Z(0, 1), Z(0, -1), Z(F(3, 5), F(4, 5)), Z(F(-4, 5), F(3, 5)), Z(F(5, 13), F(-12, 13))]
PHASES_REAL = [Z(1), Z(-1)]


def zrot(n, i, j, c, s, e):
    """[[c, -e s], [s, e c]] embedded at (i, j)"""
    G = zeye(n)
    G[i][i] = Z(c)
    G[i][j] = -(e * Z(s))
    G[j][i] = Z(s)
    G[j][j] = e * Z(c)
    return G


def rand_unitary(rng, n, kind):
    """exact unitary of one of the structured families"""
    U = zeye(n)
    real = kind.startswith('real')
    phases = PHASES_REAL if real else PHASES
    if kind in ('perm', 'realperm', 'mixed', 'realmixed'):
        p = list(range(n))
        rng.shuffle(p)
        U = [[(rng.choice(phases) if p[i] == j else ZERO) for j in range(n)] for i in range(n)]
    if kind == 'identity':
        return U
    if kind == 'antidiag':
        return [[(ONE if i + j == n - 1 else ZERO) for j in range(n)] for i in range(n)]
    if kind in ('block', 'realblock'):
        # direct sum of 1x1 phases and 2x2 Pythagorean blocks
        i = 0
        while i < n:
            if i + 1 < n and rng.random() < 0.6:
                c, s = rng.choice(CS_DENSE + CS_TRIV)
                U = zmul(zrot(n, i, i + 1, c, s, rng.choice(phases)), U)
                i += 2
            else:
                U[i][i] = rng.choice(phases)
                i += 1
        return U
    if kind in ('dense', 'realdense', 'mixed', 'realmixed'):
        steps = rng.randint(1, 4 if kind.endswith('dense') else 3)
        for _ in range(steps):
            if n < 2:
                break
            i, j = rng.sample(range(n), 2)
            if rng.random() < 0.5:
                i, j = min(i, j), min(i, j) + 1 if min(i, j) + 1 < n else max(i, j)
                if i == j:
                    continue
            c, s = rng.choice(CS_DENSE if rng.random() < 0.7 else CS_TRIV)
            U = zmul(zrot(n, i, j, c, s, rng.choice(phases)), U)
        return U
    return U


WEAK_K = [2, 3, 5, 6]
# Reconstruction tolerance for the weak-pairing family.  There the left block has smallest singular value ~ s = 2e-k and
# the code (legitimately) drops quantities below EQ_TOLERANCE, here the first power of s below 1e-8; that truncation is
# amplified by ~ 1/s: deviations up to 3.7e-6 were measured on the unmodified code (bound ~ 10 * s^j / s <= 2e-4).  A skipped
# particle-hole transformation instead leaves exact zeros in the diagonal (deviation 1).
WEAK_TOL = 1e-3

KINDS = ['perm', 'realperm', 'identity', 'antidiag', 'block', 'realblock', 'dense', 'realdense', 'mixed', 'realmixed']


def from_schedule(rng, dr, n, real):
    """Q = D G_k ... G_1 with one random rational rotation per position of the square schedule
    (so that the decomposition meets only rational square roots)"""
    sched = dr.one({'op': 'c11.schedule', 'kind': 'square', 'n': n})
    U = zeye(n)
    phases = PHASES_REAL if real else PHASES
    for layer in sched:
        for (_, j) in layer:
            c, s = rng.choice(CS_DENSE + CS_TRIV) if rng.random() < 0.8 else (F(1), F(0))
            U = zmul(zrot(n, j - 1, j, c, s, rng.choice(phases)), U)
    D = [[(rng.choice(phases) if i == j else ZERO) for j in range(n)] for i in range(n)]
    return zmul(D, U)


# --------------------------------------------------------------------------- rebuilding (oracle side)


def np_rot(n, i, j, theta, phi):
    G = np.eye(n, dtype=complex)
    c, s, e = math.cos(theta), math.sin(theta), np.exp(1j * phi)
    G[i, i] = c
    G[i, j] = -e * s
    G[j, i] = s
    G[j, j] = e * c
    return G


def np_U(n, layers):
    U = np.eye(n, dtype=complex)
    for layer in layers:
        for (i, j, t, p) in layer:
            U = np_rot(n, i, j, t, p) @ U
    return U


def np_U_gauss(n, layers):
    U = np.eye(2 * n, dtype=complex)
    B = np.eye(2 * n, dtype=complex)
    B[[n - 1, 2 * n - 1]] = B[[2 * n - 1, n - 1]]
    for layer in layers:
        for op in layer:
            if isinstance(op, str):
                U = B @ U
            else:
                i, j, t, p = op
                G = np_rot(n, i, j, t, p)
                GG = np.zeros((2 * n, 2 * n), dtype=complex)
                GG[:n, :n] = G
                GG[n:, n:] = G.conj()
                U = GG @ U
    return U


def layer_indices(layers, n):
    return [[[n - 1] if isinstance(op, str) else [int(op[0]), int(op[1])] for op in layer] for layer in layers]


def add_spec(stream, batch, case, rq, extra=None):
    """queue a structure-oracle request; indices that are not naturals violate the statement outright"""
    if any(i < 0 for layer in rq['layers'] for op in layer for i in op):
        stream.violate('%s: a returned rotation has a negative index' % case['fn'], case, {'layers': rq['layers']})
        return
    batch.append((case, rq, extra))


def err(x):
    x = np.asarray(x)
    return float(np.abs(x).max()) if x.size else 0.0


def oracle_square(of, Qnp, ai):
    """-> (failure text or None, returned value, spec request)"""
    n = Qnp.shape[0]
    dec, diag = of.linalg.givens_decomposition_square(Qnp.copy(), always_insert=ai)
    bad = None
    e1 = err(np.diag(diag) @ np_U(n, dec) - Qnp)
    e2 = err(np.abs(diag) - 1)
    if e1 > TOL:
        bad = 'Q != D U (max deviation %.3g)' % e1
    elif e2 > TOL:
        bad = 'diagonal not of unit modulus (%.3g)' % e2
    req = {'op': 'c11.spec.layers', 'n': n, 'depth': max(2 * (n - 1) - 1, 0), 'layers': layer_indices(dec, n)}
    return bad, (dec, diag), req


def oracle_givens(of, Qnp, ai):
    m, n = Qnp.shape
    dec, V, diag = of.linalg.givens_decomposition(Qnp.copy(), always_insert=ai)
    D = np.zeros((m, n), dtype=complex)
    D[range(m), range(m)] = diag
    bad = None
    e1 = err(V @ Qnp @ np_U(n, dec).conj().T - D)
    e2 = err(np.abs(diag) - 1)
    e3 = err(V @ V.conj().T - np.eye(m))
    if e1 > TOL:
        bad = 'V Q U^dagger != (D | 0) (max deviation %.3g)' % e1
    elif e2 > TOL:
        bad = 'diagonal not of unit modulus (%.3g)' % e2
    elif e3 > TOL:
        bad = 'left unitary V is not unitary (%.3g)' % e3
    req = {'op': 'c11.spec.layers', 'n': n, 'depth': (n - 1 if m != n else 0), 'layers': layer_indices(dec, n)}
    return bad, (dec, V, diag), req


def oracle_gauss(of, Wnp, tol=TOL):
    n = Wnp.shape[0]
    dec, left_dec, diag, left_diag = of.linalg.fermionic_gaussian_decomposition(Wnp.copy())
    U = np_U_gauss(n, dec)
    # V^T D^* = D_left U_left  =>  V = (D_left U_left D)^T   (D^* D = 1 is part of the claim)
    V = (np.diag(left_diag) @ np_U(n, left_dec) @ np.diag(diag)).T
    target = np.zeros((n, 2 * n), dtype=complex)
    target[range(n), range(n, 2 * n)] = diag
    bad = None
    e2 = err(np.abs(diag) - 1)
    e3 = err(np.abs(left_diag) - 1)
    e1 = err(V @ Wnp @ U.conj().T - target)
    if e2 > tol:
        bad = 'diagonal not of unit modulus (%.3g)' % e2
    elif e3 > tol:
        bad = 'left diagonal not of unit modulus (%.3g)' % e3
    elif e1 > tol:
        bad = 'V W U^dagger != (0 | D) (max deviation %.3g)' % e1
    reqs = [{'op': 'c11.spec.layers', 'n': n, 'depth': 2 * n - 1, 'layers': layer_indices(dec, n)},
            {'op': 'c11.spec.layers', 'n': n, 'depth': max(2 * (n - 1) - 1, 0), 'layers': layer_indices(left_dec, n)}]
    return bad, (dec, left_dec, diag, left_diag), reqs


# --------------------------------------------------------------------------- comparison with the Model


def gq_c(j):
    return complex(j[0] / j[1], j[2] / j[3])


def cmp_rot(op, mr):
    """implementation (i, j, theta, phi) against Model [i, j, sin, cos, eiphi]"""
    i, j, t, p = op
    if [int(i), int(j)] != mr[:2]:
        return 'indices %s vs %s' % ((int(i), int(j)), mr[:2])
    s, c, e = mr[2][0] / mr[2][1], mr[3][0] / mr[3][1], gq_c(mr[4])
    if abs(math.sin(t) - s) > TOL or abs(math.cos(t) - c) > TOL:
        return 'theta: sin/cos %.12g/%.12g vs %.12g/%.12g' % (math.sin(t), math.cos(t), s, c)
    if abs(np.exp(1j * p) - e) > TOL:
        return 'phi: exp(i phi) %r vs %r' % (complex(np.exp(1j * p)), e)
    return None


def cmp_layers(impl, model, stream):
    if len(impl) != len(model):
        return 'number of layers %d vs %d' % (len(impl), len(model))
    for k, (a, b) in enumerate(zip(impl, model)):
        if len(a) != len(b):
            return 'layer %d: %d vs %d operations' % (k, len(a), len(b))
        for x, y in zip(a, b):
            if isinstance(x, str) or isinstance(y, str):
                if x != y:
                    return 'layer %d: %r vs %r' % (k, x, y)
                continue
            stream.float_comparisons += 3
            d = cmp_rot(x, y)
            if d:
                return 'layer %d: %s' % (k, d)
    return None


def cmp_vec(impl, model, stream, what):
    impl = np.asarray(impl).reshape(-1)
    mod = np.array([gq_c(x) for x in model], dtype=complex)
    stream.float_comparisons += len(mod)
    if impl.shape != mod.shape:
        return '%s: shape %s vs %s' % (what, impl.shape, mod.shape)
    if err(impl - mod) > TOL:
        return '%s: %s vs %s' % (what, np.round(impl, 10).tolist(), np.round(mod, 10).tolist())
    return None


def impl_summary(val):
    def conv(x):
        if isinstance(x, np.ndarray):
            return np.round(x, 12).tolist()
        if isinstance(x, (list, tuple)):
            return [conv(y) for y in x]
        if isinstance(x, (np.floating, float)):
            return float(x)
        if isinstance(x, np.integer):
            return int(x)
        return x
    return conv(val)


# tolerance x1, x1000 and x10^-900 (the last one only treats exact zeros as zero: nonzero entries of the generated
# rational matrices are far larger), so identical answers mean: every tested entry is exactly 0 or >= 1000 tol,
# which is the exact-regime hypothesis (StepExact / SweepExact) of the Lean theorems
SCALES = [[1, 1], [1000, 1], [1, 10 ** 900]]


def model_runs(ctx, reqs):
    """run every request with the live tolerance and with the tolerance scaled by 1000 and 1e-900;
    -> list of (answer, decided_with_margin)"""
    batch = []
    for r in reqs:
        for sc in SCALES:
            q = dict(r)
            q['tolscale'] = sc
            batch.append(q)
    ans = ctx.driver.run(batch)
    out = []
    for i in range(len(reqs)):
        a, b, c = ans[3 * i:3 * i + 3]
        out.append((a, a == b == c))
    return out


def check_cases(ctx, stream, cases):
    """cases: dict(fn='square'|'givens'|'gauss', M=exact matrix, ncols, ai, kind).  Model comparison +
    oracles.  """
    of = ctx.of
    reqs = []
    for c in cases:
        if c['fn'] == 'square':
            reqs.append({'op': 'c11.square', 'Q': zjson(c['M']), 'ai': c['ai']})
        elif c['fn'] == 'givens':
            reqs.append({'op': 'c11.givens', 'Q': zjson(c['M']), 'n': c['ncols'], 'ai': c['ai']})
        else:
            reqs.append({'op': 'c11.gauss', 'W': zjson(c['M']), 'p': c['ncols']})
    models = model_runs(ctx, reqs)
    # executable hypotheses of the Lean reconstruction theorems, evaluated on each input by the driver
    hyp_idx = [k for k, c in enumerate(cases) if c['fn'] == 'square' or (c['fn'] == 'givens' and len(c['M']) < c['ncols'])]
    hyp_ans = ctx.driver.run([{'op': 'c11.hypotheses', 'Q': zjson(cases[k]['M']), 'n': cases[k]['ncols'], 'ai': cases[k]['ai']}
                              for k in hyp_idx])
    for k, a in zip(hyp_idx, hyp_ans):
        stream.count('theorem-hypotheses:' + ('verified' if a['probe'] and a['orthonormal'] else
                                              'not-orthonormal-input' if not a['orthonormal'] else 'outside-exact-regime'))
        if not a['orthonormal']:
            raise InfraError('generator error: input rows are not exactly orthonormal (%s)' % cases[k]['kind'])
    spec_batch = []
    for c, (mo, decided) in zip(cases, models):
        Mnp = znp(c['M'], c['ncols'])
        case = {'fn': c['fn'], 'kind': c['kind'], 'shape': list(Mnp.shape), 'always_insert': c['ai'],
                'matrix': [[str(x.re) + ('' if x.im == 0 else '%+sj' % x.im) for x in r] for r in c['M']]}
        if c['fn'] == 'gauss':
            case['left_block_singular'] = c['singular']
        stream.case(case)
        stream.count('fn:' + c['fn'])
        stream.count('kind:' + c['kind'])
        stream.count('shape:%dx%d' % Mnp.shape)
        # ---- implementation + reconstruction oracle
        bad = None
        val = None
        specs = []
        try:
            if c['fn'] == 'square':
                bad, val, rq = oracle_square(of, Mnp, c['ai'])
                specs = [rq]
            elif c['fn'] == 'givens':
                bad, val, rq = oracle_givens(of, Mnp, c['ai'])
                specs = [rq]
            else:
                bad, val, specs = oracle_gauss(of, Mnp, WEAK_TOL if c['kind'] == 'weak' else TOL)
                # pivot hypothesis (Lean: gaussAllPivots): all N particle-hole pivots were non-zero
                case['all_pivots_nonzero'] = sum(1 for l in val[0] for o in l if isinstance(o, str)) == Mnp.shape[0]
                stream.count('gauss-pivot-hypothesis:%s' % case['all_pivots_nonzero'])
            impl_err = None
        except ValueError:
            impl_err = 'ValueError'
        except Exception as e:  # an unexpected exception on an admissible input
            impl_err = type(e).__name__
            if c.get('admissible', True):
                stream.violate('%s raised %s: %s' % (c['fn'], type(e).__name__, e), case, {})
                continue
        if impl_err == 'ValueError' and c.get('admissible', True):
            stream.violate('%s raised ValueError on an admissible input' % c['fn'], case, {})
            continue
        stream.count('oracle:reconstruction')
        if bad:
            stream.violate('%s: %s' % (c['fn'], bad), case, {'returned': impl_summary(val)})
        for rq in specs:
            add_spec(stream, spec_batch, case, rq, val)
        # ---- Model
        if isinstance(mo, dict) and mo.get('error') == 'irrational':
            stream.discards += 1
            stream.count('model:undefined(irrational)')
            continue
        if not decided:
            stream.discards += 1
            stream.count('model:branch-without-margin')
            continue
        stream.count('model:compared')
        if isinstance(mo, dict) and 'error' in mo:
            if impl_err != mo['error']:
                stream.disagree('error kind', case, impl_err, mo['error'])
            continue
        if impl_err:
            stream.disagree('error kind', case, impl_err, 'ok')
            continue
        if c['fn'] == 'square':
            d = cmp_layers(val[0], mo['layers'], stream) or cmp_vec(val[1], mo['diag'], stream, 'diagonal')
        elif c['fn'] == 'givens':
            d = (cmp_layers(val[0], mo['layers'], stream)
                 or cmp_vec(val[1], [x for r in mo['V'] for x in r], stream, 'left unitary')
                 or cmp_vec(val[2], mo['diag'], stream, 'diagonal'))
        else:
            d = (cmp_layers(val[0], mo['layers'], stream) or cmp_layers(val[1], mo['left_layers'], stream)
                 or cmp_vec(val[2], mo['diag'], stream, 'diagonal')
                 or cmp_vec(val[3], mo['left_diag'], stream, 'left diagonal'))
        nrot = sum(len(l) for l in mo['layers'])
        stream.count('rotations:%s' % ('0' if nrot == 0 else '1-3' if nrot <= 3 else '4+'))
        if d:
            stream.disagree(d, case, impl_summary(val), mo)
    if spec_batch:
        answers = ctx.driver.run([r for _, r, _ in spec_batch])
        for (case, rq, val), a in zip(spec_batch, answers):
            stream.count('oracle:structure')
            if not a['ok']:
                stream.violate('%s: layer structure (adjacent / disjoint / depth %d) violated at layer %d'
                               % (case['fn'], rq['depth'], a['layer']), case, {'layers': rq['layers']})


# --------------------------------------------------------------------------- generators


def haar(nprng, n):
    z = nprng.normal(size=(n, n)) + 1j * nprng.normal(size=(n, n))
    q, r = np.linalg.qr(z)
    return q * (np.diag(r) / np.abs(np.diag(r)))


def haar_gauss(nprng, n):
    """generic admissible N x 2N matrix: Bogoliubov transformation of a random quadratic Hamiltonian
    computed independently of OpenFermion (eigenvectors of the BdG matrix)"""
    A = nprng.normal(size=(n, n)) + 1j * nprng.normal(size=(n, n))
    M = A + A.conj().T
    B = nprng.normal(size=(n, n)) + 1j * nprng.normal(size=(n, n))
    D = B - B.T
    H = np.block([[M, D], [-D.conj(), -M.conj()]])
    w, v = np.linalg.eigh(H)
    # positive-energy eigenvectors (u, v): b = u^dagger a + v^dagger a^dagger ; rows (conj(u) | conj(v))
    # give an admissible W up to the convention, which the admissibility test itself decides
    pos = v[:, n:]
    return pos.T.conj()


def gen_gauss_exact(rng, n, kind):
    """exact admissible W (n x 2n)"""
    N = 2 * n

    def dbl(i, j, c, s, e):
        G = zrot(n, i, j, c, s, e)
        GG = [[ZERO] * N for _ in range(N)]
        for a in range(n):
            for b in range(n):
                GG[a][b] = G[a][b]
                GG[n + a][n + b] = G[a][b].conj()
        return GG

    def pht(jm):
        P = zeye(N)
        P[jm], P[n + jm] = P[n + jm], P[jm]
        return P
    U = zeye(N)
    if kind == 'bcs':
        # pairs (2t, 2t+1):  u a^dagger_k + v a_{-k}
        W = [[ZERO] * N for _ in range(n)]
        t = 0
        while t < n:
            if t + 1 < n and rng.random() < 0.8:
                u, v = rng.choice(CS_DENSE + CS_TRIV)
                W[t][t] = Z(u)
                W[t][n + t + 1] = Z(v)
                W[t + 1][t + 1] = Z(u)
                W[t + 1][n + t] = Z(-v)
                t += 2
            else:
                W[t][t if rng.random() < 0.5 else n + t] = rng.choice(PHASES)
                t += 1
        if rng.random() < 0.5:
            # swap the two blocks (annihilation-operator convention)
            W = [r[n:] + r[:n] for r in W]
        return W
    if kind == 'permlike':
        p = list(range(n))
        rng.shuffle(p)
        W = [[ZERO] * N for _ in range(n)]
        for r in range(n):
            W[r][rng.choice([0, n]) + p[r]] = rng.choice(PHASES)
        return W
    if kind == 'weak':
        # weak pairing: orbital rotation, optionally hole modes, then pairing rotations a_i / a_q^dagger of angle
        # ~ 2 * 10^-k (exact rational rotation with t = tan(theta/2) = 10^-k), k in WEAK_K: the particle-hole pivots of
        # the decomposition are small but more than a decade above EQ_TOLERANCE (k = 7, 8 would be within a decade of it)
        for _ in range(rng.randint(0, 3)):
            i, j = rng.sample(range(n), 2)
            c, s = rng.choice(CS_DENSE if rng.random() < 0.7 else CS_TRIV)
            U = zmul(dbl(i, j, c, s, rng.choice(PHASES)), U)
        for q in range(n):
            if rng.random() < 0.3:
                U = zmul(pht(q), U)
        # exactly ONE pairing rotation: then every quantity the code compares with EQ_TOLERANCE is of order 0 or 1 in s
        # (>= 1e-7) or exactly zero.  (Two weak pairing rotations create second-order entries s1*s2 <= 4e-10 which the
        # code legitimately treats as zero; with a nearly singular left block that truncation is amplified to 1e-6..1e-5
        # in V W U^dagger - observed on the unmodified code, outside the exact regime, therefore not generated.)
        i, q = rng.sample(range(n), 2)
        t = F(1, 10 ** rng.choice(WEAK_K))
        c, s = (1 - t * t) / (1 + t * t), 2 * t / (1 + t * t)
        if rng.random() < 0.5:
            s = -s
        U = zmul(zmul(pht(q), zmul(dbl(i, q, c, s, rng.choice(PHASES)), pht(q))), U)
        return U[n:] if rng.random() < 0.5 else U[:n]
    steps = rng.randint(0, 6)
    for _ in range(steps):
        if rng.random() < 0.4 or n < 2:
            U = zmul(pht(rng.randrange(n)), U)
        else:
            i, j = rng.sample(range(n), 2)
            c, s = rng.choice(CS_DENSE if rng.random() < 0.6 else CS_TRIV)
            U = zmul(dbl(i, j, c, s, rng.choice(PHASES if kind != 'realgroup' else PHASES_REAL)), U)
    return U[n:] if rng.random() < 0.5 else U[:n]


# --------------------------------------------------------------------------- (S) / (T) / (B) / (A) robustness

ARRAY_KINDS = ['int64', 'int32', 'float32', 'float64', 'complex64', 'complex128', 'fortran', 'noncontiguous']
SINGLE_TOL = 1e-5


def typed(A, kind):
    """the same exactly representable values as another array type (None if they do not fit)"""
    A = np.asarray(A, dtype=complex)
    if kind in ('int64', 'int32'):
        if np.abs(A.imag).max() != 0 or np.abs(A.real - np.round(A.real)).max() != 0:
            return None
        return A.real.astype(kind)
    if kind in ('float32', 'float64'):
        if np.abs(A.imag).max() != 0:
            return None
        if kind == 'float32' and np.abs(A.real.astype(np.float32).astype(float) - A.real).max() != 0:
            return None
        return A.real.astype(kind)
    if kind == 'complex64':
        B = A.astype(np.complex64)
        return B if np.abs(B.astype(complex) - A).max() == 0 else None
    if kind == 'complex128':
        return A.copy()
    if kind == 'fortran':
        return np.asfortranarray(A)
    if kind == 'noncontiguous':
        big = np.zeros((2 * A.shape[0], 2 * A.shape[1]), dtype=complex)
        big[::2, ::2] = A
        return big[::2, ::2]
    raise AssertionError(kind)


def rebuild_error(fn, val, ref):
    """reconstruction error of a returned decomposition against the float64 reference matrix `ref`"""
    if fn == 'square':
        dec, diag = val
        n = ref.shape[0]
        return max(err(np.diag(np.asarray(diag, dtype=complex)) @ np_U(n, dec) - ref), err(np.abs(diag) - 1))
    if fn == 'givens':
        dec, V, diag = val
        m, n = ref.shape
        D = np.zeros((m, n), dtype=complex)
        D[range(m), range(m)] = diag
        V = np.asarray(V, dtype=complex)
        return max(err(V @ ref @ np_U(n, dec).conj().T - D), err(np.abs(diag) - 1), err(V @ V.conj().T - np.eye(m)))
    dec, left_dec, diag, left_diag = val
    n = ref.shape[0]
    U = np_U_gauss(n, dec)
    V = (np.diag(left_diag) @ np_U(n, left_dec) @ np.diag(diag)).T
    target = np.zeros((n, 2 * n), dtype=complex)
    target[range(n), range(n, 2 * n)] = diag
    return max(err(V @ ref @ U.conj().T - target), err(np.abs(diag) - 1), err(np.abs(left_diag) - 1))


def stream_robust(ctx):
    s = Stream('robust', '(T) exactly representable isometries / Bogoliubov matrices passed as int64, int32, float32, float64, '
               'complex64, complex128, Fortran-ordered and non-contiguous arrays (types rejected on a probe input are excluded '
               'for the run): reconstruction oracle against the float64 values; (S) the argument is not modified, results do not '
               'change when the first result is overwritten and the function is called again; (B) rotations by 2e-6 next to O(1) '
               'entries; (A) purely imaginary matrices; distinct = distinct (function, matrix, type)')
    of = ctx.of
    rng = rng_for(ctx.seed, 'c11-robust')
    N = budget(ctx.tier, 120, 900)
    if ctx.drift:
        N = max(N, 400)
    fns = {'square': lambda A: of.linalg.givens_decomposition_square(A),
           'givens': lambda A: of.linalg.givens_decomposition(A),
           'gauss': lambda A: of.linalg.fermionic_gaussian_decomposition(A)}
    probes = {'square': np.eye(2), 'givens': np.eye(2)[:1], 'gauss': np.array([[0.0, 1.0]])}
    acc = {}
    for fn in fns:
        acc[fn] = []
        for k in ARRAY_KINDS:
            try:
                fns[fn](typed(probes[fn], k))
                acc[fn].append(k)
            except Exception:
                s.count('type-rejected:%s:%s' % (fn, k))
    for t in range(N):
        fn = rng.choice(['square', 'givens', 'givens', 'gauss'])
        n = rng.choice([2, 3, 3, 4, 5])
        k = rng.choice(acc[fn]) if acc[fn] else None
        if k is None:
            continue
        if k in ('int64', 'int32', 'float32'):
            fam = rng.choice(['realperm', 'realperm', 'identity', 'antidiag'])
        elif k == 'complex64':
            fam = rng.choice(['realperm', 'perm', 'antidiag'])
        elif k == 'float64':
            fam = rng.choice(['realperm', 'realdense', 'realblock', 'tinyrot'])
        else:
            fam = rng.choice(['perm', 'realdense', 'realblock', 'dense', 'tinyrot', 'imag', 'identity'])
        if fn == 'gauss':
            n = rng.choice([1, 2, 3])
            W = gen_gauss_exact(rng, n, 'realgroup' if k in ('int64', 'int32', 'float32', 'float64') else
                                rng.choice(['permlike', 'bcs', 'group', 'realgroup']))
            if zrank([r[:n] for r in W]) < n:
                continue        # F11 class: not the subject of this stream
            A = znp(W, 2 * n)
            fam = 'bogoliubov'
        else:
            if fam == 'tinyrot':
                U = rand_unitary(rng, n, 'realdense')
                if n >= 2:
                    i, j = rng.sample(range(n), 2)
                    tt = F(1, 10 ** 6)
                    U = zmul(zrot(n, i, j, (1 - tt * tt) / (1 + tt * tt), 2 * tt / (1 + tt * tt), rng.choice(PHASES_REAL)), U)
            elif fam == 'imag':
                U = [[x * Z(0, 1) for x in r] for r in rand_unitary(rng, n, 'realdense')]
            else:
                U = rand_unitary(rng, n, fam)
            m = n if fn == 'square' else rng.randint(1, n)
            A = znp(U[:m], n)
        At = typed(A, k)
        if At is None:
            s.count('values-do-not-fit-type')
            continue
        c = {'fn': fn, 'family': fam, 'type': k, 'matrix': [[[x.real, x.imag] for x in r] for r in A]}
        s.case(c)
        s.count('fn:' + fn)
        s.count('type:' + k)
        s.count('family:' + fam)
        A0 = At.copy()
        tol = SINGLE_TOL if k in ('float32', 'complex64') else TOL
        try:
            val = fns[fn](At)
        except Exception as e:
            s.violate('%s(%s array) raised %s: %s' % (fn, k, type(e).__name__, e), c, {})
            continue
        s.float_comparisons += 3
        e = rebuild_error(fn, val, np.asarray(A, dtype=complex))
        if e > tol:
            s.violate('%s(%s array): the returned decomposition does not reconstruct the input (max deviation %.3g)'
                      % (fn, k, e), c, {'returned': impl_summary(val)})
        if not np.array_equal(At, A0) or At.dtype != A0.dtype:
            s.violate('%s modified its argument' % fn, c, {})
        # (S) overwrite the returned arrays, call again
        first = impl_summary(val)
        try:
            for x in val:
                if isinstance(x, np.ndarray) and x.flags.writeable and not np.shares_memory(x, At):
                    x[...] = 5
            again = impl_summary(fns[fn](At))
            if again != first:
                s.violate('%s returns a different decomposition after its first result was overwritten in place' % fn, c, {})
        except Exception as e:
            s.violate('%s: second call raised %s: %s' % (fn, type(e).__name__, e), c, {})
    return s


# --------------------------------------------------------------------------- (S) public helpers interleaved with decompositions


def ref_rotate(M, G, i, j, which):
    """definition of givens_rotate on a copy (exact for dyadic entries)"""
    M = M.copy()
    if which == 'row':
        ri, rj = M[i].copy(), M[j].copy()
        M[i] = G[0, 0] * ri + G[0, 1] * rj
        M[j] = G[1, 0] * ri + G[1, 1] * rj
    else:
        ci, cj = M[:, i].copy(), M[:, j].copy()
        M[:, i] = G[0, 0] * ci + np.conj(G[0, 1]) * cj
        M[:, j] = G[1, 0] * ci + np.conj(G[1, 1]) * cj
    return M


def ref_double_rotate(M, G, i, j, which):
    """definition of double_givens_rotate: G on the first half, conj(G) on the second half"""
    M = M.copy()
    if which == 'row':
        n = M.shape[0] // 2
        M[:n] = ref_rotate(M[:n], G, i, j, 'row')
        M[n:] = ref_rotate(M[n:], np.conj(G), i, j, 'row')
    else:
        n = M.shape[1] // 2
        M[:, :n] = ref_rotate(M[:, :n], G, i, j, 'col')
        M[:, n:] = ref_rotate(M[:, n:], np.conj(G), i, j, 'col')
    return M


def dyadic_c(rng):
    return complex(rng.choice([-2, -1, -0.5, 0.25, 0.5, 1, 1.5]), rng.choice([-1, -0.5, 0.25, 0.5, 1, 2]))


def cpairs(A):
    return [[[float(x.real), float(x.imag)] for x in r] for r in np.asarray(A)]


def cmat(rows):
    return np.array([[complex(x[0], x[1]) for x in r] for r in rows], dtype=complex)


def run_history(of, c):
    """one helper history (deterministic in the case record); returns (problems, spec requests, comparisons)"""
    gr = of.linalg.givens_rotations
    fn, which = c['fn'], c['which']
    a, b = complex(*c['a']), complex(*c['b'])
    A = cmat(c['matrix'])
    rng = random.Random(c['scratch'])
    out, rqs, ncmp = [], [], 0
    # (1) the rotation the decomposition is going to compute first, handed to the helpers beforehand
    G1 = gr.givens_matrix_elements(a, b, which=which)
    snap = np.array(G1, copy=True)
    dt = G1.dtype
    Gc = np.array(snap, dtype=complex)
    k = rng.choice([3, 4])
    Ms = np.array([[dyadic_c(rng) for _ in range(k)] for _ in range(k)])
    Md = np.array([[dyadic_c(rng) for _ in range(4)] for _ in range(4)])
    for wh in ('row', 'col'):
        M1 = Ms.copy()
        gr.givens_rotate(M1, G1, 0, 1, which=wh)
        M2 = Md.copy()
        gr.double_givens_rotate(M2, G1, 0, 1, which=wh)
        ncmp += 2
        if err(M1 - ref_rotate(Ms, Gc, 0, 1, wh)) > TOL or err(M2 - ref_double_rotate(Md, Gc, 0, 1, wh)) > TOL:
            out.append(('givens_rotate / double_givens_rotate (%s) with the matrix of givens_matrix_elements does not follow '
                        'its definition' % wh, {}))
        if not (np.array_equal(G1, snap) and G1.dtype == dt):
            out.append(('givens_rotate / double_givens_rotate (%s) modified the rotation matrix it was given' % wh,
                        {'before': impl_summary(snap), 'after': impl_summary(G1)}))
            break
    G2 = gr.givens_matrix_elements(a, b, which=which)
    if not np.array_equal(G2, snap):
        out.append(('a second givens_matrix_elements(a, b) differs from the first after the helpers were applied',
                    {'first': impl_summary(snap), 'second': impl_summary(G2)}))
    if np.shares_memory(G2, G1):
        out.append(('givens_matrix_elements returned an array sharing memory with an earlier result', {}))
    G1[...] = 7
    G3 = gr.givens_matrix_elements(a, b, which=which)
    if not np.array_equal(G3, snap) or np.shares_memory(G3, G1) or np.shares_memory(G3, G2):
        out.append(('givens_matrix_elements(a, b) changed after an earlier result was overwritten in place',
                    {'first': impl_summary(snap), 'third': impl_summary(G3)}))
    # (2) the decomposition itself, under the reconstruction oracle
    if fn == 'square':
        bad, val, rq = oracle_square(of, A, False)
        rqs = [rq]
    elif fn == 'givens':
        bad, val, rq = oracle_givens(of, A, False)
        rqs = [rq]
    else:
        bad, val, rqs = oracle_gauss(of, A)
    if bad:
        out.append(('%s after the helper history: %s' % (fn, bad), {'returned': impl_summary(val)}))
    # and the helper once more after the decomposition
    G4 = gr.givens_matrix_elements(a, b, which=which)
    if not np.array_equal(G4, snap):
        out.append(('givens_matrix_elements(a, b) differs after the decomposition ran', {}))
    return out, rqs, ncmp


def run_definition(of, cc):
    """a rotation helper against its definition, exactly (dyadic complex G and M); returns a list of problems"""
    gr = of.linalg.givens_rotations
    G, M = cmat(cc['G']), cmat(cc['M'])
    G0 = G.copy()
    wh, i, j = cc['which'], cc['i'], cc['j']
    M1 = M.copy()
    out = []
    if cc.get('double'):
        ret = gr.double_givens_rotate(M1, G, i, j, which=wh)
        want = ref_double_rotate(M, G0, i, j, wh)
        name = 'double_givens_rotate'
    else:
        ret = gr.givens_rotate(M1, G, i, j, which=wh)
        want = ref_rotate(M, G0, i, j, wh)
        name = 'givens_rotate'
    if not np.array_equal(M1, want) or ret is not None:
        out.append('%s(which=%s) differs from its definition (coordinates %d, %d)' % (name, wh, i, j))
    if not np.array_equal(G, G0):
        out.append('%s(which=%s) modified the matrix G it was given' % (name, wh))
    return out


def stream_helpers(ctx):
    s = Stream('helpers', '(S) histories that interleave the public helpers with the decompositions: G = givens_matrix_elements(a, b) '
               'for the genuinely complex (a, b) the decomposition will use first, G handed to givens_rotate / double_givens_rotate '
               '(row and col) on scratch matrices - G must stay bit-identical, a second givens_matrix_elements(a, b) must return an '
               'equal array that shares no memory with the first, also after the first was overwritten - then the decomposition '
               'with the reconstruction oracle; helpers against their definitions (exact, dyadic complex G and M, written in '
               'place into M only); distinct = distinct histories')
    of = ctx.of
    rng = rng_for(ctx.seed, 'c11-helpers')
    N = budget(ctx.tier, 120, 900)
    if ctx.drift:
        N = max(N, 400)
    spec_batch = []
    for t in range(N):
        fn = rng.choice(['square', 'givens', 'gauss'])
        n = rng.choice([2, 3, 3, 4])
        if fn == 'gauss':
            for _ in range(12):
                W = gen_gauss_exact(rng, n, rng.choice(['group', 'group', 'bcs']))
                if zrank([r[:n] for r in W]) == n:
                    break
            else:
                continue
            A = znp(W, 2 * n)
            a, b, which = A[0, 0], A[1, 0], 'left'
        else:
            U = rand_unitary(rng, n, rng.choice(['dense', 'mixed', 'block', 'dense']))
            if rng.random() < 0.5:
                U = from_schedule(rng, ctx.driver, n, False)
            m = n if fn == 'square' else rng.randint(2, n)
            A = znp(U[:m], n)
            if fn == 'square':
                a, b, which = np.conj(A[0, n - 2]), np.conj(A[0, n - 1]), 'right'
            else:
                a, b, which = A[0, n - 1], A[1, n - 1], 'left'
        cplx = bool(abs(a.imag) > 1e-3 or abs(b.imag) > 1e-3)
        c = {'history': True, 'fn': fn, 'which': which, 'a': [float(a.real), float(a.imag)], 'b': [float(b.real), float(b.imag)],
             'matrix': cpairs(A), 'scratch': rng.randrange(10 ** 9)}
        s.case(c)
        s.count('fn:' + fn)
        s.count('complex-ab:%s' % cplx)
        try:
            out, rqs, ncmp = run_history(of, c)
            s.float_comparisons += ncmp
            s.count('oracle:reconstruction')
            for what, detail in out:
                s.violate(what, c, detail)
            for rq in rqs:
                add_spec(s, spec_batch, c, rq)
        except Exception as e:
            s.violate('helper history raised %s: %s' % (type(e).__name__, e), c, {})
        # (3) helpers against their definitions, exactly, for dyadic complex G (not unitary on purpose) and M
        G = [[dyadic_c(rng), dyadic_c(rng)], [dyadic_c(rng), dyadic_c(rng)]]
        rows, cols = rng.choice([(3, 4), (4, 4), (4, 6), (6, 4)])
        M = [[dyadic_c(rng) for _ in range(cols)] for _ in range(rows)]
        for wh in ('row', 'col'):
            for double in (False, True):
                lim = rows if wh == 'row' else cols
                if double:
                    if lim % 2:
                        continue
                    lim //= 2
                i, j = rng.sample(range(lim), 2)
                cc = {'definition': True, 'G': cpairs(G), 'M': cpairs(M), 'which': wh, 'i': i, 'j': j, 'double': double}
                s.case(cc)
                s.count('definition:%s%s' % ('double-' if double else '', wh))
                try:
                    s.float_comparisons += 1
                    for what in run_definition(of, cc):
                        s.violate(what, cc, {})
                except Exception as e:
                    s.violate('rotation helper (%s) raised %s: %s' % (wh, type(e).__name__, e), cc, {})
    answers = ctx.driver.run([r for _, r, _ in spec_batch])
    for (case, rq, _), a_ in zip(spec_batch, answers):
        if not a_['ok']:
            s.violate('%s: layer structure violated at layer %d' % (case['fn'], a_['layer']), case, {'layers': rq['layers']})
    return s


# --------------------------------------------------------------------------- streams


def stream_schedule(ctx):
    s = Stream('schedule', 'generic (Haar / random Bogoliubov) inputs of every shape m <= n <= NMAX and N <= NMAX: '
               'returned index pairs per layer == Lean schedule (exact) and reconstruction + structure oracles; '
               'distinct = distinct shapes x function')
    of = ctx.of
    nmax = budget(ctx.tier, 9, 14)
    nprng = np.random.default_rng(rng_for(ctx.seed, 'c11-haar').getrandbits(32))
    dr = ctx.driver
    spec_batch = []

    def one(fn, m, n):
        case = {'fn': fn, 'shape': [m, n]}
        s.case(case)
        s.count('fn:' + fn)
        try:
            if fn == 'square':
                Q = haar(nprng, n)
                bad, val, rq = oracle_square(of, Q, False)
                impl = [[[int(o[0]), int(o[1])] for o in l] for l in val[0]]
                sched = dr.one({'op': 'c11.schedule', 'kind': 'square', 'n': n})
                model = [[[j - 1, j] for (_, j) in l] for l in sched if l]
                rqs = [rq]
            elif fn == 'givens':
                Q = haar(nprng, n)[:m]
                bad, val, rq = oracle_givens(of, Q, False)
                impl = [[[int(o[0]), int(o[1])] for o in l] for l in val[0]]
                sched = dr.one({'op': 'c11.schedule', 'kind': 'givens', 'm': m, 'n': n}) if m != n else []
                model = [[[j - 1, j] for (_, j) in l] for l in sched if l]
                rqs = [rq]
            else:
                Q = haar_gauss(nprng, m)
                bad, val, rqs = oracle_gauss(of, Q)
                # whether a particle-hole transformation is needed in an even layer depends on the input
                # (parity of the Bogoliubov transformation): only the rotations are compared here
                impl = [[[int(o[0]), int(o[1])] for o in l if not isinstance(o, str)] for l in val[0]]
                impl = [l for l in impl if l]
                sched = dr.one({'op': 'c11.schedule', 'kind': 'gauss', 'n': m})
                model = [[[j, j + 1] for (_, j) in l] for l in sched if l]
        except Exception as e:
            s.violate('%s raised %s on a generic input: %s' % (fn, type(e).__name__, e), case, {})
            return
        case['matrix'] = [[[float(x.real), float(x.imag)] for x in r] for r in Q]
        if bad:
            s.violate('%s: %s' % (fn, bad), case, {'returned': impl_summary(val)})
        if impl != model:
            s.disagree('schedule (index pairs per layer)', case, impl, model)
        for rq in rqs:
            add_spec(s, spec_batch, case, rq)
    for n in list(range(1, nmax + 1)) + [17]:
        one('square', n, n)
        for m in (range(1, n + 1) if n <= nmax else (1, 8, 16, 17)):
            one('givens', m, n)
        one('gauss', n, 2 * n)
    answers = dr.run([r for _, r, _ in spec_batch])
    for (case, rq, _), a in zip(spec_batch, answers):
        s.count('oracle:structure')
        if not a['ok']:
            s.violate('%s: layer structure (adjacent / disjoint / depth %d) violated at layer %d'
                      % (case['fn'], rq['depth'], a['layer']), case, {'layers': rq['layers']})
    s.exhaustive = False
    return s


ELEM_VALUES = None


def elem_values():
    global ELEM_VALUES
    if ELEM_VALUES is None:
        pairs = []
        units = PHASES
        for (p, q) in [(3, 4), (4, 3), (5, 12), (12, 5), (8, 15), (1, 0), (0, 1), (0, 0), (1, 1), (2, 3)]:
            for u1 in units:
                for u2 in units:
                    for sc in (F(1), F(1, 5)):
                        pairs.append((Z(p * sc) * u1, Z(q * sc) * u2))
        seen = set()
        out = []
        for a, b in pairs:
            key = (a.re, a.im, b.re, b.im)
            if key not in seen:
                seen.add(key)
                out.append((a, b))
        ELEM_VALUES = out
    return ELEM_VALUES


def stream_elements(ctx):
    s = Stream('elements', 'givens_matrix_elements(a, b, which) for (a, b) = (p u1, q u2) s with (p, q) Pythagorean legs, zero, or '
               'irrational-hypotenuse pairs, u1, u2 among 7 unit phases with rational parts, s in {1, 1/5}, which in {left, right}: '
               'Model (1e-9) and oracle (G unitary, promised zero, (theta, phi) rebuild G); '
               'distinct = distinct (a, b, which)')
    of = ctx.of
    gme = of.linalg.givens_matrix_elements
    cases = [(a, b, right) for (a, b) in elem_values() for right in (False, True)]
    models = model_runs(ctx, [{'op': 'c11.elems', 'a': a.j(), 'b': b.j(), 'right': right} for a, b, right in cases])
    for (a, b, right), (mo, decided) in zip(cases, models):
        case = {'a': [str(a.re), str(a.im)], 'b': [str(b.re), str(b.im)], 'which': 'right' if right else 'left'}
        s.case(case)
        # numpy scalars of a complex matrix, as the decompositions pass them
        arr = np.array([a.c(), b.c()], dtype=complex)
        try:
            G = gme(arr[0], arr[1], which='right' if right else 'left')
        except Exception as e:
            s.violate('givens_matrix_elements raised %s' % type(e).__name__, case, {})
            continue
        # oracle: unitary, zeroes the promised entry, (theta, phi) reproduce G
        Gc = np.array(G, dtype=complex)
        v = Gc @ arr
        z = v[1] if right else v[0]
        theta = np.arcsin(np.real(G[1, 0]))
        phi = np.angle(G[1, 1])
        R = np_rot(2, 0, 1, theta, phi)
        s.float_comparisons += 3
        if err(Gc @ Gc.conj().T - np.eye(2)) > TOL:
            s.violate('G is not unitary', case, {'G': impl_summary(Gc)})
        elif abs(z) > TOL:
            s.violate('G (a, b)^T does not have the promised zero', case, {'G': impl_summary(Gc), 'image': impl_summary(v)})
        elif err(R - Gc) > TOL:
            s.violate('the rotation rebuilt from (theta, phi) differs from G', case,
                      {'G': impl_summary(Gc), 'theta': float(theta), 'phi': float(phi)})
        if isinstance(mo, dict) and 'error' in mo:
            s.discards += 1
            s.count('model:undefined(irrational)')
            continue
        if not decided:
            s.discards += 1
            continue
        s.count('branch:%s/%s/%s' % ('a=0' if a.is_zero() else 'b=0' if b.is_zero() else 'generic',
                                    'real' if a.im == 0 and b.im == 0 else 'complex', 'right' if right else 'left'))
        Gm = np.array([gq_c(x) for x in mo['G']]).reshape(2, 2)
        s.float_comparisons += 7
        if err(Gm - Gc) > TOL:
            s.disagree('matrix elements', case, impl_summary(Gc), impl_summary(Gm))
            continue
        sm, cm, em = mo['sin'][0] / mo['sin'][1], mo['cos'][0] / mo['cos'][1], gq_c(mo['eiphi'])
        if abs(math.sin(theta) - sm) > TOL or abs(math.cos(theta) - cm) > TOL or abs(np.exp(1j * phi) - em) > TOL:
            s.disagree('(theta, phi)', case, [float(theta), float(phi)], [sm, cm, [em.real, em.imag]])
        # signed zero of G[1,1] (decides phi)
        if mo['negzero'] != bool(G[1, 1] == 0 and np.signbit(np.real(G[1, 1])) and not np.iscomplexobj(G)):
            s.disagree('signed zero of G[1,1]', case, repr(G[1, 1]), mo['negzero'])
    s.exhaustive = True
    return s


def stream_structured(ctx):
    s = Stream('structured', 'exact structured inputs (signed/complex permutations, identity, antidiagonal, block diagonal, '
               'products of Pythagorean rotations, schedule-generated dense matrices, real matrices, row selections, '
               'BCS-like pairing, permutation-like and group-generated Bogoliubov matrices, inadmissible inputs), '
               'always_insert in {False, True}: Model comparison (indices exact, parameters / V / diagonals 1e-9) and '
               'reconstruction + structure oracles; distinct = distinct (function, matrix, always_insert)')
    rng = rng_for(ctx.seed, 'c11-structured')
    nsq = budget(ctx.tier, 250, 5000)
    ngi = budget(ctx.tier, 400, 8000)
    nga = budget(ctx.tier, 450, 9000)
    if ctx.drift:
        nsq, ngi, nga = max(nsq, 500), max(ngi, 800), max(nga, 900)
    cases = []
    for _ in range(nsq):
        n = rng.choice([1, 2, 2, 3, 3, 4, 4, 5, 6])
        r = rng.random()
        if r < 0.25 and n <= 5:
            real = rng.random() < 0.4
            Q = from_schedule(rng, ctx.driver, n, real)
            kind = 'schedule-' + ('real' if real else 'complex')
        else:
            kind = rng.choice(KINDS)
            Q = rand_unitary(rng, n, kind)
        cases.append({'fn': 'square', 'M': Q, 'ncols': n, 'ai': rng.random() < 0.3, 'kind': kind})
    for _ in range(ngi):
        n = rng.choice([1, 2, 3, 3, 4, 4, 5, 5, 6])
        m = rng.randint(1, n)
        r = rng.random()
        if r < 0.2 and n <= 5:
            real = rng.random() < 0.4
            U = from_schedule(rng, ctx.driver, n, real)
            kind = 'schedule-' + ('real' if real else 'complex')
        else:
            kind = rng.choice(KINDS)
            U = rand_unitary(rng, n, kind)
        rows = list(range(n))
        if rng.random() < 0.5:
            rng.shuffle(rows)
        Q = [U[r_] for r_ in rows[:m]]
        if rng.random() < 0.25 and m >= 2:
            # mix the selected rows by an exact m x m unitary (keeps the rows orthonormal)
            Q = zmul(rand_unitary(rng, m, rng.choice(['dense', 'block', 'perm'])), Q)
        cases.append({'fn': 'givens', 'M': Q, 'ncols': n, 'ai': rng.random() < 0.3, 'kind': kind})
    # m > n : ValueError on both sides
    cases.append({'fn': 'givens', 'M': [[ONE], [ONE]], 'ncols': 1, 'ai': False, 'kind': 'm>n', 'admissible': False})
    for _ in range(nga):
        n = rng.choice([1, 2, 2, 3, 3, 3, 4, 4])
        kind = rng.choice(['bcs', 'permlike', 'group', 'group', 'realgroup', 'weak', 'weak'])
        if kind == 'weak' and n < 2:
            n = rng.choice([2, 3, 4])
        W = gen_gauss_exact(rng, n, kind)
        if kind == 'weak':
            # weak-pairing inputs must lie OUTSIDE the F11 class: the left block is nearly, but not exactly, singular
            for _try in range(30):
                if zrank([r[:n] for r in W]) == n:
                    break
                W = gen_gauss_exact(rng, n, kind)
        cases.append({'fn': 'gauss', 'M': W, 'ncols': 2 * n, 'ai': False, 'kind': kind,
                      'singular': zrank([r[:n] for r in W]) < n})
    # inadmissible inputs: error kind only
    cases.append({'fn': 'gauss', 'M': [[ONE, ONE]], 'ncols': 2, 'ai': False, 'kind': 'inadmissible', 'admissible': False,
                  'singular': False})
    cases.append({'fn': 'gauss', 'M': [[ONE, ZERO, ZERO]], 'ncols': 3, 'ai': False, 'kind': 'inadmissible',
                  'admissible': False, 'singular': False})
    cases.append({'fn': 'gauss', 'M': [[Z(F(3, 5)), ZERO, ZERO, Z(F(4, 5))], [ZERO, Z(F(3, 5)), Z(F(4, 5)), ZERO]],
                  'ncols': 4, 'ai': False, 'kind': 'inadmissible', 'admissible': False, 'singular': False})
    check_cases(ctx, s, cases)
    return s


# --------------------------------------------------------------------------- entry points

F11_WITNESS = [[ZERO, ZERO, ZERO, ONE], [ZERO, ZERO, ONE, ZERO]]


def classify(v):
    """F11: fermionic_gaussian_decomposition on an admissible W whose left N x N block is singular"""
    inp = v.get('input', {})
    if (inp.get('fn') == 'gauss' and inp.get('left_block_singular') is True and inp.get('all_pivots_nonzero') is not True
            and v.get('what', '').startswith('gauss: ')):
        return 'F11'
    return None


def probe_known(ctx, k):
    if k['id'] != 'F11':
        return False
    try:
        bad, _, _ = oracle_gauss(ctx.of, znp(F11_WITNESS))
    except Exception:
        return True
    return bad is not None


def replay(ctx, payload):
    v = payload.get('violation')
    if not v:
        return None
    inp = v['input']
    try:
        if inp.get('definition'):
            return not run_definition(ctx.of, inp)
        if inp.get('history'):
            return not run_history(ctx.of, inp)[0]
    except Exception:
        return False
    if 'matrix' not in inp or 'fn' not in inp:
        return None

    def parse(x):
        if isinstance(x, (list, tuple)):
            return complex(x[0], x[1])
        if isinstance(x, (int, float)):
            return complex(x)
        x = x.strip()
        if x.endswith('j'):
            # "re+imj" with fractions
            body = x[:-1]
            k = max(body.rfind('+'), body.rfind('-'))
            re_, im_ = body[:k], body[k:]
            return complex(float(F(re_)), float(F(im_)))
        return complex(float(F(x)))
    M = np.array([[parse(x) for x in r] for r in inp['matrix']], dtype=complex)
    try:
        if inp['fn'] == 'square':
            bad, _, _ = oracle_square(ctx.of, M, inp.get('always_insert', False))
        elif inp['fn'] == 'givens':
            bad, _, _ = oracle_givens(ctx.of, M, inp.get('always_insert', False))
        else:
            bad, _, _ = oracle_gauss(ctx.of, M, WEAK_TOL if inp.get('kind') == 'weak' else TOL)
    except Exception:
        return False
    return bad is None


def run(ctx):
    return [stream_schedule(ctx), stream_elements(ctx), stream_structured(ctx), stream_robust(ctx), stream_helpers(ctx)]
