"""C05 — Bravyi-Kitaev family: correspondence of the real `bravyi_kitaev` (FermionOperator, MajoranaOperator,
InteractionOperator paths, `_seeley_richard_love`, the three Fenwick index sets) and `bravyi_kitaev_tree`
(FenwickTree) with the Lean Model (OFV.Model.C05) on the same inputs, compared exactly, plus the Spec oracles of
OFV.Spec.C05 on the implementation's outputs:
  c05.bk_check    Q |enc s> = enc(A |s>) for every occupation mask s < 2^n (phases included), enc the parity-of-
                  interval encoding defined arithmetically (Fenwick) / by bisection (tree);
  c05.sets_check  the parity / occupation / update sets tile [0,j), [lo j, j] and are the qubits storing j."""
import importlib
import itertools

import numpy

from common import (Stream, budget, enc_op, canon_op_json, to_gq, rng_for)
from c04 import (canon_nz, is_canonical_qubit, rand_coeff, call, rand_fermion_op, rand_majorana_op, modes_of,
                 rand_hermitian_iop, flat, noncanonical, elementwise_hermitian)

TRUSTED = []
ASSUMPTIONS = [
    'coefficients are dyadic Gaussian rationals with small numerators, on which IEEE double arithmetic of the '
    'modelled code is exact (checked: exact rational comparison with the Model)',
    'InteractionOperators are Hermitian (two_body[p,q,r,s] = conj(two_body[s,r,q,p]), no further symmetry)',
    'Python set iteration order does not reach any result: every QubitOperator(term) sorts its factors stably and '
    'equal indices only come from different pads (the Model uses sorted lists)',
]
OPEN_STATEMENTS = [
    'bk_exact / bk_majorana_exact / tree_exact are proved under the decidable hypothesis "exact regime" (no non-zero value deleted '
    'by the |v| < EQ_TOLERANCE test of +=), evaluated by the Model on every generated input (distribution key '
    'theorem-hypothesis exact-regime); the term-level theorems bk_term_exact / bk_majorana_term_exact / tree_term_exact are unconditional',
    'srl_sound / srl_sound_case_0 .. srl_sound_case_10 (every branch of _seeley_richard_love denotes c a_i^dagger a_j under the '
    'encoding, all n, all i,j < n) ARE theorems, under the decidable exact-regime hypothesis srlOk (no tolerance deletion in '
    '_qubit_operator_creation), evaluated by the driver on every generated (i, j, c, n)',
    'bk_interaction_sound / bk_interaction_support / bk_interaction_matches_fermion_path (the InteractionOperator path, '
    'cases A-D, denotes the tensor formula under the encoding for every tensor size N and every n_qubits >= N, for every '
    'tensor pair denoting a Hermitian operator, element-wise Hermitian storage not required) ARE theorems, under the decidable '
    'exact-regime hypothesis bkInteractionOpOk (every += and every _qubit_operator_creation deleted only exact zeros), '
    'evaluated by the driver on every generated tensor',
    'bravyi_kitaev_fast (bksf.py): edge_operator_b / edge_operator_aij are modelled (exact correspondence for every vertex and '
    'every oriented edge of seeded graphs) and the edge algebra IS a theorem for every graph without loops (bksf_b_commute, '
    'bksf_a_b_relation, bksf_a_square_antisymmetric, bksf_a_a_relation) and is re-checked exactly on the implementation\'s '
    'outputs; NOT modelled / not proved: bravyi_kitaev_fast_edge_matrix, _one_body, _two_body, the assembled Hamiltonian '
    '(its equivalence with the fermionic one on the stabiliser subspace), vacuum_operator, number_operator',
    'tree_term_support / tree_car_ann / tree_number_diagonal / tree_equiv_bk ARE theorems (the tree variant has no statement '
    'left to the oracle only)',
    'isospectrality with Jordan-Wigner / preservation of expectation values are not restated: they follow from bk_exact / '
    'tree_exact + injectivity of enc (the transformed operator is JW conjugated by the relabelling enc); CAR, diagonal '
    'number operators and the vacuum ARE theorems (bk_car, bk_car_ann, bk_number_diagonal, bk_vacuum, tree_car)',
]


class Batch:
    def __init__(self, ctx, stream):
        self.ctx, self.stream = ctx, stream
        self.items = []
        self.regime = []

    def add(self, what, case, impl, model_req, oracle_req=None, cmp=None, regime_req=None):
        self.items.append((what, case, impl, model_req, oracle_req, cmp))
        if regime_req is not None:
            self.regime.append(regime_req)

    def flush(self):
        st = self.stream
        its, self.items = self.items, []
        if self.regime:
            # the decidable hypothesis of bk_exact, evaluated by the Model on this very input
            for ok in self.ctx.driver.run(self.regime):
                st.count('theorem-hypothesis exact-regime: %s' % ('holds' if ok else 'fails (tolerance deletion)'))
            self.regime = []
        if not its:
            return
        answers = self.ctx.driver.run([it[3] for it in its])
        for (what, case, impl, _, _, cmp), mo in zip(its, answers):
            if cmp is not None:
                cmp(st, what, case, impl, mo)
            else:
                if canon_op_json(impl) != canon_op_json(mo):
                    st.disagree(what + ': terms differ', case, impl, mo)
                if not is_canonical_qubit(impl):
                    st.violate(what + ': result not a canonical QubitOperator', case, {'terms': impl})
        oreqs = [(it[0], it[1], it[4]) for it in its if it[4] is not None]
        if oreqs:
            oans = self.ctx.driver.run([r for _, _, r in oreqs])
            for (what, case, r), a in zip(oreqs, oans):
                st.count('oracle:checked')
                if r['op'] == 'c05.sets_check':
                    if a is not True:
                        st.violate(what + ': index sets are not the tiling / storing sets of the encoding (Spec)',
                                   case, {'request': r})
                elif not a['eq']:
                    st.violate(what + ': Q|enc s> != enc(A|s>) (Spec)', case,
                               {'witness_state': a['state'], 'encoded_state': a['encoded'], 'spec': a['spec'],
                                'implementation': a['implementation'], 'request': r})


def too_many_timeouts(st):
    return sum(1 for v in st.violations if 'did not return within' in v['what']) >= 3


def oracle(variant, alg, n, A, Q):
    return {'op': 'c05.bk_check', 'variant': variant, 'alg': alg, 'n': n, 'A': A, 'Q': Q}


def mods(ctx):
    bk = importlib.import_module('openfermion.transforms.opconversions.bravyi_kitaev')
    bkt = importlib.import_module('openfermion.transforms.opconversions.bravyi_kitaev_tree')
    fw = importlib.import_module('openfermion.transforms.opconversions.fenwick_tree')
    return bk, bkt, fw


# ---------------------------------------------------------------- index sets

def stream_sets(ctx):
    bk, bkt, fw = mods(ctx)
    st = Stream('index-sets', '_update_set / _occupation_set / _parity_set for every index j < n, every n <= N '
                '(N = 40 quick, 64 thorough, so all non-powers of two below N) and the FenwickTree update / children / '
                'remainder / parity sets for every j < n <= Nt; Model compared exactly (as sets); Spec '
                'oracle: the sets tile [0,j) / [lo j, j] and are exactly the qubits storing j; distinct = (variant,n,j)')
    b = Batch(ctx, st)
    N = budget(ctx.tier, 40, 64)
    Nt = budget(ctx.tier, 24, 40)

    def cmp_sets(st_, what, case, impl, mo):
        # compared as sets: the order in which a set is listed is not part of the property
        if {k: sorted(v) for k, v in impl.items()} != {k: sorted(v) for k, v in mo.items()}:
            st_.disagree(what + ': sets differ', case, impl, mo)
        if any(len(set(v)) != len(v) for v in impl.values()):
            st_.violate(what + ': an index occurs twice in a set', case, impl)
    for n in range(1, N + 1):
        for j in range(n):
            case = {'fn': '_update_set/_occupation_set/_parity_set', 'n': n, 'index': j}
            st.case(case)
            st.count('bk-sets')
            ok, r = call(st, 'index sets', case, lambda: {
                'update': sorted(bk._update_set(j, n)), 'occupation': sorted(bk._occupation_set(j)),
                'parity': sorted(bk._parity_set(j))})
            if not ok:
                continue
            b.add('Fenwick index sets', case, r, {'op': 'c05.sets', 'index': j, 'n': n},
                  {'op': 'c05.sets_check', 'variant': 'bk', 'n': n, 'index': j, **r}, cmp=cmp_sets)
    b.flush()
    for n in range(1, Nt + 1):
        ok, tree = call(st, 'FenwickTree', {'n': n}, lambda: fw.FenwickTree(n))
        if not ok:
            continue
        for j in range(n):
            case = {'fn': 'FenwickTree.get_*_set', 'n': n, 'index': j}
            st.case(case)
            st.count('tree-sets')
            ok, r = call(st, 'tree sets', case, lambda: {
                'update': [x.index for x in tree.get_update_set(j)],
                'children': [x.index for x in tree.get_children_set(j)],
                'remainder': [x.index for x in tree.get_remainder_set(j)],
                'parity': [x.index for x in tree.get_parity_set(j)]})
            if not ok:
                continue
            b.add('FenwickTree sets', case, r, {'op': 'c05.tree_sets', 'index': j, 'n': n},
                  {'op': 'c05.sets_check', 'variant': 'tree', 'n': n, 'index': j, 'update': r['update'],
                   'parity': r['parity'], 'occupation': [j] + r['children']}, cmp=cmp_sets)
    b.flush()
    st.exhaustive = True
    return st


# ---------------------------------------------------------------- ladder / Majorana images

def stream_ladder(ctx):
    of = ctx.of
    bk, bkt, fw = mods(ctx)
    st = Stream('ladder-images', 'bravyi_kitaev and bravyi_kitaev_tree of every single ladder operator a_j, a_j^dagger '
                'and bravyi_kitaev of every Majorana operator, for every j < n, every n <= N (N = 24 quick, 48 '
                'thorough); Model compared exactly; Spec oracle on all 2^n occupation masks for n <= 9; '
                'distinct = (variant, n, operator)')
    b = Batch(ctx, st)
    N = budget(ctx.tier, 24, 48)
    if ctx.drift:
        N = max(N, 28)
    for n in range(1, N + 1):
        for j in range(n):
            for a in (0, 1):
                A = of.FermionOperator(((j, a),))
                jA = enc_op('fermion', A.terms)
                for variant, fn, mop in (('bk', of.transforms.bravyi_kitaev, 'c05.fermion'),
                                         ('tree', of.transforms.bravyi_kitaev_tree, 'c05.tree')):
                    case = {'fn': variant, 'n_qubits': n, 'fermion': jA}
                    st.case(case)
                    st.count('ladder:' + variant)
                    ok, Q = call(st, variant + '(ladder)', case, lambda: fn(A, n))
                    if not ok:
                        continue
                    jQ = enc_op('qubit', Q.terms)
                    b.add(variant + '(ladder)', case, jQ, {'op': mop, 'n': n, 'A': jA},
                          oracle(variant, 'fermion', n, ['op', jA], jQ) if n <= 9 else None)
                    if len(Q.terms) != 2:
                        st.violate('ladder image does not have two Pauli strings', case, {'terms': jQ})
                m = 2 * j + a
                M = of.MajoranaOperator((m,))
                jM = enc_op('majorana', M.terms)
                case = {'fn': 'bk', 'n_qubits': n, 'majorana': jM}
                st.case(case)
                st.count('majorana:bk')
                ok, Q = call(st, 'bravyi_kitaev(majorana)', case, lambda: of.transforms.bravyi_kitaev(M, n))
                if ok:
                    jQ = enc_op('qubit', Q.terms)
                    b.add('bravyi_kitaev(majorana)', case, jQ, {'op': 'c05.majorana', 'n': n, 'A': jM},
                          oracle('bk', 'majorana', n, ['op', jM], jQ) if n <= 9 else None)
        if len(b.items) > 3000:
            b.flush()
    b.flush()
    st.exhaustive = True
    return st


# ---------------------------------------------------------------- Seeley-Richard-Love

def stream_srl(ctx):
    bk, bkt, fw = mods(ctx)
    st = Stream('seeley-richard-love', '_qubit_operator_creation(*_seeley_richard_love(i, j, c, n)) for ALL i, j < n, '
                'all n <= N (N = 16 quick, 30 thorough) with a complex dyadic coefficient; Model compared exactly (the '
                'Model reports which of the cases 0-10 fired: histogram in the distribution; case 11 = no branch); Spec '
                'oracle (n <= 8, and n <= 11/12 for the rare odd-odd cases 7-10): the result acts like c a_i^dagger a_j under the encoding; distinct = (n,i,j,c)')
    b = Batch(ctx, st)
    rng = rng_for(ctx.seed, 'c05-srl')
    N = budget(ctx.tier, 16, 30)
    NO = budget(ctx.tier, 11, 12)   # oracle bound for the rare odd-odd cases 7-10
    if ctx.drift:
        N = max(N, 18)
        NO = 12

    def cmp_srl(st_, what, case, impl, mo):
        st_.count('case:%d' % mo['case'])
        if mo['case'] == 11:
            st_.count('no-branch')
        if canon_op_json(impl['op']) != canon_op_json(mo['op']):
            st_.disagree(what + ': terms differ', case, impl, mo)
    for n in range(1, N + 1):
        for i in range(n):
            for j in range(n):
                c = rand_coeff(rng, 'complex') if (i + j + n) % 3 else rand_coeff(rng)
                case = {'fn': '_seeley_richard_love', 'i': i, 'j': j, 'n_qubits': n, 'coef': to_gq(c)}
                st.case(case)

                def run():
                    ops, coefs = bk._seeley_richard_love(i, j, c, n)
                    return len(ops), bk._qubit_operator_creation(ops, coefs)
                ok, r = call(st, '_seeley_richard_love', case, run)
                if not ok:
                    continue
                n_ops, Q = r
                jQ = enc_op('qubit', Q.terms)
                if n_ops == 0:
                    st.violate('_seeley_richard_love returned no strings (no branch of the elif chain fired)', case, {})
                b.add('_seeley_richard_love', case, {'op': jQ, 'n_ops': n_ops},
                      {'op': 'c05.srl', 'i': i, 'j': j, 'coef': to_gq(c), 'n': n},
                      oracle('bk', 'fermion', n, ['one_body_term', i, j, to_gq(c)], jQ)
                      if (n <= 8 or (n <= NO and i % 2 == 1 and j % 2 == 1 and i != j)) else None,
                      cmp=cmp_srl, regime_req={'op': 'c05.srl_ok', 'i': i, 'j': j, 'coef': to_gq(c), 'n': n})
        if len(b.items) > 3000:
            b.flush()
    b.flush()
    st.exhaustive = True
    return st


# ---------------------------------------------------------------- random operators

def is_pow2(n):
    return n > 0 and n & (n - 1) == 0


def stream_random(ctx):
    of = ctx.of
    st = Stream('random-operators', 'seeded random FermionOperators (<= 9 modes, <= 4 terms of length <= 5, repeated '
                'indices, complex dyadic coefficients) and MajoranaOperators through bravyi_kitaev and '
                'bravyi_kitaev_tree with n_qubits in {None, n, n+1, n+3}; Model compared exactly; Spec oracle on all '
                '2^n_qubits masks (n_qubits <= 9); products compared exactly with the product of the images; '
                'n_qubits below the operator size must raise ValueError; distinct = (operator, n_qubits)')
    b = Batch(ctx, st)
    rng = rng_for(ctx.seed, 'c05-random')
    n_ops = budget(ctx.tier, 160, 2500)
    if ctx.drift:
        n_ops = max(n_ops, 300)
    prev = None
    for k in range(n_ops):
        n_modes = rng.choice([1, 2, 3, 3, 4, 5, 5, 6, 6, 7, 7, 8, 9])
        A = rand_fermion_op(rng, of, n_modes, 4 if n_modes <= 6 else 2, 5 if n_modes <= 6 else 3)
        jA = enc_op('fermion', A.terms)
        size = modes_of(jA)
        nq = rng.choice([None, size, size + 1, size + 3])
        for variant, fn, mop in (('bk', of.transforms.bravyi_kitaev, 'c05.fermion'),
                                 ('tree', of.transforms.bravyi_kitaev_tree, 'c05.tree')):
            case = {'fn': variant, 'n_qubits': nq, 'fermion': jA}
            st.case(case)
            st.count('%s:n_qubits-size=%s' % (variant, 'None' if nq is None else nq - size))
            ok, Q = call(st, variant + '(FermionOperator)', case, lambda: fn(A, nq))
            if not ok:
                continue
            jQ = enc_op('qubit', Q.terms)
            n = size if nq is None else nq
            b.add(variant + '(FermionOperator)', case, jQ, {'op': mop, 'n': n, 'A': jA},
                  oracle(variant, 'fermion', n, ['op', jA], jQ) if n <= 9 else None,
                  regime_req={'op': 'c05.fermion_ok' if variant == 'bk' else 'c05.tree_ok', 'n': n, 'A': jA})
            if modes_of(jQ) > n:
                st.violate('result acts on more than n_qubits qubits', case, {'terms': jQ})
            if variant == 'bk' and prev is not None and prev[2] == n and len(A.terms) * len(prev[0].terms) <= 9:
                B, QB, _ = prev
                ok1, l = call(st, 'bk(A*B)', case, lambda: fn(A * B, n))
                ok2, r = call(st, 'bk(A)*bk(B)', case, lambda: Q * QB)
                st.count('corollary:product')
                if ok1 and ok2 and canon_nz(enc_op('qubit', l.terms)) != canon_nz(enc_op('qubit', r.terms)):
                    st.violate('bravyi_kitaev(A*B) != bravyi_kitaev(A)*bravyi_kitaev(B)',
                               {'A': jA, 'B': enc_op('fermion', B.terms), 'n_qubits': n},
                               {'lhs': enc_op('qubit', l.terms), 'rhs': enc_op('qubit', r.terms)})
            if variant == 'bk':
                prev = (A, Q, n)
            if size >= 2:
                try:
                    fn(A, size - 1)
                    st.violate('n_qubits below the operator size accepted', case, {'n_qubits': size - 1})
                except ValueError:
                    st.count('ValueError:n_qubits-too-small')
                except Exception as e:  # noqa
                    st.violate('n_qubits below the operator size raised %s' % type(e).__name__, case, {})
    b.flush()
    rng = rng_for(ctx.seed, 'c05-majorana')
    for k in range(budget(ctx.tier, 50, 500)):
        n_maj = rng.randint(1, 14)
        M = rand_majorana_op(rng, of, n_maj, 3, 5)
        jM = enc_op('majorana', M.terms)
        size = (modes_of(jM) + 1) // 2
        nq = rng.choice([None, size, size + 1, size + 2])
        case = {'fn': 'bk', 'n_qubits': nq, 'majorana': jM}
        st.case(case)
        st.count('majorana')
        ok, Q = call(st, 'bravyi_kitaev(MajoranaOperator)', case, lambda: of.transforms.bravyi_kitaev(M, nq))
        if not ok:
            continue
        jQ = enc_op('qubit', Q.terms)
        n = size if nq is None else nq
        b.add('bravyi_kitaev(MajoranaOperator)', case, jQ, {'op': 'c05.majorana', 'n': n, 'A': jM},
              oracle('bk', 'majorana', n, ['op', jM], jQ) if n <= 9 else None,
              regime_req={'op': 'c05.majorana_ok', 'n': n, 'A': jM})
        # the MajoranaOperator path agrees with the FermionOperator path
        ok, QF = call(st, 'bk(get_fermion_operator(M))', case,
                      lambda: of.transforms.bravyi_kitaev(of.transforms.get_fermion_operator(M), n))
        if ok and canon_nz(jQ) != canon_nz(enc_op('qubit', QF.terms)):
            st.violate('MajoranaOperator path differs from the FermionOperator path', case,
                       {'majorana_path': jQ, 'fermion_path': enc_op('qubit', QF.terms)})
    b.flush()
    return st


# ---------------------------------------------------------------- InteractionOperator

def stream_interaction(ctx):
    of = ctx.of
    st = Stream('interaction-operator', 'seeded random Hermitian InteractionOperators (real and complex, dense and '
                'sparse, N <= 4 quick / 5 thorough; 40% in NON-canonical storage: weight moved between the antisymmetry-'
                'related entries T[pqrs] / -T[qprs] / -T[pqsr] / T[qpsr], arbitrary values on p = q / r = s entries, so that '
                'only the denoted operator is Hermitian) through bravyi_kitaev with n_qubits in {None, N, N+1, N+3}; Model '
                'compared exactly; Spec oracle against the tensor formula written out term by term under the encoding '
                'on n_qubits; compared exactly with bravyi_kitaev(get_fermion_operator(.), n_qubits); plus sparse tensors with '
                'a guaranteed four-distinct-mode quartic entry, N in {4,5,6} (thorough also 9,10), n_qubits in N..N+3; '
                'distinct = (tensor, n_qubits)')
    b = Batch(ctx, st)
    rng = rng_for(ctx.seed, 'c05-iop')
    n_iop = budget(ctx.tier, 100, 900)
    if ctx.drift:
        n_iop = max(n_iop, 150)
    for k in range(n_iop):
        N = rng.choice([1, 2, 2, 3, 3, 3, 4, 4, 4] + ([5] if ctx.tier == 'thorough' and k % 5 == 0 else []))
        cplx = rng.random() < 0.6
        density = rng.choice([0.08, 0.3, 1.0]) if N >= 3 else rng.choice([0.5, 1.0])
        iop = rand_hermitian_iop(rng, of, N, cplx, density)
        storage = 'elementwise-hermitian'
        if N >= 2 and k % 5 in (1, 3):
            # the same Hermitian operator in non-canonical storage (weight moved between antisymmetry-related entries)
            noncanonical(rng, iop.two_body_tensor, cplx)
            storage = 'elementwise-hermitian' if elementwise_hermitian(iop.two_body_tensor) else 'non-canonical'
        st.count('iop:storage:' + storage)
        nq = rng.choice([None, N, N + 1, N + 3])
        one, two = flat(iop.one_body_tensor), flat(iop.two_body_tensor)
        const = to_gq(iop.constant)
        n = N if nq is None else nq
        case = {'fn': 'bravyi_kitaev', 'n_qubits': nq,
                'interaction_operator': {'N': N, 'constant': const, 'one': one, 'two': two}}
        st.case(case)
        st.count('iop:N=%d:%s:n_qubits-N=%s' % (N, 'complex' if cplx else 'real', 'None' if nq is None else nq - N))
        ok, Q = call(st, 'bravyi_kitaev(InteractionOperator)', case, lambda: of.transforms.bravyi_kitaev(iop, nq))
        if not ok:
            continue
        jQ = enc_op('qubit', Q.terms)
        b.add('bravyi_kitaev(InteractionOperator)', case, jQ,
              {'op': 'c05.iop', 'N': N, 'n': n, 'constant': const, 'one': one, 'two': two},
              oracle('bk', 'fermion', n, ['iop', N, const, one, two], jQ) if n <= 8 else None,
              regime_req={'op': 'c05.iop_ok', 'N': N, 'n': n, 'constant': const, 'one': one, 'two': two})
        ok, QF = call(st, 'bravyi_kitaev(get_fermion_operator(iop))', case,
                      lambda: of.transforms.bravyi_kitaev(of.transforms.get_fermion_operator(iop), n))
        if ok and canon_nz(jQ) != canon_nz(enc_op('qubit', QF.terms)):
            st.violate('InteractionOperator path differs from the FermionOperator path', case,
                       {'fast': jQ, 'fermion_path': enc_op('qubit', QF.terms)})
        if N >= 2:
            try:
                of.transforms.bravyi_kitaev(iop, N - 1)
                st.violate('n_qubits below the tensor size accepted', case, {'n_qubits': N - 1})
            except ValueError:
                st.count('ValueError:n_qubits-too-small')
            except Exception as e:  # noqa
                st.violate('n_qubits below the tensor size raised %s' % type(e).__name__, case, {})
    b.flush()

    # targeted: sparse tensors that are guaranteed to contain a two-body entry on FOUR DISTINCT modes, with
    # n_qubits above the tensor size (the double-excitation case D with modes whose Fenwick ancestors differ
    # only shows for N >= 5); the Spec operator is written out from the non-zero entries only (cheap oracle)
    rng = rng_for(ctx.seed, 'c05-quartic')
    sizes = [4, 5, 5, 6, 5, 6] + ([9, 10] if ctx.tier == 'thorough' else [])
    for k in range(budget(ctx.tier, 72, 500)):
        N = sizes[k % len(sizes)]
        cplx = rng.random() < 0.7
        one = numpy.zeros((N, N), dtype=complex)
        two = numpy.zeros((N, N, N, N), dtype=complex)
        n_terms = 1 if N >= 9 else rng.choice([1, 2, 2, 3])
        for t in range(n_terms):
            kind = 'quartic' if t == 0 and k % 3 != 2 else rng.choice(['quartic', 'number-excitation', 'coulomb',
                                                                         'random', 'number-excitation'])
            if kind == 'quartic':
                idx = tuple(rng.sample(range(N), 4))
            elif kind == 'number-excitation':      # n_i a_j^dagger a_k (case C)
                i3, j3, k3 = rng.sample(range(N), 3)
                idx = rng.choice([(i3, j3, k3, i3), (j3, i3, i3, k3), (i3, j3, i3, k3), (j3, i3, k3, i3)])
            elif kind == 'coulomb':                # n_i n_j (case B)
                i3, j3 = rng.sample(range(N), 2)
                idx = rng.choice([(i3, j3, j3, i3), (i3, j3, i3, j3)])
            else:
                idx = tuple(rng.randrange(N) for _ in range(4))
            st.count('sparse-entry:' + kind)
            partner = (idx[3], idx[2], idx[1], idx[0])
            from c04 import dy
            v = dy(rng, cplx and idx != partner)
            two[idx] = v
            two[partner] = numpy.conj(v)
        if rng.random() < 0.5:
            a, c = rng.sample(range(N), 2)
            v = dy(rng, cplx)
            one[a, c] = v
            one[c, a] = numpy.conj(v)
        if k % 5 in (1, 3):
            noncanonical(rng, two, cplx)
        st.count('quartic:storage:' + ('elementwise-hermitian' if elementwise_hermitian(two) else 'non-canonical'))
        iop = of.InteractionOperator(rng.choice([0.0, 0.5]), one, two)
        nq = N + rng.choice([0, 1, 2, 3, 1, 2])
        # the Spec operator, from the tensor entries directly
        A = [[[], to_gq(iop.constant)]]
        for (a, c), v in numpy.ndenumerate(one):
            if v != 0:
                A.append([[[a, 1], [c, 0]], to_gq(v)])
        for (a, c, d, e), v in numpy.ndenumerate(two):
            if v != 0:
                A.append([[[a, 1], [c, 1], [d, 0], [e, 0]], to_gq(v)])
        case = {'fn': 'bravyi_kitaev', 'n_qubits': nq, 'interaction_operator_sparse': {'N': N, 'terms': A}}
        st.case(case)
        st.count('quartic:N=%d:n_qubits-N=%d' % (N, nq - N))
        ok, Q = call(st, 'bravyi_kitaev(InteractionOperator)', case, lambda: of.transforms.bravyi_kitaev(iop, nq))
        if not ok:
            continue
        jQ = enc_op('qubit', Q.terms)
        b.add('bravyi_kitaev(InteractionOperator) quartic', case, jQ,
              {'op': 'c05.iop', 'N': N, 'n': nq, 'constant': to_gq(iop.constant), 'one': flat(one), 'two': flat(two)},
              oracle('bk', 'fermion', nq, ['op', A], jQ) if nq <= 10 else None,
              regime_req={'op': 'c05.iop_ok', 'N': N, 'n': nq, 'constant': to_gq(iop.constant), 'one': flat(one),
                          'two': flat(two)})
        ok, QF = call(st, 'bravyi_kitaev(get_fermion_operator(iop))', case,
                      lambda: of.transforms.bravyi_kitaev(of.transforms.get_fermion_operator(iop), nq))
        if ok and canon_nz(jQ) != canon_nz(enc_op('qubit', QF.terms)):
            st.violate('InteractionOperator path differs from the FermionOperator path', case,
                       {'fast': jQ, 'fermion_path': enc_op('qubit', QF.terms)})
    b.flush()
    return st




# ---------------------------------------------------------------- replay of a recorded failing input

def replay(ctx, payload):
    """True: the recorded input no longer fails; False: still fails; None: not replayable"""
    from common import gq_to_complex
    from c04 import _op_from_json, _arr, ERRS
    of = ctx.of
    bk, bkt, fw = mods(ctx)
    v = payload.get('violation')
    if not v:
        return None
    case, detail = v.get('input', {}), v.get('detail', {})
    req = detail.get('request')
    if not req:
        return None
    req = dict(req)
    try:
        fn = case.get('fn')
        if fn in ('bk', 'tree') and 'fermion' in case:
            f = of.transforms.bravyi_kitaev if fn == 'bk' else of.transforms.bravyi_kitaev_tree
            req['Q'] = enc_op('qubit', f(_op_from_json(of, 'fermion', case['fermion']), case['n_qubits']).terms)
        elif fn == 'bk' and 'majorana' in case:
            M = of.MajoranaOperator.from_dict({tuple(i for i, _ in t): gq_to_complex(c) for t, c in case['majorana']})
            req['Q'] = enc_op('qubit', of.transforms.bravyi_kitaev(M, case['n_qubits']).terms)
        elif fn == '_seeley_richard_love':
            ops, coefs = bk._seeley_richard_love(case['i'], case['j'], gq_to_complex(case['coef']), case['n_qubits'])
            req['Q'] = enc_op('qubit', bk._qubit_operator_creation(ops, coefs).terms)
        elif fn == 'bravyi_kitaev' and 'interaction_operator' in case:
            d = case['interaction_operator']
            N = d['N']
            iop = of.InteractionOperator(gq_to_complex(d['constant']), _arr(d['one'], (N, N)), _arr(d['two'], (N,) * 4))
            req['Q'] = enc_op('qubit', of.transforms.bravyi_kitaev(iop, case['n_qubits']).terms)
        elif fn == '_update_set/_occupation_set/_parity_set':
            j, n = case['index'], case['n']
            req.update({'update': sorted(bk._update_set(j, n)), 'occupation': sorted(bk._occupation_set(j)),
                        'parity': sorted(bk._parity_set(j))})
            return ctx.driver.one(req) is True
        else:
            return None
    except Exception:
        return False
    return bool(ctx.driver.one(req)['eq'])


# ---------------------------------------------------------------- hardening: State, Types, Bands, Asymmetry

def stream_hardening(ctx):
    import copy
    from c04 import (soft, twice, mutate_operator, herm_tensors, cast, ARRAY_KINDS, SCALARS, band_val, arrays_equal,
                     sparse_spec_op, rand_coeff as rc, is_complex_kind, COMPLEX_KINDS, QUARTIC_STORAGE, quartic_tensors,
                     elementwise_hermitian)
    of = ctx.of
    bk, bkt, fw = mods(ctx)
    BK = of.transforms.bravyi_kitaev
    BKT = of.transforms.bravyi_kitaev_tree
    st = Stream('hardening', '(S) every path is called twice around an in-place modification of its first result (operators, '
                'index sets, SRL lists, tree set lists), arguments are snapshotted before / after (including the tensors '
                'inside InteractionOperators), operators / tensors edited in place are re-transformed and compared with a '
                'freshly built equal object; (T) tensors as float64 / complex128 / complex64 / clongdouble / longdouble / '
                'float32 / int64 / int32 / Fortran-ordered arrays, every complex dtype with a guaranteed four-distinct-mode '
                'entry, a number-excitation entry and a hopping with non-zero imaginary parts (N = 4..6), SRL coefficients as Python int / float / complex / bool and numpy scalars, numpy '
                'scalars in .terms (a type this tree rejects is excluded and counted, never an alarm); (B) dyadic entries '
                'of magnitude 2e-6 .. 9e-5 next to O(1) ones in InteractionOperators (one-body, coulomb, number-excitation, '
                'quartic) and FermionOperators, n_qubits 9 .. 20 and > 256, indices >= 257; (A) complex constants, purely '
                'imaginary entries, non-Hermitian tensors (Model comparison only), Hermitian operators in NON-canonical '
                'storage (Hermitian partner stored on an antisymmetry-related entry with the opposite sign, weight split '
                'between T[pqrs] / -T[qprs] / -T[pqsr] / T[qpsr], junk on p = q / r = s entries; oracle = the operator the '
                'stored tensor denotes), both operand orders.  Compared exactly '
                'with the Model and, where admissible, with the Spec oracle; distinct = distinct (check, input)')
    b = Batch(ctx, st)
    rng = rng_for(ctx.seed, 'c05-hardening')
    reps = budget(ctx.tier, 1, 4) * (2 if ctx.drift else 1)
    qenc = lambda Q: enc_op('qubit', Q.terms)   # noqa: E731

    # ---- (T) SRL coefficients of every scalar type; (S) SRL lists, index sets, tree sets
    for rep in range(reps):
        for tag, c in SCALARS:
            n = rng.choice([5, 6, 7, 8])
            i, j = rng.randrange(n), rng.randrange(n)
            case = {'fn': '_seeley_richard_love', 'i': i, 'j': j, 'n_qubits': n, 'coef': to_gq(c), 'coefficient_type': tag}
            st.case(case)

            def run():
                ops, coefs = bk._seeley_richard_love(i, j, c, n)
                return bk._qubit_operator_creation(ops, coefs)
            ok, Q = soft(st, 'srl:' + tag, run)
            if ok:
                st.count('type-accepted:srl:' + tag)
                jQ = qenc(Q)
                b.add('_seeley_richard_love[%s]' % tag, case, {'op': jQ, 'n_ops': 0},
                      {'op': 'c05.srl', 'i': i, 'j': j, 'coef': to_gq(c), 'n': n},
                      oracle('bk', 'fermion', n, ['one_body_term', i, j, to_gq(c)], jQ),
                      cmp=lambda st_, what, case_, impl, mo: None if canon_op_json(impl['op']) == canon_op_json(mo['op'])
                      else st_.disagree(what + ': terms differ', case_, impl, mo))
            A = of.FermionOperator()
            A.terms[((2, 1), (0, 0))] = c
            A.terms[((1, 1),)] = 0.5
            jA = enc_op('fermion', A.terms)
            for variant, fn, mop in (('bk', BK, 'c05.fermion'), ('tree', BKT, 'c05.tree')):
                case = {'fn': variant, 'n_qubits': 5, 'fermion': jA, 'coefficient_type': tag}
                st.case(case)
                ok, Q = soft(st, variant + '-terms:' + tag, lambda: fn(A, 5))
                if ok:
                    st.count('type-accepted:%s-terms:%s' % (variant, tag))
                    b.add('%s(.terms holds %s)' % (variant, tag), case, qenc(Q), {'op': mop, 'n': 5, 'A': jA},
                          oracle(variant, 'fermion', 5, ['op', jA], qenc(Q)))
        # (S) plain-Python results: sets and lists
        n = rng.choice([6, 7, 11, 13])
        j = rng.randrange(n)
        case = {'fn': 'index sets', 'n': n, 'index': j, 'check': 'state'}
        st.case(case)
        for name, f in (('_update_set', lambda: bk._update_set(j, n)), ('_occupation_set', lambda: bk._occupation_set(j)),
                        ('_parity_set', lambda: bk._parity_set(j))):
            ok, s1 = call(st, name, case, f)
            if not ok:
                continue
            first = sorted(s1)
            s1.add(999)
            s1.discard(first[0] if first else 999)
            ok, s2 = call(st, name, case, f)
            st.count('state:called-twice-around-mutation')
            if ok and (sorted(s2) != first or s2 is s1):
                st.violate(name + ': the second call differs after the first result was modified in place', case,
                           {'first': first, 'second': sorted(s2)})
        i2 = rng.randrange(n)
        ok, r1 = call(st, '_seeley_richard_love', case, lambda: bk._seeley_richard_love(i2, j, 0.5 - 1j, n))
        if ok:
            first = copy.deepcopy(r1)
            r1[0].append(((0, 'X'),))
            r1[1].append(7.0)
            if r1[1]:
                r1[1][0] = 123.0
            ok, r2 = call(st, '_seeley_richard_love', case, lambda: bk._seeley_richard_love(i2, j, 0.5 - 1j, n))
            st.count('state:called-twice-around-mutation')
            if ok and (r2[0] != first[0] or r2[1] != first[1]):
                st.violate('_seeley_richard_love: the second call differs after the first result was modified', case, {})
        ok, tree = call(st, 'FenwickTree', case, lambda: fw.FenwickTree(n))
        if ok:
            for name, f in (('get_update_set', lambda: tree.get_update_set(j)),
                            ('get_remainder_set', lambda: tree.get_remainder_set(j)),
                            ('get_parity_set', lambda: tree.get_parity_set(j))):
                ok, l1 = call(st, name, case, f)
                if not ok:
                    continue
                first = [x.index for x in l1]
                l1.append(tree.get_node(0))
                if len(l1) > 1:
                    del l1[0]
                ok, l2 = call(st, name, case, f)
                st.count('state:called-twice-around-mutation')
                if ok and [x.index for x in l2] != first:
                    st.violate('FenwickTree.%s: the second call differs after the first result was modified' % name, case,
                               {'first': first, 'second': [x.index for x in l2]})
            # the children list is the tree's own storage: only check that repeated queries agree
            c1 = [x.index for x in tree.get_children_set(j)]
            c2 = [x.index for x in tree.get_children_set(j)]
            if c1 != c2:
                st.violate('FenwickTree.get_children_set: repeated queries differ', case, {})
    b.flush()

    # ---- (S) operator paths
    for rep in range(3 * reps):
        A = rand_fermion_op(rng, of, rng.randint(2, 6), 3, 4)
        B = rand_fermion_op(rng, of, rng.randint(2, 6), 2, 3)
        jA = enc_op('fermion', A.terms)
        snap = copy.deepcopy(A.terms)
        n = max(modes_of(jA), modes_of(enc_op('fermion', B.terms))) + rng.choice([0, 1, 2])
        for variant, fn in (('bk', BK), ('tree', BKT)):
            case = {'fn': variant, 'n_qubits': n, 'fermion': jA, 'check': 'state'}
            st.case(case)
            twice(st, variant + '(FermionOperator)', case, lambda: fn(A, n), qenc, mutate_operator)
            if A.terms != snap:
                st.violate(variant + ' modified its FermionOperator argument', case, {})
        A2 = copy.deepcopy(A)
        A2 += B
        A2 *= 2
        fresh = of.FermionOperator()
        for t, c in A2.terms.items():
            fresh += of.FermionOperator(t, c)
        for variant, fn in (('bk', BK), ('tree', BKT)):
            ok1, Qa = call(st, variant + '(edited operator)', {'fn': variant}, lambda: fn(A2, n))
            ok2, Qf = call(st, variant + '(fresh operator)', {'fn': variant}, lambda: fn(fresh, n))
            st.count('state:edited-in-place-then-requeried')
            if ok1 and ok2 and canon_nz(qenc(Qa)) != canon_nz(qenc(Qf)):
                st.violate(variant + ' of an operator edited in place differs from a freshly built equal operator',
                           {'fermion': enc_op('fermion', A2.terms), 'n_qubits': n}, {})
        for X, Y in ((A, B), (B, A)):
            if len(X.terms) * len(Y.terms) <= 9:
                ok1, l = call(st, 'bk(X*Y)', {'fn': 'bk'}, lambda: BK(X * Y, n))
                ok2, r = call(st, 'bk(X)*bk(Y)', {'fn': 'bk'}, lambda: BK(X, n) * BK(Y, n))
                st.count('asymmetry:both-operand-orders')
                if ok1 and ok2 and canon_nz(qenc(l)) != canon_nz(qenc(r)):
                    st.violate('bravyi_kitaev(X*Y) != bravyi_kitaev(X)*bravyi_kitaev(Y)',
                               {'X': enc_op('fermion', X.terms), 'Y': enc_op('fermion', Y.terms), 'n_qubits': n}, {})
        M = rand_majorana_op(rng, of, rng.randint(2, 10), 3, 4)
        jM = enc_op('majorana', M.terms)
        nm = (modes_of(jM) + 1) // 2 + rng.choice([0, 1])
        case = {'fn': 'bk', 'n_qubits': nm, 'majorana': jM, 'check': 'state'}
        st.case(case)
        twice(st, 'bravyi_kitaev(MajoranaOperator)', case, lambda: BK(M, nm), qenc, mutate_operator)
        if enc_op('majorana', M.terms) != jM:
            st.violate('bravyi_kitaev modified its MajoranaOperator argument', case, {})

    # ---- (T)(A)(S) InteractionOperator: array types, complex constant, non-Hermitian (Model only), in-place edits
    for rep in range(reps):
        for kind in ARRAY_KINDS:
            N = rng.choice([2, 3, 3, 4])
            real = not is_complex_kind(kind)
            integer = kind.startswith('int')
            one, two = herm_tensors(rng, N, not real, rng.choice([0.3, 1.0]), integer)
            const = rng.choice([0.0, 1.5, 0.5 - 0.25j, 2j])
            c1, c2 = cast(one, kind), cast(two, kind)
            s1, s2 = c1.copy(), c2.copy()
            nq = N + rng.choice([0, 1, 2])
            ok, iop = soft(st, 'InteractionOperator:' + kind, lambda: of.InteractionOperator(const, c1, c2))
            if not ok:
                continue
            j1, j2, jc = flat(iop.one_body_tensor), flat(iop.two_body_tensor), to_gq(const)
            case = {'fn': 'bravyi_kitaev', 'n_qubits': nq, 'array_type': kind,
                    'interaction_operator': {'N': N, 'constant': jc, 'one': j1, 'two': j2}}
            st.case(case)
            ok, Q = soft(st, 'bk(InteractionOperator):' + kind, lambda: BK(iop, nq))
            if not ok:
                continue
            st.count('type-accepted:InteractionOperator:' + kind)
            b.add('bravyi_kitaev(InteractionOperator[%s])' % kind, case, qenc(Q),
                  {'op': 'c05.iop', 'N': N, 'n': nq, 'constant': jc, 'one': j1, 'two': j2},
                  oracle('bk', 'fermion', nq, ['op', sparse_spec_op(const, s1, s2)], qenc(Q)))
            if not (arrays_equal(iop.one_body_tensor, s1) and arrays_equal(iop.two_body_tensor, s2)
                    and arrays_equal(c1, s1) and arrays_equal(c2, s2)) or iop.constant != const:
                st.violate('bravyi_kitaev modified its InteractionOperator argument', case, {})
            twice(st, 'bravyi_kitaev(InteractionOperator)', case, lambda: BK(iop, nq), qenc, mutate_operator)
            if N >= 2 and not integer:
                v = 0.75 if real else (0.75 - 0.5j)
                iop.one_body_tensor[0, 1] = v
                iop.one_body_tensor[1, 0] = numpy.conj(v)
                iop.two_body_tensor[0, 1, 1, 0] = 1.25
                fresh_iop = of.InteractionOperator(const, iop.one_body_tensor.copy(), iop.two_body_tensor.copy())
                ok1, Qa = call(st, 'bk(edited InteractionOperator)', case, lambda: BK(iop, nq))
                ok2, Qf = call(st, 'bk(fresh InteractionOperator)', case, lambda: BK(fresh_iop, nq))
                st.count('state:edited-in-place-then-requeried')
                if ok1 and ok2 and canon_op_json(qenc(Qa)) != canon_op_json(qenc(Qf)):
                    st.violate('bravyi_kitaev of an InteractionOperator edited in place differs from a fresh one', case, {})
        N = rng.choice([2, 3])
        one = numpy.array([[complex(rng.randint(-4, 4) / 2, rng.randint(-4, 4) / 4) for _ in range(N)] for _ in range(N)])
        two = numpy.zeros((N,) * 4, dtype=complex)
        for idx in itertools.product(range(N), repeat=4):
            if rng.random() < 0.4:
                two[idx] = complex(rng.randint(-4, 4) / 2, rng.randint(-4, 4) / 4)
        iop = of.InteractionOperator(0.5j, one, two)
        case = {'fn': 'bravyi_kitaev', 'n_qubits': N + 1, 'check': 'non-Hermitian, Model only',
                'interaction_operator': {'N': N, 'constant': to_gq(0.5j), 'one': flat(one), 'two': flat(two)}}
        st.case(case)
        st.count('asymmetry:non-hermitian-tensor')
        ok, Q = call(st, 'bravyi_kitaev(non-Hermitian InteractionOperator)', case, lambda: BK(iop, N + 1))
        if ok:
            b.add('bravyi_kitaev(non-Hermitian InteractionOperator)', case, qenc(Q),
                  {'op': 'c05.iop', 'N': N, 'n': N + 1, 'constant': to_gq(0.5j), 'one': flat(one), 'two': flat(two)})
    b.flush()

    # ---- (T)(A) complex four-distinct-mode entries in every complex dtype (complex64 / clongdouble scalars are not
    #      Python complex); Hermitian operators whose STORAGE is not Hermitian element by element
    for rep in range(2 * reps):
        for ki, kind in enumerate(COMPLEX_KINDS + ['float64', 'float32']):
            N = rng.choice([4, 5, 5, 6])
            storage = QUARTIC_STORAGE[(rep + ki) % len(QUARTIC_STORAGE)]
            one, two = quartic_tensors(rng, N, is_complex_kind(kind), storage)
            const = rng.choice([0.0, 1.5, 0.5 - 0.25j])
            c1, c2 = cast(one, kind), cast(two, kind)
            s1, s2 = c1.copy(), c2.copy()
            nq = N + rng.choice([0, 1, 2])
            ok, iop = soft(st, 'InteractionOperator:' + kind, lambda: of.InteractionOperator(const, c1, c2))
            if not ok:
                continue
            j1, j2, jc = flat(iop.one_body_tensor), flat(iop.two_body_tensor), to_gq(const)
            case = {'fn': 'bravyi_kitaev', 'n_qubits': nq, 'array_type': kind, 'storage': storage,
                    'interaction_operator': {'N': N, 'constant': jc, 'one': j1, 'two': j2}}
            st.case(case)
            ok, Q = soft(st, 'bk(InteractionOperator):' + kind, lambda: BK(iop, nq))
            if not ok:
                continue
            st.count('quartic-entry:%s:%s' % (kind, storage))
            st.count('storage:' + ('elementwise-hermitian' if elementwise_hermitian(s2) else 'non-canonical'))
            b.add('bravyi_kitaev(InteractionOperator[%s], %s storage)' % (kind, storage), case, qenc(Q),
                  {'op': 'c05.iop', 'N': N, 'n': nq, 'constant': jc, 'one': j1, 'two': j2},
                  oracle('bk', 'fermion', nq, ['op', sparse_spec_op(const, s1, s2)], qenc(Q)))
            ok, QF = soft(st, 'bk(get_fermion_operator(iop)):' + kind,
                          lambda: BK(of.transforms.get_fermion_operator(iop), nq))
            if ok and canon_nz(qenc(Q)) != canon_nz(qenc(QF)):
                st.violate('InteractionOperator path differs from the FermionOperator path (%s, %s storage)'
                           % (kind, storage), case, {'fast': qenc(Q), 'fermion_path': qenc(QF)})
    b.flush()

    # ---- (B) small entries next to O(1) ones; n_qubits 9..20 and > 256
    from c04 import FORCED_BAND, band_tensors
    for rep in range(len(FORCED_BAND) * reps):
        forced = FORCED_BAND[rep % len(FORCED_BAND)]
        N = rng.choice([4, 4, 5, 5, 6])
        cplx = rng.random() < 0.6
        one, two = band_tensors(rng, N, cplx, forced, st)
        const = rng.choice([0.0, 1.5])
        iop = of.InteractionOperator(const, one, two)
        nq = N + rng.choice([0, 1, 2])
        A = sparse_spec_op(const, one, two)
        case = {'fn': 'bravyi_kitaev', 'n_qubits': nq, 'interaction_operator_sparse': {'N': N, 'terms': A},
                'check': 'band 2e-6..9e-5 next to O(1)'}
        st.case(case)
        ok, Q = call(st, 'bravyi_kitaev(InteractionOperator with small entries)', case, lambda: BK(iop, nq))
        if ok:
            jQ = qenc(Q)
            b.add('bravyi_kitaev(InteractionOperator with small entries)', case, jQ,
                  {'op': 'c05.iop', 'N': N, 'n': nq, 'constant': to_gq(const), 'one': flat(one), 'two': flat(two)},
                  oracle('bk', 'fermion', nq, ['op', A], jQ))
            ok, QF = call(st, 'bk(get_fermion_operator(iop))', case,
                          lambda: BK(of.transforms.get_fermion_operator(iop), nq))
            if ok and canon_nz(jQ) != canon_nz(qenc(QF)):
                st.violate('InteractionOperator path differs from the FermionOperator path (small entries)', case, {})
        F = of.FermionOperator()
        nm = rng.randint(2, 6)
        for _ in range(3):
            t = tuple((rng.randrange(nm), rng.randint(0, 1)) for _ in range(rng.randint(1, 3)))
            F += of.FermionOperator(t, band_val(rng, True) if rng.random() < 0.6 else rc(rng))
        jF = enc_op('fermion', F.terms)
        nqf = max(modes_of(jF), 1) + rng.choice([0, 1])
        for variant, fn, mop in (('bk', BK, 'c05.fermion'), ('tree', BKT, 'c05.tree')):
            case = {'fn': variant, 'n_qubits': nqf, 'fermion': jF, 'check': 'band'}
            st.case(case)
            ok, Q = call(st, variant + '(FermionOperator with small coefficients)', case, lambda: fn(F, nqf))
            if ok:
                b.add(variant + '(FermionOperator with small coefficients)', case, qenc(Q), {'op': mop, 'n': nqf, 'A': jF},
                      oracle(variant, 'fermion', nqf, ['op', jF], qenc(Q)))
    for rep in range(reps):
        for nq in (rng.randint(9, 20), 300):
            lo = 0 if nq <= 20 else 256
            F = of.FermionOperator()
            for _ in range(2):
                t = tuple((rng.randrange(lo, nq), rng.randint(0, 1)) for _ in range(rng.randint(1, 2)))
                F += of.FermionOperator(t, rc(rng))
            jF = enc_op('fermion', F.terms)
            for variant, fn, mop in (('bk', BK, 'c05.fermion'), ('tree', BKT, 'c05.tree')):
                case = {'fn': variant, 'n_qubits': nq, 'fermion': jF, 'check': 'n_qubits 9..20 / > 256'}
                st.case(case)
                st.count('size:n_qubits=%s' % ('9..20' if nq <= 20 else '300'))
                ok, Q = call(st, variant + '(large register)', case, lambda: fn(F, nq))
                if ok:
                    b.add(variant + '(large register)', case, qenc(Q), {'op': mop, 'n': nq, 'A': jF})
            i, j = rng.randrange(lo, nq), rng.randrange(lo, nq)
            c = rc(rng, 'complex')
            case = {'fn': '_seeley_richard_love', 'i': i, 'j': j, 'n_qubits': nq, 'coef': to_gq(c)}
            st.case(case)

            def run():
                ops, coefs = bk._seeley_richard_love(i, j, c, nq)
                return bk._qubit_operator_creation(ops, coefs)
            ok, Q = call(st, '_seeley_richard_love(large register)', case, run)
            if ok:
                b.add('_seeley_richard_love(large register)', case, {'op': qenc(Q), 'n_ops': 0},
                      {'op': 'c05.srl', 'i': i, 'j': j, 'coef': to_gq(c), 'n': nq},
                      cmp=lambda st_, what, case_, impl, mo: None if canon_op_json(impl['op']) == canon_op_json(mo['op'])
                      else st_.disagree(what + ': terms differ', case_, impl, mo))
    b.flush()
    return st


def stream_bksf_edges(ctx):
    """edge operators of the Bravyi-Kitaev superfast transform"""
    of = ctx.of
    bksf = importlib.import_module('openfermion.transforms.opconversions.bksf')
    st = Stream('bksf-edge-operators', 'edge_operator_b / edge_operator_aij of bksf.py on (a) the edge_matrix_indices the '
                'library derives from seeded random Hermitian InteractionOperators (bravyi_kitaev_fast_edge_matrix, N <= 6) '
                'and (b) seeded random simple graphs given directly (up to 9 vertices, any column order, both orientations of '
                'an edge); Model compared exactly for ALL vertices i and ALL ordered pairs (i, j) that are edges; on the '
                'implementation\'s outputs the edge algebra is checked exactly: B_i B_k = B_k B_i, B_i^2 = 1, A_ij^2 = 1, '
                'A_ji = -A_ij, A_ij B_k = -/+ B_k A_ij (k in / not in {i,j}), A_ij A_kl = -/+ A_kl A_ij (one / no common vertex); '
                'distinct = (graph, operator)')
    rng = rng_for(ctx.seed, 'c05-bksf')
    graphs = []
    for k in range(budget(ctx.tier, 10, 60)):
        N = rng.choice([3, 4, 4, 5, 6])
        iop = rand_hermitian_iop(rng, of, N, rng.random() < 0.5, rng.choice([0.08, 0.15, 0.3]))
        ok, em = call(st, 'bravyi_kitaev_fast_edge_matrix', {'N': N}, lambda: bksf.bravyi_kitaev_fast_edge_matrix(iop))
        if not ok:
            continue
        emi = numpy.array(numpy.nonzero(numpy.triu(em) - numpy.diag(numpy.diag(em))))
        graphs.append(('from-interaction-operator', N, emi))
    for k in range(budget(ctx.tier, 14, 80)):
        N = rng.randint(2, 9)
        pairs = [(a, b) for a in range(N) for b in range(a + 1, N)]
        rng.shuffle(pairs)
        pairs = pairs[:rng.randint(1, min(len(pairs), 10))]
        if k % 3 == 0:
            pairs.sort()
        cols = [(a, b) if (k % 2 == 0 or rng.random() < 0.5) else (b, a) for a, b in pairs]
        emi = numpy.array([[c[0] for c in cols], [c[1] for c in cols]])
        graphs.append(('given-graph', N, emi))
    reqs, meta = [], []
    for kind, N, emi in graphs:
        E = [[int(emi[0, e]), int(emi[1, e])] for e in range(emi.shape[1])]
        st.count('graph:%s:edges=%d' % (kind, min(len(E), 10)))
        ops_b, ops_a = {}, {}
        for i in range(N):
            case = {'fn': 'edge_operator_b', 'edges': E, 'i': i}
            st.case(case)
            ok, B = call(st, 'edge_operator_b', case, lambda: bksf.edge_operator_b(emi, i))
            if ok:
                ops_b[i] = B
                reqs.append({'op': 'c05.bksf_b', 'edges': E, 'i': i})
                meta.append(('edge_operator_b', case, enc_op('qubit', B.terms)))
        for (a, b) in {(e[0], e[1]) for e in E} | {(e[1], e[0]) for e in E}:
            case = {'fn': 'edge_operator_aij', 'edges': E, 'i': a, 'j': b}
            st.case(case)
            ok, A = call(st, 'edge_operator_aij', case, lambda: bksf.edge_operator_aij(emi, a, b))
            if ok:
                ops_a[(a, b)] = A
                reqs.append({'op': 'c05.bksf_a', 'edges': E, 'i': a, 'j': b})
                meta.append(('edge_operator_aij', case, enc_op('qubit', A.terms)))
        # the edge algebra, on the implementation's outputs (exact: coefficients are +-1)
        one = of.QubitOperator(())
        zero = of.QubitOperator()

        def check(name, lhs, rhs, inp):
            st.count('algebra:' + name)
            if not (lhs - rhs) == zero:
                st.violate('edge algebra violated: ' + name, dict(inp, edges=E), {})
        for i, B in ops_b.items():
            check('B_i^2 = 1', B * B, one, {'i': i})
            for k2, B2 in ops_b.items():
                if k2 > i:
                    check('B_i B_k = B_k B_i', B * B2, B2 * B, {'i': i, 'k': k2})
        for (a, b), A in ops_a.items():
            check('A_ij^2 = 1', A * A, one, {'i': a, 'j': b})
            if (b, a) in ops_a:
                check('A_ji = -A_ij', ops_a[(b, a)], -1 * A, {'i': a, 'j': b})
            for k2, B2 in ops_b.items():
                sgn = -1 if k2 in (a, b) else 1
                check('A_ij B_k = %s B_k A_ij' % ('-' if sgn < 0 else '+'), A * B2, sgn * (B2 * A), {'i': a, 'j': b, 'k': k2})
            for (c, d2), A2 in ops_a.items():
                if {c, d2} == {a, b} or (c, d2) <= (a, b):
                    continue
                sgn = -1 if len({a, b} & {c, d2}) == 1 else 1
                check('A_ij A_kl = %s A_kl A_ij' % ('-' if sgn < 0 else '+'), A * A2, sgn * (A2 * A),
                      {'i': a, 'j': b, 'k': c, 'l': d2})
    for (what, case, impl), mo in zip(meta, ctx.driver.run(reqs)):
        if mo is None or canon_op_json(impl) != canon_op_json(mo):
            st.disagree(what + ': terms differ', case, impl, mo)
    return st


def run(ctx):
    return [stream_sets(ctx), stream_ladder(ctx), stream_srl(ctx), stream_random(ctx), stream_interaction(ctx),
            stream_bksf_edges(ctx), stream_hardening(ctx)]
