"""C05 — Bravyi-Kitaev family: correspondence of the real `bravyi_kitaev` (FermionOperator, MajoranaOperator,
InteractionOperator paths, `_seeley_richard_love`, the three Fenwick index sets) and `bravyi_kitaev_tree`
(FenwickTree) with the Lean Model (OFV.Model.C05) on the same inputs, compared exactly, plus the Spec oracles of
OFV.Spec.C05 on the implementation's outputs:
  c05.bk_check    Q |enc s> = enc(A |s>) for every occupation mask s < 2^n (phases included), enc the parity-of-
                  interval encoding defined arithmetically (Fenwick) / by bisection (tree);
  c05.sets_check  the parity / occupation / update sets tile [0,j), [lo j, j] and are the qubits storing j."""
import importlib
import itertools

import numpy

from common import (Stream, budget, enc_op, canon_op_json, to_gq, rng_for)
from c04 import (canon_nz, is_canonical_qubit, rand_coeff, call, rand_fermion_op, rand_majorana_op, modes_of,
                 rand_hermitian_iop, flat, noncanonical, elementwise_hermitian)

TRUSTED = []
ASSUMPTIONS = [
    'coefficients are dyadic Gaussian rationals with small numerators, on which IEEE double arithmetic of the '
    'modelled code is exact (checked: exact rational comparison with the Model)',
    'InteractionOperators are Hermitian (two_body[p,q,r,s] = conj(two_body[s,r,q,p]), no further symmetry)',
    'Python set iteration order does not reach any result: every QubitOperator(term) sorts its factors stably and '
    'equal indices only come from different pads (the Model uses sorted lists)',
]
OPEN_STATEMENTS = [
    'bk_exact / bk_majorana_exact / tree_exact are proved under the decidable hypothesis "exact regime" (no non-zero value deleted '
    'by the |v| < EQ_TOLERANCE test of +=), evaluated by the Model on every generated input (distribution key '
    'theorem-hypothesis exact-regime); the term-level theorems bk_term_exact / bk_majorana_term_exact / tree_term_exact are unconditional',
    'srl_sound / srl_sound_case_0 .. srl_sound_case_10 (every branch of _seeley_richard_love denotes c a_i^dagger a_j under the '
    'encoding, all n, all i,j < n) ARE theorems, under the decidable exact-regime hypothesis srlOk (no tolerance deletion in '
    '_qubit_operator_creation), evaluated by the driver on every generated (i, j, c, n)',
    'bk_interaction_sound / bk_interaction_support / bk_interaction_matches_fermion_path (the InteractionOperator path, '
    'cases A-D, denotes the tensor formula under the encoding for every tensor size N and every n_qubits >= N, for every '
    'tensor pair denoting a Hermitian operator, element-wise Hermitian storage not required) ARE theorems, under the decidable '
    'exact-regime hypothesis bkInteractionOpOk (every += and every _qubit_operator_creation deleted only exact zeros), '
    'evaluated by the driver on every generated tensor',
    'bravyi_kitaev_fast (bksf.py): edge_operator_b / edge_operator_aij, bravyi_kitaev_fast_edge_matrix (+ the numpy.nonzero / '
    'triu extraction of edge_matrix_indices), _one_body, _two_body, bravyi_kitaev_fast_interaction_op (the selection of tensor '
    'entries of the main loop included) and number_operator ARE modelled and compared exactly with the library (streams '
    'bksf-edge-operators, bksf-term-images, bksf-transform). THEOREMS: the edge algebra for every graph without loops '
    '(bksf_b_commute, bksf_a_b_relation, bksf_a_square_antisymmetric, bksf_a_a_relation; re-checked exactly on the '
    'implementation\'s outputs); the edge list derived from ANY tensors is a simple graph on 0..N-1 '
    '(bksf_edge_list_simple_graph: the NoLoops hypothesis always holds for the library\'s array); number_operator is diagonal '
    'with the parity of the incident edge qubits as occupation (bksf_number_operator_sound, hypothesis numberOk evaluated by the '
    'driver on every run; also checked on the implementation\'s output on random basis states); _one_body is '
    '-i/2 (A_ab B_b + B_a A_ab) resp. (1 - B_p)/2 and fails exactly when the edge {p,q} is absent (bksf_one_body_offdiagonal, '
    'bksf_one_body_diagonal, bksf_one_body_fails_iff; hypothesis oneBodyOk evaluated on every run); _two_body with four '
    'distinct indices is 1/8 A_pq A_rs (-1 - B_pB_q + B_pB_r + B_pB_s + B_qB_r + B_qB_s - B_rB_s - B_pB_qB_rB_s) and acts as the '
    'double excitation: -A_pq A_rs on basis states with p, q occupied and r, s empty or vice versa, 0 elsewhere '
    '(bksf_two_body_four_index_formula, bksf_two_body_four_index_sound; hypothesis twoBody4Ok evaluated on every run; the '
    'selection rule is also checked exactly on the implementation\'s output); _two_body with three distinct indices is the '
    'number-excitation phase/2 (A_xy B_y + B_x A_xy) on basis states with the spectator vertex occupied, 0 elsewhere, and with '
    'two distinct indices it is +/- n_p n_q (bksf_two_body_three_index_sound, bksf_two_body_two_index_sound; flags '
    'twoBody3Ok / twoBody2Ok). NOT proved (correspondence '
    '+ numeric spectral Spec oracle on the outputs only: even-parity-sector eigenvalues of the fermionic operator are '
    'eigenvalues of the image, 1e-7, connected edge graphs with <= 8 edges, N <= 6): that the entries selected by the main loop add up to the edge-operator image of the whole '
    'Hamiltonian — FALSE in general on the pinned tree: known findings F05-bksf-missing-edge (ValueError when the entry that is '
    'transformed is not the entry whose edges were registered) and F05-bksf-complex-coefficients (non-Hermitian output for '
    'complex Hermitian input); the fermionic identities expressing a^dagger a monomials by Majorana edge operators and the '
    'isomorphism of the stabiliser subspace with the even-parity Fock space are not formalised (the oracle uses them as '
    'mathematics: checked numerically on the fermionic algebra for N = 4); vacuum_operator (uses networkx.cycle_basis; no '
    'Model, not driven)',
    'tree_term_support / tree_car_ann / tree_number_diagonal / tree_equiv_bk ARE theorems (the tree variant has no statement '
    'left to the oracle only)',
    'equivalence with Jordan-Wigner IS a theorem: <enc s\'| bk(A) |enc s> = <s\'| jw(A) |s> for bravyi_kitaev and '
    'bravyi_kitaev_tree (bk_equiv_jw, tree_equiv_jw: isospectrality, equal expectation values), as are linearity, '
    'preservation of Hermiticity and faithfulness (bk_linear, bk_hermitian_iff_and_faithful) and multiplicativity '
    '(bk_multiplicative: bk(A) * bk(B) has the matrix elements of A * B and of bk(A * B) on the encoded states); CAR, diagonal '
    'number operators and the vacuum ARE theorems (bk_car, bk_car_ann, bk_number_diagonal, bk_vacuum, tree_car)',
]


class Batch:
    def __init__(self, ctx, stream):
        self.ctx, self.stream = ctx, stream
        self.items = []
        self.regime = []

    def add(self, what, case, impl, model_req, oracle_req=None, cmp=None, regime_req=None):
        self.items.append((what, case, impl, model_req, oracle_req, cmp))
        if regime_req is not None:
            self.regime.append(regime_req)

    def flush(self):
        st = self.stream
        its, self.items = self.items, []
        if self.regime:
            # the decidable hypothesis of bk_exact, evaluated by the Model on this very input
            for ok in self.ctx.driver.run(self.regime):
                st.count('theorem-hypothesis exact-regime: %s' % ('holds' if ok else 'fails (tolerance deletion)'))
            self.regime = []
        if not its:
            return
        answers = self.ctx.driver.run([it[3] for it in its])
        for (what, case, impl, _, _, cmp), mo in zip(its, answers):
            if cmp is not None:
                cmp(st, what, case, impl, mo)
            else:
                if canon_op_json(impl) != canon_op_json(mo):
                    st.disagree(what + ': terms differ', case, impl, mo)
                if not is_canonical_qubit(impl):
                    st.violate(what + ': result not a canonical QubitOperator', case, {'terms': impl})
        oreqs = [(it[0], it[1], it[4]) for it in its if it[4] is not None]
        if oreqs:
            oans = self.ctx.driver.run([r for _, _, r in oreqs])
            for (what, case, r), a in zip(oreqs, oans):
                st.count('oracle:checked')
                if r['op'] == 'c05.sets_check':
                    if a is not True:
                        st.violate(what + ': index sets are not the tiling / storing sets of the encoding (Spec)',
                                   case, {'request': r})
                elif not a['eq']:
                    st.violate(what + ': Q|enc s> != enc(A|s>) (Spec)', case,
                               {'witness_state': a['state'], 'encoded_state': a['encoded'], 'spec': a['spec'],
                                'implementation': a['implementation'], 'request': r})


def too_many_timeouts(st):
    return sum(1 for v in st.violations if 'did not return within' in v['what']) >= 3


def oracle(variant, alg, n, A, Q):
    return {'op': 'c05.bk_check', 'variant': variant, 'alg': alg, 'n': n, 'A': A, 'Q': Q}


def mods(ctx):
    bk = importlib.import_module('openfermion.transforms.opconversions.bravyi_kitaev')
    bkt = importlib.import_module('openfermion.transforms.opconversions.bravyi_kitaev_tree')
    fw = importlib.import_module('openfermion.transforms.opconversions.fenwick_tree')
    return bk, bkt, fw


# ---------------------------------------------------------------- index sets

def stream_sets(ctx):
    bk, bkt, fw = mods(ctx)
    st = Stream('index-sets', '_update_set / _occupation_set / _parity_set for every index j < n, every n <= N '
                '(N = 40 quick, 64 thorough, so all non-powers of two below N) and the FenwickTree update / children / '
                'remainder / parity sets for every j < n <= Nt; Model compared exactly (as sets); Spec '
                'oracle: the sets tile [0,j) / [lo j, j] and are exactly the qubits storing j; distinct = (variant,n,j)')
    b = Batch(ctx, st)
    N = budget(ctx.tier, 40, 64)
    Nt = budget(ctx.tier, 24, 40)

    def cmp_sets(st_, what, case, impl, mo):
        # compared as sets: the order in which a set is listed is not part of the property
        if {k: sorted(v) for k, v in impl.items()} != {k: sorted(v) for k, v in mo.items()}:
            st_.disagree(what + ': sets differ', case, impl, mo)
        if any(len(set(v)) != len(v) for v in impl.values()):
            st_.violate(what + ': an index occurs twice in a set', case, impl)
    for n in range(1, N + 1):
        for j in range(n):
            case = {'fn': '_update_set/_occupation_set/_parity_set', 'n': n, 'index': j}
            st.case(case)
            st.count('bk-sets')
            ok, r = call(st, 'index sets', case, lambda: {
                'update': sorted(bk._update_set(j, n)), 'occupation': sorted(bk._occupation_set(j)),
                'parity': sorted(bk._parity_set(j))})
            if not ok:
                continue
            b.add('Fenwick index sets', case, r, {'op': 'c05.sets', 'index': j, 'n': n},
                  {'op': 'c05.sets_check', 'variant': 'bk', 'n': n, 'index': j, **r}, cmp=cmp_sets)
    b.flush()
    for n in range(1, Nt + 1):
        ok, tree = call(st, 'FenwickTree', {'n': n}, lambda: fw.FenwickTree(n))
        if not ok:
            continue
        for j in range(n):
            case = {'fn': 'FenwickTree.get_*_set', 'n': n, 'index': j}
            st.case(case)
            st.count('tree-sets')
            ok, r = call(st, 'tree sets', case, lambda: {
                'update': [x.index for x in tree.get_update_set(j)],
                'children': [x.index for x in tree.get_children_set(j)],
                'remainder': [x.index for x in tree.get_remainder_set(j)],
                'parity': [x.index for x in tree.get_parity_set(j)]})
            if not ok:
                continue
            b.add('FenwickTree sets', case, r, {'op': 'c05.tree_sets', 'index': j, 'n': n},
                  {'op': 'c05.sets_check', 'variant': 'tree', 'n': n, 'index': j, 'update': r['update'],
                   'parity': r['parity'], 'occupation': [j] + r['children']}, cmp=cmp_sets)
    b.flush()
    st.exhaustive = True
    return st


# ---------------------------------------------------------------- ladder / Majorana images

def stream_ladder(ctx):
    of = ctx.of
    bk, bkt, fw = mods(ctx)
    st = Stream('ladder-images', 'bravyi_kitaev and bravyi_kitaev_tree of every single ladder operator a_j, a_j^dagger '
                'and bravyi_kitaev of every Majorana operator, for every j < n, every n <= N (N = 24 quick, 48 '
                'thorough); Model compared exactly; Spec oracle on all 2^n occupation masks for n <= 9; '
                'distinct = (variant, n, operator)')
    b = Batch(ctx, st)
    N = budget(ctx.tier, 24, 48)
    if ctx.drift:
        N = max(N, 28)
    for n in range(1, N + 1):
        for j in range(n):
            for a in (0, 1):
                A = of.FermionOperator(((j, a),))
                jA = enc_op('fermion', A.terms)
                for variant, fn, mop in (('bk', of.transforms.bravyi_kitaev, 'c05.fermion'),
                                         ('tree', of.transforms.bravyi_kitaev_tree, 'c05.tree')):
                    case = {'fn': variant, 'n_qubits': n, 'fermion': jA}
                    st.case(case)
                    st.count('ladder:' + variant)
                    ok, Q = call(st, variant + '(ladder)', case, lambda: fn(A, n))
                    if not ok:
                        continue
                    jQ = enc_op('qubit', Q.terms)
                    b.add(variant + '(ladder)', case, jQ, {'op': mop, 'n': n, 'A': jA},
                          oracle(variant, 'fermion', n, ['op', jA], jQ) if n <= 9 else None)
                    if len(Q.terms) != 2:
                        st.violate('ladder image does not have two Pauli strings', case, {'terms': jQ})
                m = 2 * j + a
                M = of.MajoranaOperator((m,))
                jM = enc_op('majorana', M.terms)
                case = {'fn': 'bk', 'n_qubits': n, 'majorana': jM}
                st.case(case)
                st.count('majorana:bk')
                ok, Q = call(st, 'bravyi_kitaev(majorana)', case, lambda: of.transforms.bravyi_kitaev(M, n))
                if ok:
                    jQ = enc_op('qubit', Q.terms)
                    b.add('bravyi_kitaev(majorana)', case, jQ, {'op': 'c05.majorana', 'n': n, 'A': jM},
                          oracle('bk', 'majorana', n, ['op', jM], jQ) if n <= 9 else None)
        if len(b.items) > 3000:
            b.flush()
    b.flush()
    st.exhaustive = True
    return st


# ---------------------------------------------------------------- Seeley-Richard-Love

def stream_srl(ctx):
    bk, bkt, fw = mods(ctx)
    st = Stream('seeley-richard-love', '_qubit_operator_creation(*_seeley_richard_love(i, j, c, n)) for ALL i, j < n, '
                'all n <= N (N = 16 quick, 30 thorough) with a complex dyadic coefficient; Model compared exactly (the '
                'Model reports which of the cases 0-10 fired: histogram in the distribution; case 11 = no branch); Spec '
                'oracle (n <= 8, and n <= 11/12 for the rare odd-odd cases 7-10): the result acts like c a_i^dagger a_j under the encoding; distinct = (n,i,j,c)')
    b = Batch(ctx, st)
    rng = rng_for(ctx.seed, 'c05-srl')
    N = budget(ctx.tier, 16, 30)
    NO = budget(ctx.tier, 11, 12)   # oracle bound for the rare odd-odd cases 7-10
    if ctx.drift:
        N = max(N, 18)
        NO = 12

    def cmp_srl(st_, what, case, impl, mo):
        st_.count('case:%d' % mo['case'])
        if mo['case'] == 11:
            st_.count('no-branch')
        if canon_op_json(impl['op']) != canon_op_json(mo['op']):
            st_.disagree(what + ': terms differ', case, impl, mo)
    for n in range(1, N + 1):
        for i in range(n):
            for j in range(n):
                c = rand_coeff(rng, 'complex') if (i + j + n) % 3 else rand_coeff(rng)
                case = {'fn': '_seeley_richard_love', 'i': i, 'j': j, 'n_qubits': n, 'coef': to_gq(c)}
                st.case(case)

                def run():
                    ops, coefs = bk._seeley_richard_love(i, j, c, n)
                    return len(ops), bk._qubit_operator_creation(ops, coefs)
                ok, r = call(st, '_seeley_richard_love', case, run)
                if not ok:
                    continue
                n_ops, Q = r
                jQ = enc_op('qubit', Q.terms)
                if n_ops == 0:
                    st.violate('_seeley_richard_love returned no strings (no branch of the elif chain fired)', case, {})
                b.add('_seeley_richard_love', case, {'op': jQ, 'n_ops': n_ops},
                      {'op': 'c05.srl', 'i': i, 'j': j, 'coef': to_gq(c), 'n': n},
                      oracle('bk', 'fermion', n, ['one_body_term', i, j, to_gq(c)], jQ)
                      if (n <= 8 or (n <= NO and i % 2 == 1 and j % 2 == 1 and i != j)) else None,
                      cmp=cmp_srl, regime_req={'op': 'c05.srl_ok', 'i': i, 'j': j, 'coef': to_gq(c), 'n': n})
        if len(b.items) > 3000:
            b.flush()
    b.flush()
    st.exhaustive = True
    return st


# ---------------------------------------------------------------- random operators

def is_pow2(n):
    return n > 0 and n & (n - 1) == 0


def stream_random(ctx):
    of = ctx.of
    st = Stream('random-operators', 'seeded random FermionOperators (<= 9 modes, <= 4 terms of length <= 5, repeated '
                'indices, complex dyadic coefficients) and MajoranaOperators through bravyi_kitaev and '
                'bravyi_kitaev_tree with n_qubits in {None, n, n+1, n+3}; Model compared exactly; Spec oracle on all '
                '2^n_qubits masks (n_qubits <= 9); products compared exactly with the product of the images; '
                'n_qubits below the operator size must raise ValueError; distinct = (operator, n_qubits)')
    b = Batch(ctx, st)
    rng = rng_for(ctx.seed, 'c05-random')
    n_ops = budget(ctx.tier, 160, 2500)
    if ctx.drift:
        n_ops = max(n_ops, 300)
    prev = None
    for k in range(n_ops):
        n_modes = rng.choice([1, 2, 3, 3, 4, 5, 5, 6, 6, 7, 7, 8, 9])
        A = rand_fermion_op(rng, of, n_modes, 4 if n_modes <= 6 else 2, 5 if n_modes <= 6 else 3)
        jA = enc_op('fermion', A.terms)
        size = modes_of(jA)
        nq = rng.choice([None, size, size + 1, size + 3])
        for variant, fn, mop in (('bk', of.transforms.bravyi_kitaev, 'c05.fermion'),
                                 ('tree', of.transforms.bravyi_kitaev_tree, 'c05.tree')):
            case = {'fn': variant, 'n_qubits': nq, 'fermion': jA}
            st.case(case)
            st.count('%s:n_qubits-size=%s' % (variant, 'None' if nq is None else nq - size))
            ok, Q = call(st, variant + '(FermionOperator)', case, lambda: fn(A, nq))
            if not ok:
                continue
            jQ = enc_op('qubit', Q.terms)
            n = size if nq is None else nq
            b.add(variant + '(FermionOperator)', case, jQ, {'op': mop, 'n': n, 'A': jA},
                  oracle(variant, 'fermion', n, ['op', jA], jQ) if n <= 9 else None,
                  regime_req={'op': 'c05.fermion_ok' if variant == 'bk' else 'c05.tree_ok', 'n': n, 'A': jA})
            if modes_of(jQ) > n:
                st.violate('result acts on more than n_qubits qubits', case, {'terms': jQ})
            if variant == 'bk' and prev is not None and prev[2] == n and len(A.terms) * len(prev[0].terms) <= 9:
                B, QB, _ = prev
                ok1, l = call(st, 'bk(A*B)', case, lambda: fn(A * B, n))
                ok2, r = call(st, 'bk(A)*bk(B)', case, lambda: Q * QB)
                st.count('corollary:product')
                if ok1 and ok2 and canon_nz(enc_op('qubit', l.terms)) != canon_nz(enc_op('qubit', r.terms)):
                    st.violate('bravyi_kitaev(A*B) != bravyi_kitaev(A)*bravyi_kitaev(B)',
                               {'A': jA, 'B': enc_op('fermion', B.terms), 'n_qubits': n},
                               {'lhs': enc_op('qubit', l.terms), 'rhs': enc_op('qubit', r.terms)})
            if variant == 'bk':
                prev = (A, Q, n)
            if size >= 2:
                try:
                    fn(A, size - 1)
                    st.violate('n_qubits below the operator size accepted', case, {'n_qubits': size - 1})
                except ValueError:
                    st.count('ValueError:n_qubits-too-small')
                except Exception as e:  # noqa
                    st.violate('n_qubits below the operator size raised %s' % type(e).__name__, case, {})
    b.flush()
    rng = rng_for(ctx.seed, 'c05-majorana')
    for k in range(budget(ctx.tier, 50, 500)):
        n_maj = rng.randint(1, 14)
        M = rand_majorana_op(rng, of, n_maj, 3, 5)
        jM = enc_op('majorana', M.terms)
        size = (modes_of(jM) + 1) // 2
        nq = rng.choice([None, size, size + 1, size + 2])
        case = {'fn': 'bk', 'n_qubits': nq, 'majorana': jM}
        st.case(case)
        st.count('majorana')
        ok, Q = call(st, 'bravyi_kitaev(MajoranaOperator)', case, lambda: of.transforms.bravyi_kitaev(M, nq))
        if not ok:
            continue
        jQ = enc_op('qubit', Q.terms)
        n = size if nq is None else nq
        b.add('bravyi_kitaev(MajoranaOperator)', case, jQ, {'op': 'c05.majorana', 'n': n, 'A': jM},
              oracle('bk', 'majorana', n, ['op', jM], jQ) if n <= 9 else None,
              regime_req={'op': 'c05.majorana_ok', 'n': n, 'A': jM})
        # the MajoranaOperator path agrees with the FermionOperator path
        ok, QF = call(st, 'bk(get_fermion_operator(M))', case,
                      lambda: of.transforms.bravyi_kitaev(of.transforms.get_fermion_operator(M), n))
        if ok and canon_nz(jQ) != canon_nz(enc_op('qubit', QF.terms)):
            st.violate('MajoranaOperator path differs from the FermionOperator path', case,
                       {'majorana_path': jQ, 'fermion_path': enc_op('qubit', QF.terms)})
    b.flush()
    return st


# ---------------------------------------------------------------- InteractionOperator

def stream_interaction(ctx):
    of = ctx.of
    st = Stream('interaction-operator', 'seeded random Hermitian InteractionOperators (real and complex, dense and '
                'sparse, N <= 4 quick / 5 thorough; 40% in NON-canonical storage: weight moved between the antisymmetry-'
                'related entries T[pqrs] / -T[qprs] / -T[pqsr] / T[qpsr], arbitrary values on p = q / r = s entries, so that '
                'only the denoted operator is Hermitian) through bravyi_kitaev with n_qubits in {None, N, N+1, N+3}; Model '
                'compared exactly; Spec oracle against the tensor formula written out term by term under the encoding '
                'on n_qubits; compared exactly with bravyi_kitaev(get_fermion_operator(.), n_qubits); plus sparse tensors with '
                'a guaranteed four-distinct-mode quartic entry, N in {4,5,6} (thorough also 9,10), n_qubits in N..N+3; '
                'distinct = (tensor, n_qubits)')
    b = Batch(ctx, st)
    rng = rng_for(ctx.seed, 'c05-iop')
    n_iop = budget(ctx.tier, 100, 900)
    if ctx.drift:
        n_iop = max(n_iop, 150)
    for k in range(n_iop):
        N = rng.choice([1, 2, 2, 3, 3, 3, 4, 4, 4] + ([5] if ctx.tier == 'thorough' and k % 5 == 0 else []))
        cplx = rng.random() < 0.6
        density = rng.choice([0.08, 0.3, 1.0]) if N >= 3 else rng.choice([0.5, 1.0])
        iop = rand_hermitian_iop(rng, of, N, cplx, density)
        storage = 'elementwise-hermitian'
        if N >= 2 and k % 5 in (1, 3):
            # the same Hermitian operator in non-canonical storage (weight moved between antisymmetry-related entries)
            noncanonical(rng, iop.two_body_tensor, cplx)
            storage = 'elementwise-hermitian' if elementwise_hermitian(iop.two_body_tensor) else 'non-canonical'
        st.count('iop:storage:' + storage)
        nq = rng.choice([None, N, N + 1, N + 3])
        one, two = flat(iop.one_body_tensor), flat(iop.two_body_tensor)
        const = to_gq(iop.constant)
        n = N if nq is None else nq
        case = {'fn': 'bravyi_kitaev', 'n_qubits': nq,
                'interaction_operator': {'N': N, 'constant': const, 'one': one, 'two': two}}
        st.case(case)
        st.count('iop:N=%d:%s:n_qubits-N=%s' % (N, 'complex' if cplx else 'real', 'None' if nq is None else nq - N))
        ok, Q = call(st, 'bravyi_kitaev(InteractionOperator)', case, lambda: of.transforms.bravyi_kitaev(iop, nq))
        if not ok:
            continue
        jQ = enc_op('qubit', Q.terms)
        b.add('bravyi_kitaev(InteractionOperator)', case, jQ,
              {'op': 'c05.iop', 'N': N, 'n': n, 'constant': const, 'one': one, 'two': two},
              oracle('bk', 'fermion', n, ['iop', N, const, one, two], jQ) if n <= 8 else None,
              regime_req={'op': 'c05.iop_ok', 'N': N, 'n': n, 'constant': const, 'one': one, 'two': two})
        ok, QF = call(st, 'bravyi_kitaev(get_fermion_operator(iop))', case,
                      lambda: of.transforms.bravyi_kitaev(of.transforms.get_fermion_operator(iop), n))
        if ok and canon_nz(jQ) != canon_nz(enc_op('qubit', QF.terms)):
            st.violate('InteractionOperator path differs from the FermionOperator path', case,
                       {'fast': jQ, 'fermion_path': enc_op('qubit', QF.terms)})
        if N >= 2:
            try:
                of.transforms.bravyi_kitaev(iop, N - 1)
                st.violate('n_qubits below the tensor size accepted', case, {'n_qubits': N - 1})
            except ValueError:
                st.count('ValueError:n_qubits-too-small')
            except Exception as e:  # noqa
                st.violate('n_qubits below the tensor size raised %s' % type(e).__name__, case, {})
    b.flush()

    # targeted: sparse tensors that are guaranteed to contain a two-body entry on FOUR DISTINCT modes, with
    # n_qubits above the tensor size (the double-excitation case D with modes whose Fenwick ancestors differ
    # only shows for N >= 5); the Spec operator is written out from the non-zero entries only (cheap oracle)
    rng = rng_for(ctx.seed, 'c05-quartic')
    sizes = [4, 5, 5, 6, 5, 6] + ([9, 10] if ctx.tier == 'thorough' else [])
    for k in range(budget(ctx.tier, 72, 500)):
        N = sizes[k % len(sizes)]
        cplx = rng.random() < 0.7
        one = numpy.zeros((N, N), dtype=complex)
        two = numpy.zeros((N, N, N, N), dtype=complex)
        n_terms = 1 if N >= 9 else rng.choice([1, 2, 2, 3])
        for t in range(n_terms):
            kind = 'quartic' if t == 0 and k % 3 != 2 else rng.choice(['quartic', 'number-excitation', 'coulomb',
                                                                         'random', 'number-excitation'])
            if kind == 'quartic':
                idx = tuple(rng.sample(range(N), 4))
            elif kind == 'number-excitation':      # n_i a_j^dagger a_k (case C)
                i3, j3, k3 = rng.sample(range(N), 3)
                idx = rng.choice([(i3, j3, k3, i3), (j3, i3, i3, k3), (i3, j3, i3, k3), (j3, i3, k3, i3)])
            elif kind == 'coulomb':                # n_i n_j (case B)
                i3, j3 = rng.sample(range(N), 2)
                idx = rng.choice([(i3, j3, j3, i3), (i3, j3, i3, j3)])
            else:
                idx = tuple(rng.randrange(N) for _ in range(4))
            st.count('sparse-entry:' + kind)
            partner = (idx[3], idx[2], idx[1], idx[0])
            from c04 import dy
            v = dy(rng, cplx and idx != partner)
            two[idx] = v
            two[partner] = numpy.conj(v)
        if rng.random() < 0.5:
            a, c = rng.sample(range(N), 2)
            v = dy(rng, cplx)
            one[a, c] = v
            one[c, a] = numpy.conj(v)
        if k % 5 in (1, 3):
            noncanonical(rng, two, cplx)
        st.count('quartic:storage:' + ('elementwise-hermitian' if elementwise_hermitian(two) else 'non-canonical'))
        iop = of.InteractionOperator(rng.choice([0.0, 0.5]), one, two)
        nq = N + rng.choice([0, 1, 2, 3, 1, 2])
        # the Spec operator, from the tensor entries directly
        A = [[[], to_gq(iop.constant)]]
        for (a, c), v in numpy.ndenumerate(one):
            if v != 0:
                A.append([[[a, 1], [c, 0]], to_gq(v)])
        for (a, c, d, e), v in numpy.ndenumerate(two):
            if v != 0:
                A.append([[[a, 1], [c, 1], [d, 0], [e, 0]], to_gq(v)])
        case = {'fn': 'bravyi_kitaev', 'n_qubits': nq, 'interaction_operator_sparse': {'N': N, 'terms': A}}
        st.case(case)
        st.count('quartic:N=%d:n_qubits-N=%d' % (N, nq - N))
        ok, Q = call(st, 'bravyi_kitaev(InteractionOperator)', case, lambda: of.transforms.bravyi_kitaev(iop, nq))
        if not ok:
            continue
        jQ = enc_op('qubit', Q.terms)
        b.add('bravyi_kitaev(InteractionOperator) quartic', case, jQ,
              {'op': 'c05.iop', 'N': N, 'n': nq, 'constant': to_gq(iop.constant), 'one': flat(one), 'two': flat(two)},
              oracle('bk', 'fermion', nq, ['op', A], jQ) if nq <= 10 else None,
              regime_req={'op': 'c05.iop_ok', 'N': N, 'n': nq, 'constant': to_gq(iop.constant), 'one': flat(one),
                          'two': flat(two)})
        ok, QF = call(st, 'bravyi_kitaev(get_fermion_operator(iop))', case,
                      lambda: of.transforms.bravyi_kitaev(of.transforms.get_fermion_operator(iop), nq))
        if ok and canon_nz(jQ) != canon_nz(enc_op('qubit', QF.terms)):
            st.violate('InteractionOperator path differs from the FermionOperator path', case,
                       {'fast': jQ, 'fermion_path': enc_op('qubit', QF.terms)})
    b.flush()
    return st




# ---------------------------------------------------------------- replay of a recorded failing input

def replay(ctx, payload):
    """True: the recorded input no longer fails; False: still fails; None: not replayable"""
    from common import gq_to_complex
    from c04 import _op_from_json, _arr, ERRS
    of = ctx.of
    bk, bkt, fw = mods(ctx)
    v = payload.get('violation')
    if not v:
        return None
    case, detail = v.get('input', {}), v.get('detail', {})
    req = detail.get('request')
    if not req:
        return None
    req = dict(req)
    try:
        fn = case.get('fn')
        if fn in ('bk', 'tree') and 'fermion' in case:
            f = of.transforms.bravyi_kitaev if fn == 'bk' else of.transforms.bravyi_kitaev_tree
            req['Q'] = enc_op('qubit', f(_op_from_json(of, 'fermion', case['fermion']), case['n_qubits']).terms)
        elif fn == 'bk' and 'majorana' in case:
            M = of.MajoranaOperator.from_dict({tuple(i for i, _ in t): gq_to_complex(c) for t, c in case['majorana']})
            req['Q'] = enc_op('qubit', of.transforms.bravyi_kitaev(M, case['n_qubits']).terms)
        elif fn == '_seeley_richard_love':
            ops, coefs = bk._seeley_richard_love(case['i'], case['j'], gq_to_complex(case['coef']), case['n_qubits'])
            req['Q'] = enc_op('qubit', bk._qubit_operator_creation(ops, coefs).terms)
        elif fn == 'bravyi_kitaev' and 'interaction_operator' in case:
            d = case['interaction_operator']
            N = d['N']
            iop = of.InteractionOperator(gq_to_complex(d['constant']), _arr(d['one'], (N, N)), _arr(d['two'], (N,) * 4))
            req['Q'] = enc_op('qubit', of.transforms.bravyi_kitaev(iop, case['n_qubits']).terms)
        elif fn == '_update_set/_occupation_set/_parity_set':
            j, n = case['index'], case['n']
            req.update({'update': sorted(bk._update_set(j, n)), 'occupation': sorted(bk._occupation_set(j)),
                        'parity': sorted(bk._parity_set(j))})
            return ctx.driver.one(req) is True
        else:
            return None
    except Exception:
        return False
    return bool(ctx.driver.one(req)['eq'])


# ---------------------------------------------------------------- hardening: State, Types, Bands, Asymmetry

def stream_hardening(ctx):
    import copy
    from c04 import (soft, twice, mutate_operator, herm_tensors, cast, ARRAY_KINDS, SCALARS, band_val, arrays_equal,
                     sparse_spec_op, rand_coeff as rc, is_complex_kind, COMPLEX_KINDS, QUARTIC_STORAGE, quartic_tensors,
                     elementwise_hermitian)
    of = ctx.of
    bk, bkt, fw = mods(ctx)
    BK = of.transforms.bravyi_kitaev
    BKT = of.transforms.bravyi_kitaev_tree
    st = Stream('hardening', '(S) every path is called twice around an in-place modification of its first result (operators, '
                'index sets, SRL lists, tree set lists), arguments are snapshotted before / after (including the tensors '
                'inside InteractionOperators), operators / tensors edited in place are re-transformed and compared with a '
                'freshly built equal object; (T) tensors as float64 / complex128 / complex64 / clongdouble / longdouble / '
                'float32 / int64 / int32 / Fortran-ordered arrays, every complex dtype with a guaranteed four-distinct-mode '
                'entry, a number-excitation entry and a hopping with non-zero imaginary parts (N = 4..6), SRL coefficients as Python int / float / complex / bool and numpy scalars, numpy '
                'scalars in .terms (a type this tree rejects is excluded and counted, never an alarm); (B) dyadic entries '
                'of magnitude 2e-6 .. 9e-5 next to O(1) ones in InteractionOperators (one-body, coulomb, number-excitation, '
                'quartic) and FermionOperators, n_qubits 9 .. 20 and > 256, indices >= 257; (A) complex constants, purely '
                'imaginary entries, non-Hermitian tensors (Model comparison only), Hermitian operators in NON-canonical '
                'storage (Hermitian partner stored on an antisymmetry-related entry with the opposite sign, weight split '
                'between T[pqrs] / -T[qprs] / -T[pqsr] / T[qpsr], junk on p = q / r = s entries; oracle = the operator the '
                'stored tensor denotes), both operand orders.  Compared exactly '
                'with the Model and, where admissible, with the Spec oracle; distinct = distinct (check, input)')
    b = Batch(ctx, st)
    rng = rng_for(ctx.seed, 'c05-hardening')
    reps = budget(ctx.tier, 1, 4) * (2 if ctx.drift else 1)
    qenc = lambda Q: enc_op('qubit', Q.terms)   # noqa: E731

    # ---- (T) SRL coefficients of every scalar type; (S) SRL lists, index sets, tree sets
    for rep in range(reps):
        for tag, c in SCALARS:
            n = rng.choice([5, 6, 7, 8])
            i, j = rng.randrange(n), rng.randrange(n)
            case = {'fn': '_seeley_richard_love', 'i': i, 'j': j, 'n_qubits': n, 'coef': to_gq(c), 'coefficient_type': tag}
            st.case(case)

            def run():
                ops, coefs = bk._seeley_richard_love(i, j, c, n)
                return bk._qubit_operator_creation(ops, coefs)
            ok, Q = soft(st, 'srl:' + tag, run)
            if ok:
                st.count('type-accepted:srl:' + tag)
                jQ = qenc(Q)
                b.add('_seeley_richard_love[%s]' % tag, case, {'op': jQ, 'n_ops': 0},
                      {'op': 'c05.srl', 'i': i, 'j': j, 'coef': to_gq(c), 'n': n},
                      oracle('bk', 'fermion', n, ['one_body_term', i, j, to_gq(c)], jQ),
                      cmp=lambda st_, what, case_, impl, mo: None if canon_op_json(impl['op']) == canon_op_json(mo['op'])
                      else st_.disagree(what + ': terms differ', case_, impl, mo))
            A = of.FermionOperator()
            A.terms[((2, 1), (0, 0))] = c
            A.terms[((1, 1),)] = 0.5
            jA = enc_op('fermion', A.terms)
            for variant, fn, mop in (('bk', BK, 'c05.fermion'), ('tree', BKT, 'c05.tree')):
                case = {'fn': variant, 'n_qubits': 5, 'fermion': jA, 'coefficient_type': tag}
                st.case(case)
                ok, Q = soft(st, variant + '-terms:' + tag, lambda: fn(A, 5))
                if ok:
                    st.count('type-accepted:%s-terms:%s' % (variant, tag))
                    b.add('%s(.terms holds %s)' % (variant, tag), case, qenc(Q), {'op': mop, 'n': 5, 'A': jA},
                          oracle(variant, 'fermion', 5, ['op', jA], qenc(Q)))
        # (S) plain-Python results: sets and lists
        n = rng.choice([6, 7, 11, 13])
        j = rng.randrange(n)
        case = {'fn': 'index sets', 'n': n, 'index': j, 'check': 'state'}
        st.case(case)
        for name, f in (('_update_set', lambda: bk._update_set(j, n)), ('_occupation_set', lambda: bk._occupation_set(j)),
                        ('_parity_set', lambda: bk._parity_set(j))):
            ok, s1 = call(st, name, case, f)
            if not ok:
                continue
            first = sorted(s1)
            s1.add(999)
            s1.discard(first[0] if first else 999)
            ok, s2 = call(st, name, case, f)
            st.count('state:called-twice-around-mutation')
            if ok and (sorted(s2) != first or s2 is s1):
                st.violate(name + ': the second call differs after the first result was modified in place', case,
                           {'first': first, 'second': sorted(s2)})
        i2 = rng.randrange(n)
        ok, r1 = call(st, '_seeley_richard_love', case, lambda: bk._seeley_richard_love(i2, j, 0.5 - 1j, n))
        if ok:
            first = copy.deepcopy(r1)
            r1[0].append(((0, 'X'),))
            r1[1].append(7.0)
            if r1[1]:
                r1[1][0] = 123.0
            ok, r2 = call(st, '_seeley_richard_love', case, lambda: bk._seeley_richard_love(i2, j, 0.5 - 1j, n))
            st.count('state:called-twice-around-mutation')
            if ok and (r2[0] != first[0] or r2[1] != first[1]):
                st.violate('_seeley_richard_love: the second call differs after the first result was modified', case, {})
        ok, tree = call(st, 'FenwickTree', case, lambda: fw.FenwickTree(n))
        if ok:
            for name, f in (('get_update_set', lambda: tree.get_update_set(j)),
                            ('get_remainder_set', lambda: tree.get_remainder_set(j)),
                            ('get_parity_set', lambda: tree.get_parity_set(j))):
                ok, l1 = call(st, name, case, f)
                if not ok:
                    continue
                first = [x.index for x in l1]
                l1.append(tree.get_node(0))
                if len(l1) > 1:
                    del l1[0]
                ok, l2 = call(st, name, case, f)
                st.count('state:called-twice-around-mutation')
                if ok and [x.index for x in l2] != first:
                    st.violate('FenwickTree.%s: the second call differs after the first result was modified' % name, case,
                               {'first': first, 'second': [x.index for x in l2]})
            # the children list is the tree's own storage: only check that repeated queries agree
            c1 = [x.index for x in tree.get_children_set(j)]
            c2 = [x.index for x in tree.get_children_set(j)]
            if c1 != c2:
                st.violate('FenwickTree.get_children_set: repeated queries differ', case, {})
    b.flush()

    # ---- (S) operator paths
    for rep in range(3 * reps):
        A = rand_fermion_op(rng, of, rng.randint(2, 6), 3, 4)
        B = rand_fermion_op(rng, of, rng.randint(2, 6), 2, 3)
        jA = enc_op('fermion', A.terms)
        snap = copy.deepcopy(A.terms)
        n = max(modes_of(jA), modes_of(enc_op('fermion', B.terms))) + rng.choice([0, 1, 2])
        for variant, fn in (('bk', BK), ('tree', BKT)):
            case = {'fn': variant, 'n_qubits': n, 'fermion': jA, 'check': 'state'}
            st.case(case)
            twice(st, variant + '(FermionOperator)', case, lambda: fn(A, n), qenc, mutate_operator)
            if A.terms != snap:
                st.violate(variant + ' modified its FermionOperator argument', case, {})
        A2 = copy.deepcopy(A)
        A2 += B
        A2 *= 2
        fresh = of.FermionOperator()
        for t, c in A2.terms.items():
            fresh += of.FermionOperator(t, c)
        for variant, fn in (('bk', BK), ('tree', BKT)):
            ok1, Qa = call(st, variant + '(edited operator)', {'fn': variant}, lambda: fn(A2, n))
            ok2, Qf = call(st, variant + '(fresh operator)', {'fn': variant}, lambda: fn(fresh, n))
            st.count('state:edited-in-place-then-requeried')
            if ok1 and ok2 and canon_nz(qenc(Qa)) != canon_nz(qenc(Qf)):
                st.violate(variant + ' of an operator edited in place differs from a freshly built equal operator',
                           {'fermion': enc_op('fermion', A2.terms), 'n_qubits': n}, {})
        for X, Y in ((A, B), (B, A)):
            if len(X.terms) * len(Y.terms) <= 9:
                ok1, l = call(st, 'bk(X*Y)', {'fn': 'bk'}, lambda: BK(X * Y, n))
                ok2, r = call(st, 'bk(X)*bk(Y)', {'fn': 'bk'}, lambda: BK(X, n) * BK(Y, n))
                st.count('asymmetry:both-operand-orders')
                if ok1 and ok2 and canon_nz(qenc(l)) != canon_nz(qenc(r)):
                    st.violate('bravyi_kitaev(X*Y) != bravyi_kitaev(X)*bravyi_kitaev(Y)',
                               {'X': enc_op('fermion', X.terms), 'Y': enc_op('fermion', Y.terms), 'n_qubits': n}, {})
        M = rand_majorana_op(rng, of, rng.randint(2, 10), 3, 4)
        jM = enc_op('majorana', M.terms)
        nm = (modes_of(jM) + 1) // 2 + rng.choice([0, 1])
        case = {'fn': 'bk', 'n_qubits': nm, 'majorana': jM, 'check': 'state'}
        st.case(case)
        twice(st, 'bravyi_kitaev(MajoranaOperator)', case, lambda: BK(M, nm), qenc, mutate_operator)
        if enc_op('majorana', M.terms) != jM:
            st.violate('bravyi_kitaev modified its MajoranaOperator argument', case, {})

    # ---- (T)(A)(S) InteractionOperator: array types, complex constant, non-Hermitian (Model only), in-place edits
    for rep in range(reps):
        for kind in ARRAY_KINDS:
            N = rng.choice([2, 3, 3, 4])
            real = not is_complex_kind(kind)
            integer = kind.startswith('int')
            one, two = herm_tensors(rng, N, not real, rng.choice([0.3, 1.0]), integer)
            const = rng.choice([0.0, 1.5, 0.5 - 0.25j, 2j])
            c1, c2 = cast(one, kind), cast(two, kind)
            s1, s2 = c1.copy(), c2.copy()
            nq = N + rng.choice([0, 1, 2])
            ok, iop = soft(st, 'InteractionOperator:' + kind, lambda: of.InteractionOperator(const, c1, c2))
            if not ok:
                continue
            j1, j2, jc = flat(iop.one_body_tensor), flat(iop.two_body_tensor), to_gq(const)
            case = {'fn': 'bravyi_kitaev', 'n_qubits': nq, 'array_type': kind,
                    'interaction_operator': {'N': N, 'constant': jc, 'one': j1, 'two': j2}}
            st.case(case)
            ok, Q = soft(st, 'bk(InteractionOperator):' + kind, lambda: BK(iop, nq))
            if not ok:
                continue
            st.count('type-accepted:InteractionOperator:' + kind)
            b.add('bravyi_kitaev(InteractionOperator[%s])' % kind, case, qenc(Q),
                  {'op': 'c05.iop', 'N': N, 'n': nq, 'constant': jc, 'one': j1, 'two': j2},
                  oracle('bk', 'fermion', nq, ['op', sparse_spec_op(const, s1, s2)], qenc(Q)))
            if not (arrays_equal(iop.one_body_tensor, s1) and arrays_equal(iop.two_body_tensor, s2)
                    and arrays_equal(c1, s1) and arrays_equal(c2, s2)) or iop.constant != const:
                st.violate('bravyi_kitaev modified its InteractionOperator argument', case, {})
            twice(st, 'bravyi_kitaev(InteractionOperator)', case, lambda: BK(iop, nq), qenc, mutate_operator)
            if N >= 2 and not integer:
                v = 0.75 if real else (0.75 - 0.5j)
                iop.one_body_tensor[0, 1] = v
                iop.one_body_tensor[1, 0] = numpy.conj(v)
                iop.two_body_tensor[0, 1, 1, 0] = 1.25
                fresh_iop = of.InteractionOperator(const, iop.one_body_tensor.copy(), iop.two_body_tensor.copy())
                if kind in ('clongdouble', 'longdouble'):
                    # scalars of these dtypes are not accepted as QubitOperator coefficients by the unmodified tree:
                    # whether a transform raises depends on which entries are non-zero, so the edited calls are probes
                    ok1, Qa = soft(st, 'bk(edited InteractionOperator):' + kind, lambda: BK(iop, nq))
                    ok2, Qf = soft(st, 'bk(fresh InteractionOperator):' + kind, lambda: BK(fresh_iop, nq))
                    if ok1 != ok2:
                        st.violate('bravyi_kitaev accepts an InteractionOperator edited in place but not a fresh equal one '
                                   '(or vice versa)', case, {})
                else:
                    ok1, Qa = call(st, 'bk(edited InteractionOperator)', case, lambda: BK(iop, nq))
                    ok2, Qf = call(st, 'bk(fresh InteractionOperator)', case, lambda: BK(fresh_iop, nq))
                st.count('state:edited-in-place-then-requeried')
                if ok1 and ok2 and canon_op_json(qenc(Qa)) != canon_op_json(qenc(Qf)):
                    st.violate('bravyi_kitaev of an InteractionOperator edited in place differs from a fresh one', case, {})
        N = rng.choice([2, 3])
        one = numpy.array([[complex(rng.randint(-4, 4) / 2, rng.randint(-4, 4) / 4) for _ in range(N)] for _ in range(N)])
        two = numpy.zeros((N,) * 4, dtype=complex)
        for idx in itertools.product(range(N), repeat=4):
            if rng.random() < 0.4:
                two[idx] = complex(rng.randint(-4, 4) / 2, rng.randint(-4, 4) / 4)
        iop = of.InteractionOperator(0.5j, one, two)
        case = {'fn': 'bravyi_kitaev', 'n_qubits': N + 1, 'check': 'non-Hermitian, Model only',
                'interaction_operator': {'N': N, 'constant': to_gq(0.5j), 'one': flat(one), 'two': flat(two)}}
        st.case(case)
        st.count('asymmetry:non-hermitian-tensor')
        ok, Q = call(st, 'bravyi_kitaev(non-Hermitian InteractionOperator)', case, lambda: BK(iop, N + 1))
        if ok:
            b.add('bravyi_kitaev(non-Hermitian InteractionOperator)', case, qenc(Q),
                  {'op': 'c05.iop', 'N': N, 'n': N + 1, 'constant': to_gq(0.5j), 'one': flat(one), 'two': flat(two)})
    b.flush()

    # ---- (T)(A) complex four-distinct-mode entries in every complex dtype (complex64 / clongdouble scalars are not
    #      Python complex); Hermitian operators whose STORAGE is not Hermitian element by element
    for rep in range(2 * reps):
        for ki, kind in enumerate(COMPLEX_KINDS + ['float64', 'float32']):
            N = rng.choice([4, 5, 5, 6])
            storage = QUARTIC_STORAGE[(rep + ki) % len(QUARTIC_STORAGE)]
            one, two = quartic_tensors(rng, N, is_complex_kind(kind), storage)
            const = rng.choice([0.0, 1.5, 0.5 - 0.25j])
            c1, c2 = cast(one, kind), cast(two, kind)
            s1, s2 = c1.copy(), c2.copy()
            nq = N + rng.choice([0, 1, 2])
            ok, iop = soft(st, 'InteractionOperator:' + kind, lambda: of.InteractionOperator(const, c1, c2))
            if not ok:
                continue
            j1, j2, jc = flat(iop.one_body_tensor), flat(iop.two_body_tensor), to_gq(const)
            case = {'fn': 'bravyi_kitaev', 'n_qubits': nq, 'array_type': kind, 'storage': storage,
                    'interaction_operator': {'N': N, 'constant': jc, 'one': j1, 'two': j2}}
            st.case(case)
            ok, Q = soft(st, 'bk(InteractionOperator):' + kind, lambda: BK(iop, nq))
            if not ok:
                continue
            st.count('quartic-entry:%s:%s' % (kind, storage))
            st.count('storage:' + ('elementwise-hermitian' if elementwise_hermitian(s2) else 'non-canonical'))
            b.add('bravyi_kitaev(InteractionOperator[%s], %s storage)' % (kind, storage), case, qenc(Q),
                  {'op': 'c05.iop', 'N': N, 'n': nq, 'constant': jc, 'one': j1, 'two': j2},
                  oracle('bk', 'fermion', nq, ['op', sparse_spec_op(const, s1, s2)], qenc(Q)))
            ok, QF = soft(st, 'bk(get_fermion_operator(iop)):' + kind,
                          lambda: BK(of.transforms.get_fermion_operator(iop), nq))
            if ok and canon_nz(qenc(Q)) != canon_nz(qenc(QF)):
                st.violate('InteractionOperator path differs from the FermionOperator path (%s, %s storage)'
                           % (kind, storage), case, {'fast': qenc(Q), 'fermion_path': qenc(QF)})
    b.flush()

    # ---- (B) small entries next to O(1) ones; n_qubits 9..20 and > 256
    from c04 import FORCED_BAND, band_tensors
    for rep in range(len(FORCED_BAND) * reps):
        forced = FORCED_BAND[rep % len(FORCED_BAND)]
        N = rng.choice([4, 4, 5, 5, 6])
        cplx = rng.random() < 0.6
        one, two = band_tensors(rng, N, cplx, forced, st)
        const = rng.choice([0.0, 1.5])
        iop = of.InteractionOperator(const, one, two)
        nq = N + rng.choice([0, 1, 2])
        A = sparse_spec_op(const, one, two)
        case = {'fn': 'bravyi_kitaev', 'n_qubits': nq, 'interaction_operator_sparse': {'N': N, 'terms': A},
                'check': 'band 2e-6..9e-5 next to O(1)'}
        st.case(case)
        ok, Q = call(st, 'bravyi_kitaev(InteractionOperator with small entries)', case, lambda: BK(iop, nq))
        if ok:
            jQ = qenc(Q)
            b.add('bravyi_kitaev(InteractionOperator with small entries)', case, jQ,
                  {'op': 'c05.iop', 'N': N, 'n': nq, 'constant': to_gq(const), 'one': flat(one), 'two': flat(two)},
                  oracle('bk', 'fermion', nq, ['op', A], jQ))
            ok, QF = call(st, 'bk(get_fermion_operator(iop))', case,
                          lambda: BK(of.transforms.get_fermion_operator(iop), nq))
            if ok and canon_nz(jQ) != canon_nz(qenc(QF)):
                st.violate('InteractionOperator path differs from the FermionOperator path (small entries)', case, {})
        F = of.FermionOperator()
        nm = rng.randint(2, 6)
        for _ in range(3):
            t = tuple((rng.randrange(nm), rng.randint(0, 1)) for _ in range(rng.randint(1, 3)))
            F += of.FermionOperator(t, band_val(rng, True) if rng.random() < 0.6 else rc(rng))
        jF = enc_op('fermion', F.terms)
        nqf = max(modes_of(jF), 1) + rng.choice([0, 1])
        for variant, fn, mop in (('bk', BK, 'c05.fermion'), ('tree', BKT, 'c05.tree')):
            case = {'fn': variant, 'n_qubits': nqf, 'fermion': jF, 'check': 'band'}
            st.case(case)
            ok, Q = call(st, variant + '(FermionOperator with small coefficients)', case, lambda: fn(F, nqf))
            if ok:
                b.add(variant + '(FermionOperator with small coefficients)', case, qenc(Q), {'op': mop, 'n': nqf, 'A': jF},
                      oracle(variant, 'fermion', nqf, ['op', jF], qenc(Q)))
    for rep in range(reps):
        for nq in (rng.randint(9, 20), 300):
            lo = 0 if nq <= 20 else 256
            F = of.FermionOperator()
            for _ in range(2):
                t = tuple((rng.randrange(lo, nq), rng.randint(0, 1)) for _ in range(rng.randint(1, 2)))
                F += of.FermionOperator(t, rc(rng))
            jF = enc_op('fermion', F.terms)
            for variant, fn, mop in (('bk', BK, 'c05.fermion'), ('tree', BKT, 'c05.tree')):
                case = {'fn': variant, 'n_qubits': nq, 'fermion': jF, 'check': 'n_qubits 9..20 / > 256'}
                st.case(case)
                st.count('size:n_qubits=%s' % ('9..20' if nq <= 20 else '300'))
                ok, Q = call(st, variant + '(large register)', case, lambda: fn(F, nq))
                if ok:
                    b.add(variant + '(large register)', case, qenc(Q), {'op': mop, 'n': nq, 'A': jF})
            i, j = rng.randrange(lo, nq), rng.randrange(lo, nq)
            c = rc(rng, 'complex')
            case = {'fn': '_seeley_richard_love', 'i': i, 'j': j, 'n_qubits': nq, 'coef': to_gq(c)}
            st.case(case)

            def run():
                ops, coefs = bk._seeley_richard_love(i, j, c, nq)
                return bk._qubit_operator_creation(ops, coefs)
            ok, Q = call(st, '_seeley_richard_love(large register)', case, run)
            if ok:
                b.add('_seeley_richard_love(large register)', case, {'op': qenc(Q), 'n_ops': 0},
                      {'op': 'c05.srl', 'i': i, 'j': j, 'coef': to_gq(c), 'n': nq},
                      cmp=lambda st_, what, case_, impl, mo: None if canon_op_json(impl['op']) == canon_op_json(mo['op'])
                      else st_.disagree(what + ': terms differ', case_, impl, mo))
    b.flush()
    return st


def stream_bksf_edges(ctx):
    """edge operators of the Bravyi-Kitaev superfast transform"""
    of = ctx.of
    bksf = importlib.import_module('openfermion.transforms.opconversions.bksf')
    st = Stream('bksf-edge-operators', 'edge_operator_b / edge_operator_aij of bksf.py on (a) the edge_matrix_indices the '
                'library derives from seeded random Hermitian InteractionOperators (bravyi_kitaev_fast_edge_matrix, N <= 6) '
                'and (b) seeded random simple graphs given directly (up to 9 vertices, any column order, both orientations of '
                'an edge); Model compared exactly for ALL vertices i and ALL ordered pairs (i, j) that are edges; on the '
                'implementation\'s outputs the edge algebra is checked exactly: B_i B_k = B_k B_i, B_i^2 = 1, A_ij^2 = 1, '
                'A_ji = -A_ij, A_ij B_k = -/+ B_k A_ij (k in / not in {i,j}), A_ij A_kl = -/+ A_kl A_ij (one / no common vertex); '
                'distinct = (graph, operator)')
    rng = rng_for(ctx.seed, 'c05-bksf')
    graphs = []
    for k in range(budget(ctx.tier, 10, 60)):
        N = rng.choice([3, 4, 4, 5, 6])
        iop = rand_hermitian_iop(rng, of, N, rng.random() < 0.5, rng.choice([0.08, 0.15, 0.3]))
        ok, em = call(st, 'bravyi_kitaev_fast_edge_matrix', {'N': N}, lambda: bksf.bravyi_kitaev_fast_edge_matrix(iop))
        if not ok:
            continue
        emi = numpy.array(numpy.nonzero(numpy.triu(em) - numpy.diag(numpy.diag(em))))
        graphs.append(('from-interaction-operator', N, emi))
    for k in range(budget(ctx.tier, 14, 80)):
        N = rng.randint(2, 9)
        pairs = [(a, b) for a in range(N) for b in range(a + 1, N)]
        rng.shuffle(pairs)
        pairs = pairs[:rng.randint(1, min(len(pairs), 10))]
        if k % 3 == 0:
            pairs.sort()
        cols = [(a, b) if (k % 2 == 0 or rng.random() < 0.5) else (b, a) for a, b in pairs]
        emi = numpy.array([[c[0] for c in cols], [c[1] for c in cols]])
        graphs.append(('given-graph', N, emi))
    reqs, meta = [], []
    for kind, N, emi in graphs:
        E = [[int(emi[0, e]), int(emi[1, e])] for e in range(emi.shape[1])]
        st.count('graph:%s:edges=%d' % (kind, min(len(E), 10)))
        ops_b, ops_a = {}, {}
        for i in range(N):
            case = {'fn': 'edge_operator_b', 'edges': E, 'i': i}
            st.case(case)
            ok, B = call(st, 'edge_operator_b', case, lambda: bksf.edge_operator_b(emi, i))
            if ok:
                ops_b[i] = B
                reqs.append({'op': 'c05.bksf_b', 'edges': E, 'i': i})
                meta.append(('edge_operator_b', case, enc_op('qubit', B.terms)))
        for (a, b) in {(e[0], e[1]) for e in E} | {(e[1], e[0]) for e in E}:
            case = {'fn': 'edge_operator_aij', 'edges': E, 'i': a, 'j': b}
            st.case(case)
            ok, A = call(st, 'edge_operator_aij', case, lambda: bksf.edge_operator_aij(emi, a, b))
            if ok:
                ops_a[(a, b)] = A
                reqs.append({'op': 'c05.bksf_a', 'edges': E, 'i': a, 'j': b})
                meta.append(('edge_operator_aij', case, enc_op('qubit', A.terms)))
        # the edge algebra, on the implementation's outputs (exact: coefficients are +-1)
        one = of.QubitOperator(())
        zero = of.QubitOperator()

        def check(name, lhs, rhs, inp):
            st.count('algebra:' + name)
            if not (lhs - rhs) == zero:
                st.violate('edge algebra violated: ' + name, dict(inp, edges=E), {})
        for i, B in ops_b.items():
            check('B_i^2 = 1', B * B, one, {'i': i})
            for k2, B2 in ops_b.items():
                if k2 > i:
                    check('B_i B_k = B_k B_i', B * B2, B2 * B, {'i': i, 'k': k2})
        for (a, b), A in ops_a.items():
            check('A_ij^2 = 1', A * A, one, {'i': a, 'j': b})
            if (b, a) in ops_a:
                check('A_ji = -A_ij', ops_a[(b, a)], -1 * A, {'i': a, 'j': b})
            for k2, B2 in ops_b.items():
                sgn = -1 if k2 in (a, b) else 1
                check('A_ij B_k = %s B_k A_ij' % ('-' if sgn < 0 else '+'), A * B2, sgn * (B2 * A), {'i': a, 'j': b, 'k': k2})
            for (c, d2), A2 in ops_a.items():
                if {c, d2} == {a, b} or (c, d2) <= (a, b):
                    continue
                sgn = -1 if len({a, b} & {c, d2}) == 1 else 1
                check('A_ij A_kl = %s A_kl A_ij' % ('-' if sgn < 0 else '+'), A * A2, sgn * (A2 * A),
                      {'i': a, 'j': b, 'k': c, 'l': d2})
    for (what, case, impl), mo in zip(meta, ctx.driver.run(reqs)):
        if mo is None or canon_op_json(impl) != canon_op_json(mo):
            st.disagree(what + ': terms differ', case, impl, mo)
    return st


# ---- Spec oracle for the superfast encoding: isospectrality with the even-parity sector -----------------------------
SPECTRUM_TOL = 1e-7
MAX_SPECTRAL_EDGES = 8


def apply_qubit_op(Q, m):
    """Q|m> for a QubitOperator and a computational basis state, as {basis state: amplitude} (zeros dropped)"""
    out = {}
    for t, c in Q.terms.items():
        x, amp = m, complex(c)
        for qb, a in t:
            bit = (x >> qb) & 1
            if a == 'X':
                x ^= 1 << qb
            elif a == 'Y':
                x ^= 1 << qb
                amp *= (1j if bit == 0 else -1j)
            elif a == 'Z':
                amp *= (-1 if bit else 1)
        out[x] = out.get(x, 0) + amp
    return {k: v for k, v in out.items() if v != 0}


def graph_connected(N, E):
    if N == 0:
        return False
    adj = {i: set() for i in range(N)}
    for a, b in E:
        adj[a].add(b)
        adj[b].add(a)
    seen, todo = {0}, [0]
    while todo:
        v = todo.pop()
        for w in adj[v]:
            if w not in seen:
                seen.add(w)
                todo.append(w)
    return len(seen) == N


def even_sector_spectrum(of, fermion_op, N):
    """eigenvalues of a Hermitian FermionOperator on the even-parity sector of N modes"""
    from openfermion.linalg import get_sparse_operator
    M = get_sparse_operator(fermion_op, n_qubits=N).toarray()
    idx = [x for x in range(2 ** N) if bin(x).count('1') % 2 == 0]
    return numpy.linalg.eigvalsh(M[numpy.ix_(idx, idx)])


def qubit_spectrum(of, Q, n):
    from openfermion.linalg import get_sparse_operator
    M = get_sparse_operator(Q, n_qubits=n).toarray()
    if numpy.allclose(M, M.conj().T, atol=1e-12):
        return numpy.linalg.eigvalsh(M)
    return numpy.linalg.eigvals(M)


def spectrum_contained(ev, qv):
    """every even-sector eigenvalue of the fermionic operator is an eigenvalue of the qubit operator.  On a connected
    graph with all N vertices the stabiliser subspace of the superfast encoding is isomorphic to the even-parity Fock
    space and the encoded operator commutes with the stabilisers, so this is necessary for a correct encoding"""
    scale = max(1.0, float(numpy.max(numpy.abs(ev))) if len(ev) else 1.0)
    return all(float(numpy.min(numpy.abs(qv - e))) < SPECTRUM_TOL * scale for e in ev)


def stream_bksf_terms(ctx):
    """_one_body / _two_body of the Bravyi-Kitaev superfast transform on given graphs"""
    of = ctx.of
    bksf = importlib.import_module('openfermion.transforms.opconversions.bksf')
    st = Stream('bksf-term-images', '_one_body(edge_matrix_indices, p, q) for ALL p, q < N and _two_body(edge_matrix_indices, '
                'p, q, r, s) for seeded index tuples with p != q, r != s (4, 3 and 2 distinct indices, every equal-index '
                'pattern) on seeded random simple graphs (N <= 6 vertices, columns (a, b) with a < b in row-major order as the '
                'library builds them, and shuffled / re-oriented columns): the returned QubitOperator is compared EXACTLY with '
                'the Model; when an edge operator of a non-edge is needed the library must raise ValueError exactly when the '
                'Model returns null; the exact-regime flags oneBodyOk / twoBody4Ok of bksf_one_body_* / bksf_two_body_four_index_* are '
                'evaluated; EXACT Spec check of the double-excitation selection rule (four distinct indices: the image is -A_pq A_rs on '
                'basis states with p, q occupied and r, s empty or vice versa, 0 on all others) on random basis states; on '
                'the implementation\'s output: Hermitian; SPEC ORACLE (numeric, tolerance 1e-7 on eigenvalues, graphs that are '
                'connected with <= 8 edges): the even-parity-sector spectrum of (generic hopping on every edge + on-site terms) and of '
                '(that background + 0.625 (a†_p a†_q a_r a_s + h.c.); for two distinct indices the self-adjoint term alone) is contained in the spectrum of the sum of the _one_body / '
                '_two_body images (this oracle found the wrong sign of the B_p B_q B_r B_s term of the four-index formula, repaired '
                'in the source since); distinct = (graph, index tuple)')
    rng = rng_for(ctx.seed, 'c05-bksf-terms')
    reqs, meta = [], []

    def run_impl(case, f):
        """(status, value): 'ok' / 'missing-edge' / None (violation recorded)"""
        try:
            return 'ok', f()
        except ValueError as e:
            if 'Invalid index in factor (-1' in str(e):
                return 'missing-edge', None
            st.violate('%s raised ValueError: %s' % (case['fn'], str(e)[:200]), case, {})
        except Exception as e:   # noqa
            st.violate('%s raised %s: %s' % (case['fn'], type(e).__name__, str(e)[:200]), case, {})
        return None, None

    for k in range(budget(ctx.tier, 10, 60)):
        N = rng.randint(2, 6)
        pairs = [(a, b) for a in range(N) for b in range(a + 1, N)]
        rng.shuffle(pairs)
        if k % 2 == 0 and N >= 3:
            # connected, at most 8 edges (the spectral Spec check applies): a random spanning tree + a few more edges
            order = list(range(N))
            rng.shuffle(order)
            tree = {tuple(sorted((order[i], order[rng.randrange(i)]))) for i in range(1, N)}
            extra = [e for e in pairs if e not in tree][:rng.randint(0, max(0, min(MAX_SPECTRAL_EDGES, len(pairs)) - (N - 1)))]
            pairs = list(tree) + extra
            rng.shuffle(pairs)
        else:
            pairs = pairs[:rng.randint(1, len(pairs))]
        if k % 3 != 2:
            cols = sorted(pairs)
        else:
            cols = [(a, b) if rng.random() < 0.5 else (b, a) for a, b in pairs]
        emi = numpy.array([[c[0] for c in cols], [c[1] for c in cols]])
        E = [[int(a), int(b)] for a, b in cols]
        st.count('graph:edges=%d:%s' % (len(E), 'library-order' if k % 3 != 2 else 'shuffled'))
        # background for the spectral Spec check: generic hopping on every edge + on-site terms, through _one_body
        bg, spectral_left = None, {2: budget(ctx.tier, 2, 8), 3: budget(ctx.tier, 4, 12), 4: budget(ctx.tier, 4, 12)}
        if graph_connected(N, E) and len(E) <= MAX_SPECTRAL_EDGES:
            try:
                bf, bq = of.FermionOperator(), of.QubitOperator()
                for e, (a, b) in enumerate(E):
                    w = 0.75 - 0.09375 * e
                    bf += w * (of.FermionOperator(((a, 1), (b, 0))) + of.FermionOperator(((b, 1), (a, 0))))
                    bq += w * bksf._one_body(emi, a, b)
                for i in range(N):
                    w = [0.3125, -0.1875, 0.5, 0.875, -0.4375, 0.6875][i]
                    bf += w * of.FermionOperator(((i, 1), (i, 0)))
                    bq += w * bksf._one_body(emi, i, i)
                st.float_comparisons += 1
                if spectrum_contained(even_sector_spectrum(of, bf, N), qubit_spectrum(of, bq, len(E))):
                    bg = (bf, bq)
                    st.count('spectral check _one_body background: ok')
                else:
                    st.violate('_one_body images of hopping + number terms do not reproduce the even-sector spectrum',
                               {'fn': '_one_body', 'edges': E}, {})
            except Exception as e:   # noqa
                st.violate('_one_body raised %s on an edge of the graph' % type(e).__name__, {'fn': '_one_body', 'edges': E}, {})
        for p in range(N):
            for q in range(N):
                case = {'fn': '_one_body', 'edges': E, 'p': p, 'q': q}
                st.case(case)
                status, Q = run_impl(case, lambda: bksf._one_body(emi, p, q))
                if status is None:
                    continue
                reqs.append({'op': 'c05.bksf_one_body', 'edges': E, 'p': p, 'q': q})
                meta.append(('one', case, status, None if Q is None else enc_op('qubit', Q.terms)))
                if Q is not None and not (of.hermitian_conjugated(Q) == Q):
                    st.violate('_one_body output is not Hermitian', case, {})
        tuples = set()
        for _ in range(budget(ctx.tier, 40, 120)):
            nd = rng.choice([2, 3, 3, 4, 4]) if N >= 4 else rng.choice([2, 3] if N >= 3 else [2])
            vs = rng.sample(range(N), nd)
            if nd == 4:
                t = tuple(vs)
            elif nd == 3:
                a, b, c = vs
                t = rng.choice([(a, b, a, c), (a, b, c, a), (b, a, a, c), (b, a, c, a)])
            else:
                a, b = vs
                t = rng.choice([(a, b, a, b), (a, b, b, a)])
            tuples.add(t)
        for (p, q, r, s2) in sorted(tuples):
            case = {'fn': '_two_body', 'edges': E, 'p': p, 'q': q, 'r': r, 's': s2}
            st.case(case)
            st.count('two_body:distinct=%d' % len({p, q, r, s2}))
            status, Q = run_impl(case, lambda: bksf._two_body(emi, p, q, r, s2))
            if status is None:
                continue
            reqs.append({'op': 'c05.bksf_two_body', 'edges': E, 'p': p, 'q': q, 'r': r, 's': s2})
            meta.append(('two', case, status, None if Q is None else enc_op('qubit', Q.terms)))
            if Q is not None and not (of.hermitian_conjugated(Q) == Q):
                st.violate('_two_body output is not Hermitian', case, {})
            if Q is not None and len({p, q, r, s2}) == 4:
                # Spec (bksf_two_body_four_index_sound), exact, on the implementation's outputs: on a basis state m the
                # image vanishes unless p, q are occupied and r, s empty (or the other way round); there it is -A_pq A_rs
                AA = bksf.edge_operator_aij(emi, p, q) * bksf.edge_operator_aij(emi, r, s2)
                for _ in range(4):
                    m = rng.getrandbits(len(E))
                    occ = {i: sum(1 for e, (a, b) in enumerate(E) if (m >> e) & 1 and i in (a, b)) % 2 for i in (p, q, r, s2)}
                    active = (occ[p], occ[q], occ[r], occ[s2]) in ((1, 1, 0, 0), (0, 0, 1, 1))
                    want = {k2: -v2 for k2, v2 in apply_qubit_op(AA, m).items()} if active else {}
                    st.count('double-excitation selection rule: %s state' % ('active' if active else 'inactive'))
                    if apply_qubit_op(Q, m) != want:
                        st.violate('_two_body (four distinct indices) is not the double excitation -A_pq A_rs on (1,1,0,0)/(0,0,1,1) '
                                   'occupations and 0 elsewhere', dict(case, basis_state=m), {})
            if Q is not None and bg is not None and spectral_left[len({p, q, r, s2})] > 0:
                # Spec: bg + w (a†_p a†_q a_r a_s + h.c.) and its image have the same even-sector spectrum
                spectral_left[len({p, q, r, s2})] -= 1
                st.float_comparisons += 1
                T = of.FermionOperator(((p, 1), (q, 1), (r, 0), (s2, 0)))
                # two distinct indices: the term is its own Hermitian conjugate (-/+ n_p n_q) and the library maps the term
                # alone (the main loop meets both of its tensor entries)
                Th = T if len({p, q, r, s2}) == 2 else T + of.hermitian_conjugated(T)
                ev = even_sector_spectrum(of, bg[0] + 0.625 * Th, N)
                good = spectrum_contained(ev, qubit_spectrum(of, bg[1] + 0.625 * Q, len(E)))
                st.count('spectral check _two_body distinct=%d: %s' % (len({p, q, r, s2}), 'ok' if good else 'FAILS'))
                if not good:
                    st.violate('_two_body is not the image of a†_p a†_q a_r a_s + h.c. (even-sector spectrum of background + term)',
                               case, {})
    for (kind, case, status, impl), mo in zip(meta, ctx.driver.run(reqs)):
        if status == 'missing-edge':
            st.count('missing edge: library raises, Model null')
            if mo is not None:
                st.disagree(case['fn'] + ': the library raises for a missing edge but the Model returns an operator',
                            case, None, mo)
            continue
        if mo is None:
            st.disagree(case['fn'] + ': the Model reports a missing edge but the library returns an operator', case, impl, mo)
            continue
        mop = mo['op']
        if kind == 'two' and len({case['p'], case['q'], case['r'], case['s']}) == 4:
            st.count('twoBody4Ok: %s' % mo['ok4'])
            if mo['ok4'] is not True:
                st.count('theorem-hypothesis-not-met')
        if kind == 'one':
            st.count('oneBodyOk: %s' % mo['ok'])
            if mo['ok'] is not True:
                st.count('theorem-hypothesis-not-met')
        if canon_nz(impl) != canon_nz(mop):
            st.disagree(case['fn'] + ': terms differ', case, impl, mop)
    return st


def stream_bksf(ctx):
    """the assembled Bravyi-Kitaev superfast transform"""
    of = ctx.of
    bksf = importlib.import_module('openfermion.transforms.opconversions.bksf')
    st = Stream('bksf-transform', 'bravyi_kitaev_fast(InteractionOperator) on seeded random Hermitian InteractionOperators '
                '(real and complex dyadic, sparse and dense, N <= 5 quick / 6 thorough, element-wise Hermitian and '
                'non-canonical storage): the edge_matrix_indices (order of the columns included), the assembled QubitOperator '
                'and number_operator (all modes / one mode) are compared EXACTLY with the Model (a ValueError "Invalid index in factor '
                '(-1, ..)" of the library must coincide with the Model reporting a missing edge: listed finding '
                'F05-bksf-missing-edge); on the implementation\'s output: the operator is Hermitian (fails for complex '
                'coefficients: listed finding F05-bksf-complex-coefficients; any failure on a real tensor is a new violation), '
                'number_operator is diagonal with the parity-of-incident-edge-qubits eigenvalues on random basis states; SPEC '
                'ORACLE (numeric, 1e-7 on eigenvalues) for real element-wise Hermitian tensors whose edge graph is connected with '
                '<= 8 edges: every eigenvalue of H on the even-parity sector is an eigenvalue of bravyi_kitaev_fast(H) (a hard '
                'oracle: every failure is a violation); distinct = distinct tensors')
    b = Batch(ctx, st)
    rng = rng_for(ctx.seed, 'c05-bksf-full')
    reqs, meta = [], []
    for k in range(budget(ctx.tier, 64, 300)):
        N = rng.choice([2, 3, 3, 4, 4, 4, 5] + ([6] if ctx.tier == 'thorough' and k % 6 == 0 else []))
        cplx = rng.random() < 0.5
        density = rng.choice([0.05, 0.1, 0.3]) if N >= 4 else rng.choice([0.3, 0.6, 1.0])
        iop = rand_hermitian_iop(rng, of, N, cplx, density)
        if k % 4 == 1 and N >= 2:
            noncanonical(rng, iop.two_body_tensor, cplx)
        elif not cplx and N >= 2 and rng.random() < 0.75:
            # hopping on a random spanning tree: the edge graph is connected, so the spectral Spec check applies
            order = list(range(N))
            rng.shuffle(order)
            for i in range(1, N):
                a, b2 = order[i], order[rng.randrange(i)]
                if iop.one_body_tensor[a, b2] == 0:
                    iop.one_body_tensor[a, b2] = iop.one_body_tensor[b2, a] = rng.choice([0.5, -0.75, 1.25, 0.375])
        one, two = flat(iop.one_body_tensor), flat(iop.two_body_tensor)
        const = to_gq(iop.constant)
        case = {'fn': 'bravyi_kitaev_fast', 'interaction_operator': {'N': N, 'constant': const, 'one': one, 'two': two}}
        st.case(case)
        st.count('bksf:N=%d:%s' % (N, 'complex' if cplx else 'real'))
        ok, em = call(st, 'bravyi_kitaev_fast_edge_matrix', case, lambda: bksf.bravyi_kitaev_fast_edge_matrix(iop))
        E = []
        if not ok:
            em = None
        if ok:
            emi = numpy.array(numpy.nonzero(numpy.triu(em) - numpy.diag(numpy.diag(em))))
            E = [[int(emi[0, e]), int(emi[1, e])] for e in range(emi.shape[1])]
            reqs.append({'op': 'c05.bksf_edges', 'N': N, 'one': one, 'two': two})
            meta.append(('edges', case, E))
            st.count('edges=%d' % min(len(E), 10))
        missing = False
        try:
            ok, Q = True, bksf.bravyi_kitaev_fast(iop)
        except ValueError as e:
            if 'Invalid index in factor (-1' in str(e):
                # position_ij = -1: an edge operator A_ij is requested for an edge that the edge matrix does not
                # contain; the Model reports the same condition as `null` (finding F05-bksf-missing-edge)
                ok, missing = False, True
                reqs.append({'op': 'c05.bksf', 'N': N, 'constant': const, 'one': one, 'two': two})
                meta.append(('missing-edge', case, str(e)[:120]))
            else:
                ok = False
                st.violate('bravyi_kitaev_fast raised ValueError: %s' % str(e)[:200], case, {})
        except Exception as e:   # noqa
            ok = False
            st.violate('bravyi_kitaev_fast raised %s: %s' % (type(e).__name__, str(e)[:200]), case, {})
        if ok:
            jQ = enc_op('qubit', Q.terms)
            reqs.append({'op': 'c05.bksf', 'N': N, 'constant': const, 'one': one, 'two': two})
            meta.append(('op', case, jQ))
            if (not cplx) and k % 4 != 1 and em is not None and graph_connected(N, E) and 0 < len(E) <= MAX_SPECTRAL_EDGES:
                # Spec: the even-sector spectrum of the fermionic Hamiltonian is contained in the spectrum of its image
                st.float_comparisons += 1
                ev = even_sector_spectrum(of, of.get_fermion_operator(iop), N)
                good = spectrum_contained(ev, qubit_spectrum(of, Q, len(E)))
                st.count('spectral check (real, element-wise Hermitian, connected graph): %s' % ('ok' if good else 'FAILS'))
                if not good:
                    st.violate('bravyi_kitaev_fast(H) does not contain the even-sector spectrum of H', case, {})
            if not (of.hermitian_conjugated(Q) == Q):
                has_im = bool(numpy.any(numpy.imag(iop.one_body_tensor) != 0) or numpy.any(numpy.imag(iop.two_body_tensor) != 0))
                st.violate('bravyi_kitaev_fast of a Hermitian InteractionOperator is not Hermitian',
                           dict(case, has_imaginary_coefficients=has_im), {})
        mode = rng.choice([None] + list(range(N)))
        ok, Nop = call(st, 'number_operator', case, lambda: bksf.number_operator(iop, mode))
        if ok:
            ncase = dict(case, fn='number_operator', mode=mode)
            reqs.append({'op': 'c05.bksf_number', 'N': N, 'one': one, 'two': two, 'mode': mode})
            meta.append(('op', ncase, enc_op('qubit', Nop.terms)))
            reqs.append({'op': 'c05.bksf_number_ok', 'N': N, 'one': one, 'two': two, 'mode': mode})
            meta.append(('regime', ncase, None))
            # Spec (bksf_number_operator_sound), on the implementation's output and its own edge list: diagonal, mode i
            # occupied iff an odd number of the qubits on the edges at vertex i is set
            if em is not None:
                nE = len(E)
                for _ in range(6):
                    m = rng.getrandbits(nE) if nE else 0
                    occ = [sum(1 for e, (a, b2) in enumerate(E) if (m >> e) & 1 and i in (a, b2)) % 2 for i in range(N)]
                    want = sum(occ) if mode is None else occ[mode]
                    got, diag = 0, True
                    for t, c in Nop.terms.items():
                        if any(a != 'Z' for _, a in t):
                            diag = False
                        got += c * (-1) ** sum((m >> q) & 1 for q, _ in t)
                    st.count('number-operator eigenvalue checks')
                    if not diag or got != want:
                        st.violate('number_operator is not the parity-of-incident-edges occupation', dict(ncase, basis_state=m),
                                   {'eigenvalue': str(got), 'expected': want, 'diagonal': diag})
    for (kind, case, impl), mo in zip(meta, ctx.driver.run(reqs)):
        if kind == 'edges':
            if impl != mo:
                st.disagree('edge_matrix_indices differ', case, impl, mo)
        elif kind == 'regime':
            st.count('number_operator exact regime (numberOk): %s' % mo)
            if mo is not True:
                st.count('theorem-hypothesis-not-met')
        elif kind == 'missing-edge':
            if mo is None:
                st.count('missing-edge (library raises, Model reports the missing edge)')
                st.violate('bravyi_kitaev_fast raises ValueError on a Hermitian InteractionOperator: an edge operator is '
                           'requested for an edge absent from the edge matrix', dict(case, model_confirms_missing_edge=True),
                           {'exception': impl})
            else:
                st.disagree('bravyi_kitaev_fast raised "%s" but the Model returns an operator' % impl, case, None, mo)
        elif mo is None or canon_nz(impl) != canon_nz(mo):
            st.disagree(case['fn'] + ': terms differ', case, impl, mo)
    return st


def classify(v):
    case = v.get('input', {}) or {}
    if v.get('stream') == 'bksf-transform' and case.get('model_confirms_missing_edge') \
            and v.get('what', '').startswith('bravyi_kitaev_fast raises ValueError on a Hermitian InteractionOperator'):
        return 'F05-bksf-missing-edge'
    if v.get('stream') == 'bksf-transform' and case.get('has_imaginary_coefficients') is True \
            and v.get('what', '') == 'bravyi_kitaev_fast of a Hermitian InteractionOperator is not Hermitian':
        return 'F05-bksf-complex-coefficients'
    return None


def probe_known(ctx, k):
    """replay the listed witness on the real code: True while it still fails"""
    of = ctx.of
    if k['id'] == 'F05-bksf-missing-edge':
        bksf = importlib.import_module('openfermion.transforms.opconversions.bksf')
        two = numpy.zeros((4,) * 4)
        two[0, 1, 2, 3] = two[3, 2, 1, 0] = 1.0
        try:
            bksf.bravyi_kitaev_fast(of.InteractionOperator(0.0, numpy.zeros((4, 4)), two))
        except ValueError:
            return True
        except Exception:
            return True
        return False
    if k['id'] == 'F05-bksf-complex-coefficients':
        bksf = importlib.import_module('openfermion.transforms.opconversions.bksf')
        one = numpy.zeros((3, 3), complex)
        one[0, 1], one[1, 0] = 1j, -1j
        one[1, 2] = one[2, 1] = one[0, 2] = one[2, 0] = 1
        try:
            Q = bksf.bravyi_kitaev_fast(of.InteractionOperator(0.0, one, numpy.zeros((3,) * 4)))
            return not (of.hermitian_conjugated(Q) == Q)
        except Exception:
            return True
    return False


def run(ctx):
    return [stream_sets(ctx), stream_ladder(ctx), stream_srl(ctx), stream_random(ctx), stream_interaction(ctx),
            stream_bksf_edges(ctx), stream_bksf_terms(ctx), stream_bksf(ctx), stream_hardening(ctx)]
