"""C02 — equality tests and structural predicates.

Every stream drives the REAL functions (`isclose`, `==`, `!=`, `MajoranaOperator.__eq__`,
`commutes_with`, `is_normal_ordered`, `is_two_body_number_conserving`, `is_boson_preserving`,
`is_identity`, `is_hermitian`, `PolynomialTensor.__eq__`) and the Lean Model
(OFV.Model.C02) on the same inputs and compares the answers exactly (tie), and evaluates
the property statement itself (OFV.Spec.C02 / the shared `spec.eq` linear-map semantics /
relations the statement demands: symmetry, independence of insertion order and of the
other terms) on the implementation's own answers (oracle).

Floating point: absolute values / `tol * max(..)` are rounded by the implementation, the
Model is the exact real-number semantics.  A case is only compared when every decision it
contains has a relative margin > 1e-9 (computed exactly / with 60-digit arithmetic);
others are discarded and counted."""
import itertools
from fractions import Fraction

import mpmath
import numpy

from common import (Stream, budget, enc_op, enc_term, to_gq, dyadic, rng_for, show, canon_op_json)

mpmath.mp.dps = 60
MARGIN = Fraction(1, 10 ** 9)

ACTIONS = {'qubit': ['X', 'Y', 'Z'], 'fermion': [0, 1], 'boson': [0, 1], 'quad': ['q', 'p']}
ALG = {'qubit': 'qubit', 'fermion': 'fermion', 'majorana': 'majorana', 'boson': 'boson',
       'quad': ['quad', [1, 1, 0, 1]]}

TRUSTED = [
    'C02: numpy.isclose(a, b) is modelled as |a-b| <= atol + rtol*|b| over exact numbers (defaults read from numpy at run time; MajoranaOperator.__eq__ calls it both ways for shared terms); numpy.amax/absolute as max of exact absolute values',
    'C02: CPython set iteration order is taken from the running interpreter (the harness passes the observed order to the Model); the theorems quantify over every order',
]
ASSUMPTIONS = [
    'numeric coefficients only (Python int / bool / float / complex and numpy scalars float32 / float64 / complex64 / complex128 / int32 / int64 wherever plain abs / subtraction / max accept them; numpy.bool_ is rejected by subtraction and excluded); sympy coefficients are not modelled',
    'observation outside this property (not checked, reported to the integrator): hermitian_conjugated(InteractionOperator) with real-dtype tensors returns tensors that SHARE MEMORY with the argument (ndarray.T.conj() of a real array is a view), so editing the conjugate in place edits the original',
    'operators are in the state their class maintains (QubitOperator terms index-sorted, BosonOperator / QuadOperator terms index-sorted by the constructor, Majorana terms strictly increasing); `terms` dictionaries edited by hand into other shapes are out of scope',
    'comparisons whose decision has a relative margin < 1e-9 (where double rounding of abs / multiplication could matter) are discarded and counted, never compared',
    'is_hermitian / hermitian_conjugated of dense and sparse matrices: covered for every dtype plain numpy / scipy subtraction accepts (is-hermitian-matrix stream: Model tie + exact entry-wise statement; the Model is proved equal to the entry-wise statement: is_hermitian_matrix_iff)',
]
OPEN_STATEMENTS = [
    'commutes_with general path: proved in the exact regime (commutes_with_general_iff: the hypothesis is the decidable test majExactB that the driver evaluates per input and the harness counts; commutes_with_general_iff_partial keeps the abstract form) using Majorana canonicity (majorana_strings_independent); that the Model product mmul has the matrix elements of the product of the denoted operators is C01.mul_hom_majorana; outside the exact regime only the spec.eq oracle',
    'is_hermitian: proved for FermionOperator (is_hermitian_fermion_iff: Hermitian in the Spec <=> the two normal-ordered dictionaries have equal coefficients; completeness of the coded test in the exact regime; is_hermitian_fermion_iff_tol: on lattice inputs at a real tolerance the executed test <=> Hermitian in the Spec, under the per-input exactness hypothesis on the two normal-ordered dictionaries; is_hermitian_fermion_iff_tol_bounded / is_hermitian_boson_iff_tol_bounded discharge that hypothesis from a magnitude bound M on the normal-ordered coefficients with tol*D*M <= 1, via isclose_exact_on_bounded_lattice); also proved for QubitOperator (Pauli strings Hermitian and linearly independent: Hermitian <=> all coefficients real; coded test <=> every coefficient within tolerance of its conjugate); for InteractionOperator the soundness direction (coded test True => operator equals its formal adjoint in every CAR algebra, exact regime: is_hermitian_io_sound under the decidable per-input test ioExactB evaluated by the driver), completeness by the oracle stream only; for BosonOperator the coded test is proved equivalent to "A and its formal adjoint hermitian_conjugated(A) denote the same operator in the polynomial Spec" (is_hermitian_boson_iff at tolerance 0; is_hermitian_boson_complete / is_hermitian_boson_iff_tol for the executed function on lattice inputs; that the Model hermitian_conjugated is the adjoint for an inner product is NOT proved for bosons, only checked by the Spec oracle); for QuadOperator the soundness direction on bounded lattice inputs (is_hermitian_quad_sound: coded True => A and hermitian_conjugated(A) have equal coefficients and the same Spec action for every hbar), otherwise the Model tie and the Spec oracle (InteractionOperator: non-symmetrised storage of Hermitian operators is generated on purpose); for QuadOperator the implementation is incomplete (known finding F02e)',
    'float rounding inside abs()/hypot and tol*max(..) is outside the Model (guarded by the 1e-9 margin rule)',
]


def cls_of(of, name):
    return {'qubit': of.QubitOperator, 'fermion': of.FermionOperator, 'boson': of.BosonOperator,
            'quad': of.QuadOperator, 'majorana': of.MajoranaOperator}[name]


def exact(c):
    """Python number -> (Fraction re, Fraction im)"""
    j = to_gq(c)
    return Fraction(j[0], j[1]), Fraction(j[2], j[3])


def nsq(c):
    r, i = exact(c)
    return r * r + i * i


def nsq_diff(a, b):
    ar, ai = exact(a)
    br, bi = exact(b)
    return (ar - br) ** 2 + (ai - bi) ** 2


def frac_json(f):
    f = Fraction(f)
    return [f.numerator, f.denominator]


def safe_lt(lhs, rhs, tie_exact=False):
    """decision `lhs < rhs` on exact non-negative squares; -> (bool, has_margin).
    An exact tie is only compared when the caller knows that the implementation's double
    arithmetic is exact on this input (`tie_exact`)."""
    if rhs <= 0:
        return False, True
    r = Fraction(lhs) / Fraction(rhs)
    if r == 1:
        return False, tie_exact
    return r < 1, abs(r - 1) > MARGIN


def is_real(c):
    return not isinstance(c, (complex, numpy.complexfloating)) or c.imag == 0


def small_dyadic(*xs):
    """all values are real dyadic rationals with short mantissas: sums, differences and
    products of two of them are exact in double arithmetic"""
    for x in xs:
        if not is_real(x):
            return False
        f = Fraction(float(x.real) if isinstance(x, (complex, numpy.complexfloating)) else float(x))
        d = f.denominator
        if d & (d - 1):
            return False
        if abs(f.numerator).bit_length() > 24 or d.bit_length() > 60:
            return False
    return True


# ---------------------------------------------------------------- term pools

def rand_term(rng, cls, max_len, max_index):
    n = rng.randint(0, max_len)
    if cls == 'majorana':
        return tuple(sorted(rng.sample(range(max_index + 1), min(n, max_index + 1))))
    if cls == 'qubit':
        idx = sorted(rng.sample(range(max_index + 1), min(n, max_index + 1)))
        return tuple((i, rng.choice('XYZ')) for i in idx)
    t = [(rng.randint(0, max_index), rng.choice(ACTIONS[cls])) for _ in range(n)]
    if cls in ('boson', 'quad'):
        t.sort(key=lambda f: f[0])
    return tuple(t)


def term_pool(rng, cls, count, max_len=4, max_index=12):
    pool = []
    seen = set()
    tries = 0
    while len(pool) < count and tries < 50 * count:
        tries += 1
        t = rand_term(rng, cls, max_len, max_index)
        if t not in seen:
            seen.add(t)
            pool.append(t)
    return pool


def rand_coeff(rng, big=True):
    """dyadic coefficient with magnitude 2^-20 .. 2^20, int / float / complex"""
    e = rng.randint(-20, 20) if big else rng.randint(-3, 3)
    m = rng.choice([1, 3, 5, 7, -1, -3, -5, 9])
    x = m * 2.0 ** e
    k = rng.random()
    if k < 0.2 and float(x).is_integer():
        return int(x)
    if k < 0.45:
        y = rng.choice([1, 3, -5]) * 2.0 ** rng.randint(e - 3, e + 1)
        return complex(x, y) if rng.random() < 0.7 else complex(0.0, x)
    return x


def mk(C, terms):
    op = C()
    op.terms = dict(terms)
    return op


FACTORS = [0.25, 0.5, 0.9, 0.999, 1.0, 1.001, 1.1, 2.0, 12.0, 1000.0]


def perturb(rng, c, tol):
    """a value near `c` whose distance is a given multiple of the relevant threshold"""
    f = rng.choice(FACTORS)
    scale = max(1.0, abs(c))
    d = float(tol) * f * scale
    k = rng.random()
    if f == 1.0 and is_real(c):
        # exact tie |a - b| == tol * max(1, |a|, |b|): move towards zero (|b| <= |a|)
        c = c.real if isinstance(c, complex) else c
        return c - d if c > 0 else c + d
    if isinstance(c, complex) or k < 0.2:
        ph = rng.choice([1, -1, 1j, -1j, (3 + 4j) / 5])
        return c + d * ph
    return c + d * rng.choice([1, -1])


# ---------------------------------------------------------------- isclose

def isclose_exact(ta, tb, tol):
    """the property statement, exactly: -> (value, every decision has margin)"""
    tol = Fraction(tol)
    val, ok = True, True
    for t in set(ta) | set(tb):
        if t in ta and t in tb:
            if tol <= 0:
                r, m = False, True
            else:
                mx = max(Fraction(1), nsq(ta[t]), nsq(tb[t]))
                x, y = ta[t], tb[t]
                tie = is_real(x) and is_real(y) and (((x == 0 or y == 0) and mx == 1)
                                                     or small_dyadic(x, y, float(tol)))
                r, m = safe_lt(nsq_diff(x, y), tol * tol * mx, tie)
        else:
            c = ta[t] if t in ta else tb[t]
            if tol <= 0:
                r, m = False, True
            else:
                r, m = safe_lt(nsq(c), tol * tol, is_real(c))
        val = val and r
        ok = ok and m
    return val, ok


def gen_pair(rng, cls, tol):
    n_shared = rng.choice([0, 1, 1, 2, 3, 5, 12, 20, 40])
    n_a = rng.choice([0, 0, 1, 2, 3])
    n_b = rng.choice([0, 0, 1, 2, 3])
    pool = term_pool(rng, cls, n_shared + n_a + n_b, max_len=rng.choice([2, 4, 6]))
    rng.shuffle(pool)
    shared, only_a, only_b = pool[:n_shared], pool[n_shared:n_shared + n_a], pool[n_shared + n_a:]
    ta, tb = {}, {}
    mode = rng.random()
    n_pert = 0 if mode < 0.3 else 1 if mode < 0.85 else 2
    pert = set(rng.sample(range(len(shared)), min(n_pert, len(shared))))
    t_eff = float(tol) if tol > 0 else 1e-8
    for i, t in enumerate(shared):
        c = rand_coeff(rng)
        if rng.random() < (0.25 if i in pert else 0.06):
            c = 0.0
        ta[t] = c
        if i in pert:
            tb[t] = perturb(rng, c, t_eff)
        elif rng.random() < 0.05:
            tb[t] = rand_coeff(rng)
        else:
            tb[t] = c
    for side, lst in ((ta, only_a), (tb, only_b)):
        for t in lst:
            k = rng.random()
            if k < 0.35:
                side[t] = 0.0 if rng.random() < 0.5 else 0
            elif k < 0.8:
                side[t] = t_eff * rng.choice(FACTORS) * rng.choice([1, -1, 1j, (3 + 4j) / 5])
                if rng.random() < 0.5 and not isinstance(side[t], complex):
                    side[t] = float(side[t])
            else:
                side[t] = rand_coeff(rng)
    return ta, tb


def reorder(rng, terms):
    items = list(terms.items())
    rng.shuffle(items)
    return dict(items)


TOLS = [None, None, None, 1e-8, 2.0 ** -20, 0.5, 1e-3, 0.0, -1.0, 3, 2.0 ** -40]


def stream_isclose(ctx):
    of = ctx.of
    s = Stream('isclose', 'pairs of operators (qubit/fermion/boson/quad) sharing 0-40 terms, |coefficient| 2^-20..2^20 '
               '(int/float/complex), 0-2 shared coefficients moved by a multiple (0.25 .. 1000) of the relevant '
               'threshold, stored zeros, one-sided terms near tol; tol default or explicit (incl. 0, negative, int); '
               'isclose both ways, ==, !=, shuffled insertion order, extra common terms; distinct = distinct cases')
    n = budget(ctx.tier, 400, 6000)
    if ctx.drift:
        n = max(n, 1500)
    reqs, cases = [], []
    for cls in ('qubit', 'fermion', 'boson', 'quad'):
        rng = rng_for(ctx.seed, 'c02-isclose-' + cls)
        C = cls_of(of, cls)
        for _ in range(n):
            tol_arg = rng.choice(TOLS)
            tol = Fraction(of.config.EQ_TOLERANCE) if tol_arg is None else Fraction(tol_arg)
            ta, tb = gen_pair(rng, cls, tol)
            case = {'cls': cls, 'a': enc_op(cls, ta), 'b': enc_op(cls, tb), 'tol': frac_json(tol),
                    'explicit_tol': tol_arg is not None}
            want, ok = isclose_exact(ta, tb, tol)
            if not ok:
                s.discards += 1
                continue
            a, b = mk(C, ta), mk(C, tb)
            try:
                if tol_arg is None:
                    r_ab, r_ba = a.isclose(b), b.isclose(a)
                    eq, ne = (a == b), (a != b)
                else:
                    r_ab, r_ba = a.isclose(b, tol_arg), b.isclose(a, tol_arg)
                    eq, ne = r_ab, (not r_ab)
                shared = list(set(a.terms).intersection(set(b.terms)))
                sym = list(set(a.terms).symmetric_difference(set(b.terms)))
                # the same operators with another insertion order
                a2, b2 = mk(C, reorder(rng, ta)), mk(C, reorder(rng, tb))
                r_perm = a2.isclose(b2) if tol_arg is None else a2.isclose(b2, tol_arg)
                # the same operators with extra common terms (|c| > 1) on both sides
                extra = {}
                if tol > 0:
                    for t in term_pool(rng, cls, rng.choice([1, 5, 12, 30]), max_len=5, max_index=40):
                        if t not in ta and t not in tb:
                            extra[t] = rng.choice([10.0, 3.0, 1024.0, 2.0 ** 20, -7.5, 2 + 2j, 1.0])
                ta3 = dict(ta)
                ta3.update(extra)
                tb3 = dict(extra)
                tb3.update(tb)
                a3, b3 = mk(C, ta3), mk(C, tb3)
                r_extra = a3.isclose(b3) if tol_arg is None else a3.isclose(b3, tol_arg)
            except Exception as e:  # noqa
                s.violate('isclose raised %s' % type(e).__name__, case, {'error': repr(e)})
                continue
            s.case(case)
            s.count('result:%s' % r_ab)
            s.count('shared:%d' % (len(shared) if len(shared) < 5 else 5 * (len(shared) // 5)))
            s.count('tol:' + ('default' if tol_arg is None else 'nonpositive' if tol <= 0 else 'explicit'))
            detail = {'isclose(a,b)': bool(r_ab), 'statement': want}
            if not isinstance(r_ab, bool) or not isinstance(eq, bool):
                s.violate('isclose / == did not return a bool', case, detail)
            if bool(r_ab) != want:
                s.violate('isclose differs from the per-term statement', case, detail)
            if bool(r_ab) != bool(r_ba):
                s.violate('isclose is not symmetric', case, {'ab': bool(r_ab), 'ba': bool(r_ba)})
            if bool(eq) != bool(r_ab) or bool(ne) == bool(eq):
                s.violate('== / != inconsistent with isclose', case, {'eq': eq, 'ne': ne, 'isclose': r_ab})
            if bool(r_perm) != bool(r_ab):
                s.violate('isclose depends on the insertion order of the terms', case,
                          {'original': bool(r_ab), 'shuffled': bool(r_perm)})
            if bool(r_extra) != bool(r_ab):
                s.violate('isclose depends on the other (common, equal) terms', case,
                          {'original': bool(r_ab), 'with_extra_common_terms': bool(r_extra),
                           'extra': enc_op(cls, extra)})
            reqs.append({'op': 'c02.isclose', 'a': case['a'], 'b': case['b'], 'tol': case['tol'],
                         'shared': [enc_term(cls, t) for t in shared], 'sym': [enc_term(cls, t) for t in sym]})
            cases.append((case, bool(r_ab)))
    for (case, r), ans in zip(cases, ctx.driver.run(reqs)):
        if ans['model'] != r:
            s.disagree('isclose', case, r, ans['model'])
        if ans['spec'] != r:
            s.violate('isclose differs from OFV.Spec.C02.Isclose', case, {'implementation': r, 'spec': ans['spec']})
    return s


# ---------------------------------------------------------------- Majorana ==

def np_defaults():
    import inspect
    sig = inspect.signature(numpy.isclose)
    return sig.parameters['rtol'].default, sig.parameters['atol'].default


def np_close_exact(x, y, atol, rtol):
    """|x-y| <= atol + rtol*|y| with 60 digits; -> (value, margin ok)"""
    lhs = mpmath.sqrt(mpmath.mpf(nsq_diff(x, y).numerator) / nsq_diff(x, y).denominator)
    ny = nsq(y)
    rhs = mpmath.mpf(atol.numerator) / atol.denominator + \
        (mpmath.mpf(rtol.numerator) / rtol.denominator) * mpmath.sqrt(mpmath.mpf(ny.numerator) / ny.denominator)
    if rhs == 0:
        return lhs <= 0, lhs > 0 or True
    r = lhs / rhs
    return bool(r <= 1), bool(abs(r - 1) > mpmath.mpf(10) ** -9)


def maj_eq_exact(ta, tb, atol, rtol):
    """-> (as coded, symmetric statement, margin ok, window)"""
    coded, stmt, ok, window = True, True, True, False
    for t in set(ta) | set(tb):
        if t in ta and t in tb:
            r1, m1 = np_close_exact(ta[t], tb[t], atol, rtol)
            r2, m2 = np_close_exact(tb[t], ta[t], atol, rtol)
            coded = coded and (r1 or r2)      # HEAD tests numpy.isclose both ways
            stmt = stmt and (r1 or r2)
            ok = ok and m1 and m2
            window = window or (r1 != r2)
        else:
            c = ta[t] if t in ta else tb[t]
            r1, m1 = np_close_exact(c, 0.0, atol, rtol)
            coded = coded and r1
            stmt = stmt and r1
            ok = ok and m1
    return coded, stmt, ok, window


def stream_majorana_eq(ctx):
    of = ctx.of
    M = of.MajoranaOperator
    rtol_f, atol_f = np_defaults()
    rtol, atol = Fraction(rtol_f), Fraction(atol_f)
    s = Stream('majorana-eq', 'pairs of MajoranaOperators sharing 0-12 terms, one or two coefficients moved by a multiple '
               'of rtol*|c| (incl. the window between rtol*|self| and rtol*|other|) or of atol, stored zeros, one-sided '
               'terms near atol; == both ways, !=; distinct = distinct cases')
    n = budget(ctx.tier, 1000, 12000)
    if ctx.drift:
        n = max(n, 3000)
    rng = rng_for(ctx.seed, 'c02-majeq')
    reqs, cases = [], []
    rel_factors = [0.5, 0.9, 0.999, 1.001, 1.1, 2.0, 1 + 0.5 * rtol_f, 1 + 0.25 * rtol_f, 1 - 0.5 * rtol_f]
    for _ in range(n):
        n_shared = rng.choice([0, 1, 1, 2, 3, 6, 12])
        n_a, n_b = rng.choice([0, 0, 1, 2]), rng.choice([0, 0, 1, 2])
        pool = term_pool(rng, 'majorana', n_shared + n_a + n_b, max_len=4, max_index=9)
        rng.shuffle(pool)
        shared, only_a, only_b = pool[:n_shared], pool[n_shared:n_shared + n_a], pool[n_shared + n_a:]
        ta, tb = {}, {}
        pert = set(rng.sample(range(len(shared)), min(rng.choice([0, 1, 1, 2]), len(shared))))
        for i, t in enumerate(shared):
            c = rand_coeff(rng, big=rng.random() < 0.7)
            if rng.random() < 0.05:
                c = 0.0
            ta[t] = c
            if i in pert:
                if rng.random() < 0.75 and c != 0:
                    f = rng.choice(rel_factors)
                    tb[t] = c * (1 + rng.choice([1, -1]) * rtol_f * f)
                else:
                    tb[t] = c + atol_f * rng.choice(FACTORS) * rng.choice([1, -1])
            else:
                tb[t] = c
        for side, lst in ((ta, only_a), (tb, only_b)):
            for t in lst:
                k = rng.random()
                if k < 0.3:
                    side[t] = 0.0
                elif k < 0.8:
                    side[t] = atol_f * rng.choice(FACTORS) * rng.choice([1, -1, 1j])
                else:
                    side[t] = rand_coeff(rng, big=False)
        if rng.random() < 0.5:
            ta, tb = tb, ta
        case = {'a': enc_op('majorana', ta), 'b': enc_op('majorana', tb)}
        coded, stmt, ok, window = maj_eq_exact(ta, tb, atol, rtol)
        if not ok:
            s.discards += 1
            continue
        a, b = M.from_dict(dict(ta)), M.from_dict(dict(tb))
        try:
            r_ab, r_ba, ne = (a == b), (b == a), (a != b)
            order = list(a.terms.keys() | b.terms.keys())
        except Exception as e:  # noqa
            s.violate('MajoranaOperator.__eq__ raised %s' % type(e).__name__, case, {'error': repr(e)})
            continue
        s.case(case)
        s.count('result:%s' % bool(r_ab))
        s.count('window:%s' % window)
        case = dict(case, window=window)
        if bool(ne) == bool(r_ab):
            s.violate('majorana != inconsistent with ==', case, {'eq': bool(r_ab), 'ne': bool(ne)})
        if bool(r_ab) != bool(r_ba):
            s.violate('majorana == is not symmetric', case, {'ab': bool(r_ab), 'ba': bool(r_ba)})
        if bool(r_ab) != stmt:
            s.violate('majorana == differs from the symmetric per-term statement', case,
                      {'implementation': bool(r_ab), 'statement': stmt})
        reqs.append({'op': 'c02.majeq', 'a': case['a'], 'b': case['b'], 'atol': frac_json(atol),
                     'rtol': frac_json(rtol), 'order': [enc_term('majorana', t) for t in order]})
        cases.append((case, bool(r_ab)))
    for (case, r), ans in zip(cases, ctx.driver.run(reqs)):
        if ans['model'] != r:
            s.disagree('MajoranaOperator.__eq__', case, r, ans['model'])
        if ans['spec'] != r:
            s.violate('majorana == differs from OFV.Spec.C02.MajEq', case, {'implementation': r, 'spec': ans['spec']})
    return s


# ---------------------------------------------------------------- commutes_with

SMALL_COEFFS = [1.0, -1.0, 2.0, 0.5, 1j, -1j, 3, 1.5, -2, 1 + 1j]


def stream_commutes(ctx):
    of = ctx.of
    M = of.MajoranaOperator
    rtol_f, atol_f = np_defaults()
    rtol, atol = Fraction(rtol_f), Fraction(atol_f)
    s = Stream('commutes-with', 'all ordered pairs of strictly increasing Majorana terms over 5 indices (single-term '
               'shortcut) + random operators of 1-3 terms over 8 indices with small dyadic coefficients and occasional '
               'stored zeros; answer compared with the Model and with [A,B]=0 in the Spec (spec.eq, 4 modes)')
    rng = rng_for(ctx.seed, 'c02-commutes')
    pairs = []
    subsets = [tuple(i for i in range(5) if m >> i & 1) for m in range(32)]
    for x in subsets:
        for y in subsets:
            pairs.append(({x: 1.0}, {y: 1.0}))
    n_ex = len(pairs)
    n = budget(ctx.tier, 400, 8000)
    if ctx.drift:
        n = max(n, 2000)
    for _ in range(n):
        ops = []
        for _k in range(2):
            nt = rng.choice([1, 1, 2, 3])
            terms = {}
            for t in term_pool(rng, 'majorana', nt, max_len=rng.choice([2, 3, 5]), max_index=7):
                terms[t] = rng.choice(SMALL_COEFFS)
                if rng.random() < (0.15 if nt == 1 else 0.04):
                    terms[t] = 0.0
            if rng.random() < 0.03:
                terms = {}
            ops.append(terms)
        pairs.append(tuple(ops))
    reqs, oreqs, cases = [], [], []
    for k, (ta, tb) in enumerate(pairs):
        case = {'a': enc_op('majorana', ta), 'b': enc_op('majorana', tb)}
        a, b = M.from_dict(dict(ta)), M.from_dict(dict(tb))
        try:
            r = a.commutes_with(b)
        except Exception as e:  # noqa
            s.violate('commutes_with raised %s' % type(e).__name__, case, {'error': repr(e)})
            continue
        s.case(case)
        s.count('exhaustive-pair' if k < n_ex else 'random')
        s.count('path:' + ('shortcut' if len(ta) == 1 and len(tb) == 1 else 'general'))
        s.count('result:%s' % bool(r))
        reqs.append({'op': 'c02.commutes', 'a': case['a'], 'b': case['b'], 'atol': frac_json(atol), 'rtol': frac_json(rtol)})
        la, lb = ['leaf', case['a']], ['leaf', case['b']]
        oreqs.append({'op': 'spec.eq', 'alg': 'majorana', 'n': 4, 'lhs': ['mul', la, lb], 'rhs': ['mul', lb, la]})
        zero = any(c == 0 for c in ta.values()) or any(c == 0 for c in tb.values())
        cases.append((dict(case, stored_zero=zero, single=(len(ta) == 1 and len(tb) == 1)), bool(r)))
    ans = ctx.driver.run(reqs + oreqs)
    for i, (case, r) in enumerate(cases):
        m, o = ans[i], ans[len(cases) + i]
        if m['model'] != r:
            s.disagree('commutes_with', case, r, m['model'])
        # the decidable exact-regime hypothesis of commutes_with_general_iff, evaluated per input
        s.count('exact_regime(commutes_with_general_iff):%s' % m['exact_regime'])
        if o['eq'] != r:
            s.violate('commutes_with differs from [A,B]=0 in the Spec', case,
                      {'implementation': r, 'spec_commute': o['eq'], 'witness_state': o.get('state')})
    # scalars and wrong types
    a = M((0, 1), 2.0)
    for x in (2, 0.5, 1j):
        s.case({'commutes_with_scalar': str(x)}, nontrivial=False)
        if a.commutes_with(x) is not True:
            s.violate('commutes_with(scalar) is not True', {'scalar': str(x)}, {})
    try:
        a.commutes_with('x')
        s.violate('commutes_with(str) did not raise TypeError', {}, {})
    except TypeError:
        pass
    s.exhaustive = False
    return s


# ---------------------------------------------------------------- structural predicates

def all_terms(actions, n_modes, max_len):
    factors = [(i, a) for i in range(n_modes) for a in actions]
    out = []
    for k in range(max_len + 1):
        out += list(itertools.product(factors, repeat=k))
    return out


def stream_predicates(ctx):
    of = ctx.of
    s = Stream('predicates', 'is_normal_ordered / is_two_body_number_conserving (both flags) / is_boson_preserving / '
               'is_identity on every fermion and boson term of length <= 4 over 3 modes and on random sums of 1-4 terms '
               '(indices <= 5, length <= 6); Model = nested loops as coded, Spec = all-pairs / counting definitions; '
               'is_normal_ordered also against normal_ordered(op).terms == op.terms')
    rng = rng_for(ctx.seed, 'c02-pred')
    items = []
    for cls in ('fermion', 'boson'):
        terms = all_terms([0, 1], 3, 4)
        if ctx.tier == 'quick' and not ctx.drift:
            short = [t for t in terms if len(t) <= 3]
            terms = short + rng.sample([t for t in terms if len(t) == 4], 500)
        for t in terms:
            items.append((cls, [(t, 1.0)], True))
        n = budget(ctx.tier, 300, 5000)
        for _ in range(n):
            k = rng.choice([1, 2, 2, 3, 4])
            lst = []
            for _j in range(k):
                ln = rng.choice([0, 2, 2, 4, 4, 4, 1, 3, 6])
                t = tuple((rng.randint(0, 5), rng.choice([0, 1])) for _x in range(ln))
                if rng.random() < 0.5:
                    # bias towards number conserving / normal ordered shapes
                    half = ln // 2
                    cr = sorted(rng.sample(range(6), min(half, 6)), reverse=True)
                    an = sorted(rng.sample(range(6), min(ln - half, 6)), reverse=True)
                    t = tuple((i, 1) for i in cr) + tuple((i, 0) for i in an)
                    if rng.random() < 0.3 and len(t) >= 2:
                        t = list(t)
                        i, j = rng.sample(range(len(t)), 2)
                        t[i], t[j] = t[j], t[i]
                        t = tuple(t)
                lst.append((t, dyadic(rng, max_num=4, max_pow=2)))
            items.append((cls, lst, False))
    s.exhaustive = ctx.tier == 'thorough' or ctx.drift
    reqs, cases = [], []
    for cls, lst, single in items:
        C = cls_of(of, cls)
        case = {'cls': cls, 'terms': [[enc_term(cls, t), to_gq(c)] for t, c in lst]}
        try:
            op = C()
            for t, c in lst:
                op += C(t, c)
            if not op.terms and single:
                op = C(lst[0][0], lst[0][1])
            got = {'is_normal_ordered': op.is_normal_ordered(), 'is_identity': of.utils.operator_utils.is_identity(op)}
            if cls == 'fermion':
                got['two_body'] = op.is_two_body_number_conserving()
                got['two_body_spin'] = op.is_two_body_number_conserving(check_spin_symmetry=True)
            else:
                got['boson_preserving'] = op.is_boson_preserving()
            no = of.normal_ordered(op)
            fixed = dict(no.terms) == dict(op.terms)
        except Exception as e:  # noqa
            s.violate('predicate raised %s' % type(e).__name__, case, {'error': repr(e)})
            continue
        stored = enc_op(cls, op.terms)
        case['stored'] = stored
        s.case(case)
        for k, v in got.items():
            s.count('%s:%s:%s' % (cls, k, bool(v)))
        nonzero = all(c != 0 for c in op.terms.values())
        if nonzero and bool(got['is_normal_ordered']) != fixed:
            s.violate('is_normal_ordered differs from normal_ordered(op).terms == op.terms', case,
                      {'is_normal_ordered': bool(got['is_normal_ordered']), 'fixed_point': fixed})
        reqs.append({'op': 'c02.pred', 'cls': cls, 'a': stored})
        cases.append((case, {k: bool(v) for k, v in got.items()}))
    for (case, got), ans in zip(cases, ctx.driver.run(reqs)):
        for k, v in got.items():
            if ans[k] != v:
                s.disagree(k, case, v, ans[k])
            sk = 'spec_' + k
            if sk in ans and ans[sk] != v:
                s.violate('%s differs from its definition (OFV.Spec.C02)' % k, case, {'implementation': v, 'spec': ans[sk]})
    return s


# ---------------------------------------------------------------- is_identity (semantic)

def stream_identity(ctx):
    of = ctx.of
    is_identity = of.utils.operator_utils.is_identity
    s = Stream('is-identity', 'is_identity on multiples of the identity, operators with stored zero coefficients, sums and '
               'differences that cancel, non-normal spellings of a scalar (a a^ + a^ a), random small operators; Spec: the '
               'denoted linear map is c*1 with c != 0 (spec.apply on the vacuum + spec.eq)')
    rng = rng_for(ctx.seed, 'c02-identity')
    n = budget(ctx.tier, 100, 1500)
    built = []
    for cls in ('qubit', 'fermion', 'boson', 'quad'):
        C = cls_of(of, cls)
        a0, a1 = ACTIONS[cls][0], ACTIONS[cls][-1]
        fixed = [
            lambda C=C: C(()), lambda C=C: C((), 2.0), lambda C=C: C((), -0.5j), lambda C=C: C(),
            lambda C=C: C((), 0.0),
            lambda C=C, a0=a0: C(((0, a0),), 0.0) + C(()),
            lambda C=C, a0=a0: (C(((0, a0),)) + C((), 3)) - C(((0, a0),)),
            lambda C=C, a1=a1: C((), 1.0) + C(((1, a1),), 0.0) * 2,
        ]
        if cls == 'fermion':
            fixed.append(lambda C=C: C('0 0^') + C('0^ 0'))
            fixed.append(lambda C=C: C('1 1^', 2.0) + C('1^ 1', 2.0))
        if cls == 'boson':
            fixed.append(lambda C=C: C('0 0^') - C('0^ 0'))
            fixed.append(lambda C=C: C('1 1^', 2.0) - C('1^ 1', 2.0))
        if cls == 'quad':
            fixed.append(lambda C=C: C('q0 p0', -1j) + C('p0 q0', 1j))
        if cls == 'qubit':
            fixed.append(lambda C=C: C('X0') * C('X0'))
            fixed.append(lambda C=C: C('X0 Y1') * C('X0 Y1') * 0.5)
        for f in fixed:
            built.append((cls, f))
        for _ in range(n):
            def rnd(cls=cls, C=C):
                op = C()
                for _k in range(rng.choice([1, 1, 2, 3])):
                    t = rand_term(rng, cls, rng.choice([0, 0, 1, 2]), 2)
                    op += C(t, dyadic(rng, max_num=3, max_pow=1, zero_p=0.1))
                if rng.random() < 0.3:
                    op.terms[tuple(rand_term(rng, cls, 2, 2))] = 0.0
                return op
            built.append((cls, rnd))
    rows = []
    for cls, f in built:
        try:
            op = f()
            r = is_identity(op)
        except Exception as e:  # noqa
            s.violate('is_identity raised %s' % type(e).__name__, {'cls': cls}, {'error': repr(e)})
            continue
        jop = enc_op(cls, op.terms)
        rows.append((cls, jop, bool(r), op))
    zero_state = {'qubit': [0], 'fermion': [0], 'boson': [], 'quad': []}
    vac = ctx.driver.run([{'op': 'spec.apply', 'alg': ALG[cls], 'expr': ['leaf', jop], 'state': zero_state[cls]}
                          for cls, jop, _, _ in rows])
    reqs2, meta = [], []
    for (cls, jop, r, op), v in zip(rows, vac):
        c = [0, 1, 0, 1]
        for st, coef in v:
            if not any(st):
                c = coef
        nmodes = 1 + max([i for t, _ in jop for i, _ in t] + [0])
        d = max([len(t) for t, _ in jop] + [0])
        reqs2.append({'op': 'spec.eq', 'alg': ALG[cls], 'n': nmodes, 'd': d, 'lhs': ['leaf', jop],
                      'rhs': ['leaf', [[[], c]]]})
        meta.append(c)
    mreqs = [{'op': 'c02.pred', 'cls': cls, 'a': jop} for cls, jop, _, _ in rows]
    ans = ctx.driver.run(reqs2 + mreqs)
    for i, ((cls, jop, r, op), c) in enumerate(zip(rows, meta)):
        stored_zero = any(co == 0 for co in op.terms.values())
        normal = True
        if cls in ('fermion', 'boson'):
            normal = bool(op.is_normal_ordered())
        elif cls == 'quad':
            normal = dict(of.normal_ordered(op).terms) == dict(op.terms) or stored_zero
        case = {'cls': cls, 'terms': jop, 'stored_zero': stored_zero, 'normal_form': normal}
        s.case(case)
        scalar = ans[i]['eq'] and (c[0] != 0 or c[2] != 0)
        s.count('%s:impl=%s:spec=%s' % (cls, r, scalar))
        if ans[len(rows) + i]['is_identity'] != r:
            s.disagree('is_identity', case, r, ans[len(rows) + i]['is_identity'])
        if scalar != r:
            s.violate('is_identity differs from "the operator is a non-zero multiple of the identity"', case,
                      {'implementation': r, 'spec': scalar, 'scalar': c})
    try:
        is_identity('eleven')
        s.violate('is_identity(str) did not raise TypeError', {}, {})
    except TypeError:
        pass
    return s


# ---------------------------------------------------------------- tensors

def tensor_json(n_body_tensors):
    out = []
    for k, v in n_body_tensors.items():
        arr = numpy.asarray(v)
        out.append([[int(x) for x in k], [to_gq(x) for x in arr.reshape(-1)]])
    return out


def tensor_exact(na, ta, nb, tb, tol):
    if na != nb:
        return False, True
    val, ok = True, True
    for k in set(ta) | set(tb):
        x = numpy.asarray(ta[k]).reshape(-1) if k in ta else None
        y = numpy.asarray(tb[k]).reshape(-1) if k in tb else None
        m = len(x) if x is not None else len(y)
        for i in range(m):
            u = x[i] if x is not None else 0
            v = y[i] if y is not None else 0
            r, mg = safe_lt(nsq_diff(u, v), tol * tol, is_real(u) and is_real(v) and (u == 0 or v == 0))
            val = val and r
            ok = ok and mg
    return val, ok


KEYSETS = [[(1, 0)], [(), (1, 0)], [(), (1, 0), (1, 1, 0, 0)], [(1, 0), (1, 1), (0, 0)], [(), (1, 1, 0, 0)],
           [(1,), (0,)], [(), (1, 0), (0, 1)]]


def rand_tensor(rng, n, key, cplx):
    shape = (n,) * len(key)
    size = n ** len(key)
    vals = []
    for _ in range(size):
        if rng.random() < 0.4:
            vals.append(0.0)
        else:
            vals.append(dyadic(rng, max_num=8, max_pow=3, complex_p=0.5 if cplx else 0.0))
    arr = numpy.array(vals, dtype=complex if cplx else float).reshape(shape)
    return arr if key else (complex(arr) if cplx else float(arr))


def stream_tensor_eq(ctx):
    of = ctx.of
    tol_f = of.config.EQ_TOLERANCE
    tol = Fraction(tol_f)
    s = Stream('tensor-eq', 'PolynomialTensor / InteractionOperator / InteractionRDM pairs on 1-3 orbitals: equal, one entry '
               'moved by a multiple of EQ_TOLERANCE, key dropped / added with zero or tiny tensor, different n_qubits; '
               '== both ways and !=; Model = max-abs as coded, Spec = every entry within tolerance')
    rng = rng_for(ctx.seed, 'c02-tensor')
    n_cases = budget(ctx.tier, 800, 8000)
    if ctx.drift:
        n_cases = max(n_cases, 2000)
    reqs, cases = [], []
    for _ in range(n_cases):
        n = rng.choice([1, 2, 2, 3])
        kind = rng.choice(['poly', 'poly', 'io', 'rdm'])
        cplx = rng.random() < 0.4
        if kind == 'poly':
            keys = rng.choice(KEYSETS)
        elif kind == 'io':
            keys = [(), (1, 0), (1, 1, 0, 0)]
        else:
            keys = [(1, 0), (1, 1, 0, 0)]
        if n == 3 and (1, 1, 0, 0) in keys and rng.random() < 0.6:
            n = 2
        ta = {k: rand_tensor(rng, n, k, cplx) for k in keys}
        tb = {k: (numpy.array(v, copy=True) if isinstance(v, numpy.ndarray) else v) for k, v in ta.items()}
        nb = n
        mode = rng.random()
        tag = 'equal'
        if mode < 0.55:
            tag = 'entry-moved'
            for _k in range(rng.choice([1, 1, 2])):
                k = rng.choice(keys)
                d = tol_f * rng.choice(FACTORS) * rng.choice([1, -1, 1j, (3 + 4j) / 5] if cplx else [1, -1])
                if k == ():
                    tb[k] = tb[k] + d
                else:
                    idx = tuple(rng.randrange(n) for _x in k)
                    tb[k][idx] = tb[k][idx] + d
        elif mode < 0.75 and kind == 'poly':
            tag = 'key-missing'
            k = rng.choice(keys)
            if len(keys) > 1 and not (k != () and all(kk == () or kk == k for kk in keys)):
                small = rng.random() < 0.7
                if small:
                    z = numpy.zeros((n,) * len(k), dtype=complex if cplx else float) if k else 0.0
                    if rng.random() < 0.6 and k:
                        idx = tuple(rng.randrange(n) for _x in k)
                        z[idx] = tol_f * rng.choice(FACTORS)
                    elif rng.random() < 0.6 and not k:
                        z = tol_f * rng.choice(FACTORS)
                    ta[k] = z
                del tb[k]
                if rng.random() < 0.5:
                    ta, tb = tb, ta
        elif mode < 0.8:
            tag = 'n-differs'
            nb = n + 1 if n < 3 else n - 1
            tb = {k: rand_tensor(rng, nb, k, cplx) for k in keys}
        # first key must not be () alone for the constructor
        def build(t, nq):
            if kind == 'io' and set(t) == {(), (1, 0), (1, 1, 0, 0)}:
                return of.InteractionOperator(t[()], t[(1, 0)], t[(1, 1, 0, 0)])
            if kind == 'rdm' and set(t) == {(1, 0), (1, 1, 0, 0)}:
                return of.InteractionRDM(t[(1, 0)], t[(1, 1, 0, 0)])
            return of.PolynomialTensor(dict(t))
        if all(k == () for k in ta) or all(k == () for k in tb):
            continue
        case = {'kind': kind, 'na': n, 'nb': nb, 'a': tensor_json(ta), 'b': tensor_json(tb), 'tag': tag}
        want, ok = tensor_exact(n, ta, nb, tb, tol)
        if not ok:
            s.discards += 1
            continue
        try:
            a, b = build(ta, n), build(tb, nb)
            r_ab, r_ba, ne = (a == b), (b == a), (a != b)
            order = list(set(a.n_body_tensors.keys()) | set(b.n_body_tensors.keys()))
            ja, jb = tensor_json(a.n_body_tensors), tensor_json(b.n_body_tensors)
            na_, nb_ = a.n_qubits, b.n_qubits
        except Exception as e:  # noqa
            s.violate('tensor == raised %s' % type(e).__name__, case, {'error': repr(e)})
            continue
        s.case(case)
        s.count('tag:' + tag)
        s.count('result:%s' % bool(r_ab))
        if bool(r_ab) != want:
            s.violate('tensor == differs from "every entry within EQ_TOLERANCE"', case,
                      {'implementation': bool(r_ab), 'statement': want})
        if bool(r_ab) != bool(r_ba):
            s.violate('tensor == is not symmetric', case, {'ab': bool(r_ab), 'ba': bool(r_ba)})
        if bool(ne) == bool(r_ab):
            s.violate('tensor != inconsistent with ==', case, {})
        reqs.append({'op': 'c02.tensoreq', 'na': na_, 'nb': nb_, 'a': ja, 'b': jb, 'tol': frac_json(tol),
                     'order': [[int(x) for x in k] for k in order]})
        cases.append((case, bool(r_ab)))
    for (case, r), ans in zip(cases, ctx.driver.run(reqs)):
        if ans['model'] != r:
            s.disagree('PolynomialTensor.__eq__', case, r, ans['model'])
        if ans['spec'] != r:
            s.violate('tensor == differs from OFV.Spec.C02.TensorEq', case, {'implementation': r, 'spec': ans['spec']})
    return s


# ---------------------------------------------------------------- is_hermitian

def dagger(cls, terms):
    """the involution of the *-algebra, from its definition (not the library's)"""
    out = {}
    for t, c in terms.items():
        if cls in ('fermion', 'boson'):
            tt = tuple((i, 1 - a) for i, a in reversed(t))
        else:
            tt = tuple(reversed(t))
        out[tt] = out.get(tt, 0) + complex(c).conjugate()
    return out


def enc_raw(cls, terms):
    return [[enc_term(cls, t), to_gq(c)] for t, c in terms.items()]


def stream_hermitian(ctx):
    of = ctx.of
    is_hermitian = of.utils.operator_utils.is_hermitian
    hc = of.utils.operator_utils.hermitian_conjugated
    s = Stream('is-hermitian', 'qubit / fermion / boson / quad operators on <= 3 modes, terms of length <= 4: B + B^dagger, '
               'random B, Hermitian operators plus a non-trivially spelled zero (t - normal_ordered(t)), small '
               'anti-Hermitian parts; Spec: A = A^dagger as linear maps (involution from its definition, spec.eq); '
               'Model: hermitian_conjugated (+ normal ordering for fermions / bosons) + isclose as coded')
    rng = rng_for(ctx.seed, 'c02-herm')
    n = budget(ctx.tier, 120, 1500)
    if ctx.drift:
        n = max(n, 400)
    rows = []
    for cls in ('qubit', 'fermion', 'boson', 'quad'):
        C = cls_of(of, cls)
        nm = 3 if cls in ('qubit', 'fermion') else 2
        for _ in range(n):
            B = C()
            for _k in range(rng.choice([1, 2, 3])):
                t = rand_term(rng, cls, rng.choice([1, 2, 3, 4]), nm - 1)
                B += C(t, dyadic(rng, max_num=3, max_pow=1))
            mode = rng.random()
            try:
                Bd = mk(C, {})
                for t, c in dagger(cls, B.terms).items():
                    Bd += C(t, c)
                if mode < 0.45:
                    A, tag = B + Bd, 'B+B^'
                elif mode < 0.6:
                    A, tag = B, 'random'
                elif mode < 0.75:
                    A, tag = B + Bd + rng.choice([1j, 0.5, 0.25j]) * C(rand_term(rng, cls, 2, nm - 1)), 'perturbed'
                elif cls != 'qubit':
                    t = tuple((rng.randint(0, nm - 1), rng.choice(ACTIONS[cls])) for _x in range(rng.choice([2, 3, 4])))
                    Z = C(t) - of.normal_ordered(C(t))
                    A, tag = B + Bd + rng.choice([1, 1j, 0.5]) * Z, 'plus-spelled-zero'
                else:
                    A, tag = (B + Bd) * (B + Bd), 'square'
                r = is_hermitian(A)
                hcA = hc(A)
            except Exception as e:  # noqa
                s.violate('is_hermitian raised %s' % type(e).__name__, {'cls': cls, 'B': enc_op(cls, B.terms)},
                          {'error': repr(e)})
                continue
            rows.append((cls, A, bool(r), hcA, tag, nm))
    oreqs, mreqs, midx = [], [], []
    for i, (cls, A, r, hcA, tag, nm) in enumerate(rows):
        ja = enc_op(cls, A.terms)
        jd = enc_raw(cls, dagger(cls, A.terms))
        d = max([len(t) for t in A.terms] + [0])
        oreqs.append({'op': 'spec.eq', 'alg': ALG[cls], 'n': nm, 'd': d, 'lhs': ['leaf', ja], 'rhs': ['leaf', jd]})
        mreqs.append({'op': 'c02.hermitian', 'cls': cls, 'a': ja})
        midx.append(i)
    ans = ctx.driver.run(oreqs + mreqs)
    from common import canon_op_json
    for i, (cls, A, r, hcA, tag, nm) in enumerate(rows):
        case = {'cls': cls, 'terms': enc_op(cls, A.terms), 'tag': tag}
        s.case(case)
        s.count('%s:%s:impl=%s:spec=%s' % (cls, tag, r, ans[i]['eq']))
        if ans[i]['eq'] != r:
            s.violate('is_hermitian differs from A = A^dagger in the Spec', case,
                      {'implementation': r, 'spec': ans[i]['eq'], 'witness_state': ans[i].get('state')})
    for k, i in enumerate(midx):
        cls, A, r, hcA, tag, nm = rows[i]
        case = {'cls': cls, 'terms': enc_op(cls, A.terms), 'tag': tag}
        m = ans[len(rows) + k]
        if m['model'] != r:
            s.disagree('is_hermitian', case, r, m['model'])
        if canon_op_json(m['hc']) != canon_op_json(enc_op(cls, hcA.terms)):
            s.disagree('hermitian_conjugated', case, enc_op(cls, hcA.terms), m['hc'])
    return s


# ---------------------------------------------------------------- is_hermitian(InteractionOperator)

def io_fermion_items(n, const, one, two):
    """the FermionOperator an InteractionOperator denotes (docstring formula), as spelled terms"""
    items = []
    if const != 0:
        items.append(((), complex(const)))
    for p in range(n):
        for q in range(n):
            if one[p, q] != 0:
                items.append((((p, 1), (q, 0)), complex(one[p, q])))
    for p, q, r, t in itertools.product(range(n), repeat=4):
        if two[p, q, r, t] != 0:
            items.append((((p, 1), (q, 1), (r, 0), (t, 0)), complex(two[p, q, r, t])))
    return items


def stream_hermitian_io(ctx):
    of = ctx.of
    is_hermitian = of.utils.operator_utils.is_hermitian
    hc = of.utils.operator_utils.hermitian_conjugated
    s = Stream('is-hermitian-interaction', 'InteractionOperators on 2-4 modes with dyadic complex tensors: Hermitian operators '
               'stored NON-symmetrised (S + S^dagger followed by gauge moves T[pqrs] += x, T[qprs] += x / T[pqsr] += x, junk on '
               'p=q or r=s, upper-triangular storage, single entries such as T[0,1,0,1]), entry-wise Hermitian tensors, and '
               'non-Hermitian controls (random tensors, one entry perturbed, complex constant, non-Hermitian one-body part); '
               'oracle: the denoted fermion operator equals its adjoint in the Spec (spec.eq on all 2^n Fock states); Model: '
               'normal_ordered both sides + PolynomialTensor.__eq__; tensor classes other than InteractionOperator must raise TypeError')
    rng = rng_for(ctx.seed, 'c02-herm-io')
    n_cases = budget(ctx.tier, 150, 2500)
    if ctx.drift:
        n_cases = max(n_cases, 600)

    def dag2(T):
        return numpy.conj(numpy.transpose(T, (3, 2, 1, 0)))

    def rnd(shape, dens):
        size = int(numpy.prod(shape))
        v = [dyadic(rng, max_num=4, max_pow=1, complex_p=0.5) if rng.random() < dens else 0.0 for _ in range(size)]
        return numpy.array(v, dtype=complex).reshape(shape)

    fixed = []
    # the witnesses of the seeded defect
    t = numpy.zeros((2,) * 4, dtype=complex); t[0, 1, 0, 1] = 1.0
    fixed.append((2, 0.0, numpy.zeros((2, 2), dtype=complex), t, 'single-entry'))
    t = numpy.zeros((4,) * 4, dtype=complex); t[0, 1, 2, 3] = 1j; t[2, 3, 1, 0] = 1j
    fixed.append((4, 0.0, numpy.zeros((4, 4), dtype=complex), t, 'two-entries'))
    t = numpy.zeros((3,) * 4, dtype=complex); t[0, 1, 1, 2] = 2.0; t[1, 2, 0, 1] = 2.0
    fixed.append((3, 1.5, numpy.zeros((3, 3), dtype=complex), t, 'two-entries'))
    rows = []
    todo = list(fixed)
    for _ in range(n_cases):
        n = rng.choice([2, 2, 3, 3, 4])
        kind = rng.choice(['gauge', 'gauge', 'gauge', 'upper', 'symmetric', 'random', 'perturbed', 'bad-one-body', 'bad-constant'])
        S = rnd((n,) * 4, rng.choice([0.1, 0.3, 0.7]))
        two = S + dag2(S)
        M = rnd((n, n), 0.6)
        one = M + M.conj().T
        const = dyadic(rng, max_num=4, max_pow=1, complex_p=0.0)
        if kind in ('gauge', 'perturbed', 'bad-one-body', 'bad-constant'):
            for _k in range(rng.choice([1, 2, 4, 8])):
                p, q, r, u = (rng.randrange(n) for _x in range(4))
                x = dyadic(rng, max_num=4, max_pow=1, complex_p=0.5)
                m = rng.random()
                if m < 0.4:
                    two[p, q, r, u] += x; two[q, p, r, u] += x          # a^p a^q = -a^q a^p
                elif m < 0.8:
                    two[p, q, r, u] += x; two[p, q, u, r] += x          # a_r a_s = -a_s a_r
                elif m < 0.9:
                    two[p, p, r, u] += x                                # a^p a^p = 0
                else:
                    two[p, q, r, r] += x
        if kind == 'upper':
            up = numpy.zeros_like(two)
            for p, q, r, u in itertools.product(range(n), repeat=4):
                if p < q and r < u:
                    up[p, q, r, u] = two[p, q, r, u] - two[q, p, r, u] - two[p, q, u, r] + two[q, p, u, r]
            two = up
        if kind == 'random':
            two = rnd((n,) * 4, 0.3)
        if kind == 'perturbed':
            idx = tuple(rng.randrange(n) for _x in range(4))
            two[idx] += rng.choice([1.0, 0.5j, -2.0])
        if kind == 'bad-one-body':
            one[rng.randrange(n), rng.randrange(n)] += rng.choice([1j, 0.5, 1 + 1j])
        if kind == 'bad-constant':
            const = complex(const, rng.choice([1.0, -0.5]))
        todo.append((n, const, one, two, kind))
    for n, const, one, two, kind in todo:
        case = {'n': n, 'kind': kind, 'constant': to_gq(const), 'one_body': [to_gq(x) for x in one.reshape(-1)],
                'two_body': [to_gq(x) for x in two.reshape(-1)]}
        try:
            io = of.InteractionOperator(const, one.copy(), two.copy())
            r = is_hermitian(io)
            h = hc(io)
            unchanged = numpy.array_equal(io.two_body_tensor, two) and numpy.array_equal(io.one_body_tensor, one)
            hc_one = [to_gq(x) for x in h.one_body_tensor.reshape(-1)]
            hc_two = [to_gq(x) for x in h.two_body_tensor.reshape(-1)]
        except Exception as e:  # noqa
            s.violate('is_hermitian(InteractionOperator) raised %s' % type(e).__name__, case, {'error': repr(e)})
            continue
        if not unchanged:
            s.violate('is_hermitian(InteractionOperator) modified its argument', case, {})
        rows.append((case, n, const, one, two, bool(r), hc_one, hc_two))
    reqs = []
    for case, n, const, one, two, r, hc_one, hc_two in rows:
        items = dict()
        for t, c in io_fermion_items(n, const, one, two):
            items[t] = items.get(t, 0) + c
        a = enc_raw('fermion', items)
        ad = enc_raw('fermion', dagger('fermion', items))
        reqs.append({'op': 'spec.eq', 'alg': 'fermion', 'n': n, 'lhs': ['leaf', a], 'rhs': ['leaf', ad]})
        reqs.append({'op': 'c02.hermitian_io', 'n': n, 'constant': case['constant'], 'one_body': case['one_body'],
                     'two_body': case['two_body']})
    ans = ctx.driver.run(reqs)
    for i, (case, n, const, one, two, r, hc_one, hc_two) in enumerate(rows):
        eq, m = ans[2 * i], ans[2 * i + 1]
        s.case(case)
        s.count('%s:impl=%s:spec=%s' % (case['kind'], r, eq['eq']))
        s.count('exact_regime(is_hermitian_io_sound):%s' % m['exact_regime'])
        if m['model'] != r:
            s.disagree('is_hermitian(InteractionOperator)', case, r, m['model'])
        if [tuple(x) for x in m['hc_one']] != [tuple(x) for x in hc_one] or \
                [tuple(x) for x in m['hc_two']] != [tuple(x) for x in hc_two]:
            s.disagree('hermitian_conjugated(InteractionOperator)', case, {'one': hc_one, 'two': hc_two},
                       {'one': m['hc_one'], 'two': m['hc_two']})
        if eq['eq'] != r:
            s.violate('is_hermitian(InteractionOperator) differs from A = A^dagger in the Spec', case,
                      {'implementation': r, 'spec': eq['eq'], 'witness_state': eq.get('state')})
    # other tensor classes are not supported: TypeError
    z2, z4 = numpy.zeros((2, 2)), numpy.zeros((2, 2, 2, 2))
    for name, obj in (('InteractionRDM', lambda: of.InteractionRDM(z2, z4)),
                      ('QuadraticHamiltonian', lambda: of.QuadraticHamiltonian(z2)),
                      ('PolynomialTensor', lambda: of.PolynomialTensor({(1, 0): z2}))):
        s.case({'unsupported': name}, nontrivial=False)
        try:
            is_hermitian(obj())
            s.violate('is_hermitian(%s) did not raise TypeError' % name, {'class': name}, {})
        except TypeError:
            pass
        except Exception as e:  # noqa
            s.violate('is_hermitian(%s) raised %s' % (name, type(e).__name__), {'class': name}, {'error': repr(e)})
    return s


# ---------------------------------------------------------------- hardening: types, bands, state, asymmetry

BAND = [2.0 ** -k for k in (14, 15, 17, 20, 22, 23)]     # 6e-5 .. 1.2e-7, dyadic
NP_SCALARS = [('float64', numpy.float64), ('complex128', numpy.complex128), ('float32', numpy.float32),
              ('complex64', numpy.complex64), ('int64', numpy.int64), ('int32', numpy.int32)]
PY_SCALARS = [('int', int), ('float', float), ('complex', complex)]


def arith_ok(ty):
    """can the value take part in abs / subtraction / max as isclose needs them?  (a pure
    Python / numpy probe, independent of the library)"""
    try:
        v = ty(2)
        abs(v - v) < 1.0 * max(1, abs(v), abs(v))
        return True
    except Exception:  # noqa
        return False


def cast_val(ty, x):
    if ty in (int, numpy.int64, numpy.int32):
        return ty(int(x)) if float(x).is_integer() else ty(2)
    if ty in (complex, numpy.complex128, numpy.complex64):
        return ty(complex(x, -x / 2))
    return ty(x)


def terms_snapshot(op):
    return [(k, type(v).__name__, to_gq(v)) for k, v in op.terms.items()]


def stream_hardening(ctx):
    of = ctx.of
    is_identity = of.utils.operator_utils.is_identity
    is_hermitian = of.utils.operator_utils.is_hermitian
    hc = of.utils.operator_utils.hermitian_conjugated
    s = Stream('hardening', 'isclose / == / != with numpy-scalar and Python coefficients placed into .terms (mixed types on the two '
               'sides), mode indices up to 300, differences and one-sided coefficients of magnitude 2^-14 .. 2^-23 next to O(1), purely '
               'imaginary values, both operand orders, called twice, operands and predicates (is_identity, is_normal_ordered) unchanged '
               'by the comparison; Majorana == / commutes_with likewise; tensor == with int32 / int64 / float32 / float64 / complex64 / '
               'complex128 arrays, Fortran order, sizes 5 / 9 / 17, band differences, arrays unmodified; hermitian_conjugated / '
               'is_hermitian twice around in-place modification; is_hermitian(InteractionOperator) with integer / complex64 tensors and '
               'numpy / complex constants; predicates on terms with indices >= 257; all comparisons exact, float_comparisons = 0')
    rng = rng_for(ctx.seed, 'c02-hard')
    scal = [(nm, ty) for nm, ty in PY_SCALARS + NP_SCALARS if arith_ok(ty)]
    n = budget(ctx.tier, 150, 2500)
    if ctx.drift:
        n = max(n, 600)
    # ---- isclose: types, bands, large indices, state
    reqs, cases = [], []
    for cls in ('qubit', 'fermion'):
        C = cls_of(of, cls)
        for _ in range(n):
            tol_arg = rng.choice([None, None, 2.0 ** -10, 2.0 ** -16])
            tol = Fraction(of.config.EQ_TOLERANCE) if tol_arg is None else Fraction(tol_arg)
            pool = term_pool(rng, cls, rng.choice([2, 4, 8]), max_len=3, max_index=rng.choice([5, 300]))
            ta, tb = {}, {}
            ana, anb = rng.choice(scal), rng.choice(scal)
            for t in pool:
                x = rng.choice([1.0, -1.0, 2.0, 0.5, 1.5, 3.0, 16.0])
                k = rng.random()
                if k < 0.2:      # one-sided, band or tiny
                    side = ta if rng.random() < 0.5 else tb
                    v = rng.choice(BAND + [2.0 ** -27, 2.0 ** -30]) * rng.choice([1, -1])
                    side[t] = rng.choice([float, numpy.float64, numpy.float32])(v) if rng.random() < 0.7 else complex(0.0, v)
                    continue
                ta[t] = cast_val(ana[1], x)
                if k < 0.55:     # equal value, possibly another type
                    tb[t] = cast_val(anb[1], x) if exact(cast_val(anb[1], x)) == exact(ta[t]) else ta[t]
                elif k < 0.85:   # band difference (python float / complex carries the small part exactly)
                    d = rng.choice(BAND) * rng.choice([1, -1])
                    base = complex(ta[t])
                    tb[t] = (base + (complex(0.0, d) if rng.random() < 0.3 else d))
                    if tb[t].imag == 0 and rng.random() < 0.5:
                        tb[t] = tb[t].real
                else:
                    tb[t] = cast_val(anb[1], -x)
            case = {'cls': cls, 'a': enc_op(cls, ta), 'b': enc_op(cls, tb), 'tol': frac_json(tol),
                    'types': [ana[0], anb[0]]}
            want, ok = isclose_exact(ta, tb, tol)
            if not ok:
                s.discards += 1
                continue
            a, b = mk(C, ta), mk(C, tb)
            sa, sb = terms_snapshot(a), terms_snapshot(b)
            try:
                pre = (is_identity(a), is_identity(b), a.is_normal_ordered() if cls == 'fermion' else None)
                if tol_arg is None:
                    r = [a.isclose(b), b.isclose(a), a == b, not (a != b), a.isclose(b)]
                else:
                    r = [a.isclose(b, tol_arg), b.isclose(a, tol_arg), a.isclose(b, tol_arg)]
                post = (is_identity(a), is_identity(b), a.is_normal_ordered() if cls == 'fermion' else None)
            except Exception as e:  # noqa
                s.violate('isclose raised %s' % type(e).__name__, case, {'error': repr(e)})
                continue
            s.case(case)
            s.count('isclose:%s/%s:%s' % (ana[0], anb[0], want))
            if terms_snapshot(a) != sa or terms_snapshot(b) != sb:
                s.violate('a comparison modified its operands', case, {})
            if pre != post:
                s.violate('a predicate changed its answer after a comparison', case, {'before': pre, 'after': post})
            if any(bool(x) != want for x in r):
                s.violate('isclose / == / != (types, bands) differs from the per-term statement', case,
                          {'answers': [bool(x) for x in r], 'statement': want})
            reqs.append({'op': 'c02.isclose', 'a': case['a'], 'b': case['b'], 'tol': case['tol']})
            cases.append((case, want))
    for (case, want), ans in zip(cases, ctx.driver.run(reqs)):
        if ans['model'] != want or ans['spec'] != want:
            s.disagree('isclose Model / Spec vs exact statement (types, bands)', case, want, ans)
    # ---- Majorana: numpy scalars, bands, state, scalar argument types
    M = of.MajoranaOperator
    rtol_f, atol_f = np_defaults()
    rtol, atol = Fraction(rtol_f), Fraction(atol_f)
    reqs, cases = [], []
    for _ in range(n):
        pool = term_pool(rng, 'majorana', rng.choice([1, 2, 4]), max_len=3, max_index=rng.choice([9, 300]))
        ta, tb = {}, {}
        ana = rng.choice(scal)
        for t in pool:
            x = rng.choice([1.0, 2.0, -0.5, 4.0])
            ta[t] = cast_val(ana[1], x)
            k = rng.random()
            if k < 0.4:
                tb[t] = ta[t]
            elif k < 0.8:
                tb[t] = complex(ta[t]) * (1 + rng.choice([2.0 ** -17, 2.0 ** -16, -2.0 ** -18, 2.0 ** -14, 2.0 ** -23]))
            elif k < 0.9:
                del ta[t]
                tb[t] = rng.choice(BAND + [2.0 ** -27, 2.0 ** -30])
            else:
                tb[t] = complex(0.0, 1.0) * complex(ta[t])
        coded, stmt, ok, window = maj_eq_exact(ta, tb, atol, rtol)
        case = {'a': enc_op('majorana', ta), 'b': enc_op('majorana', tb), 'type': ana[0]}
        if not ok:
            s.discards += 1
            continue
        a, b = M.from_dict(dict(ta)), M.from_dict(dict(tb))
        sa, sb = terms_snapshot(a), terms_snapshot(b)
        try:
            r = [a == b, b == a, not (a != b), a == b]
            cw1 = a.commutes_with(b)
            cw2 = a.commutes_with(b)
        except Exception as e:  # noqa
            s.violate('Majorana comparison raised %s' % type(e).__name__, case, {'error': repr(e)})
            continue
        s.case(case)
        s.count('majorana:%s:%s' % (ana[0], stmt))
        if terms_snapshot(a) != sa or terms_snapshot(b) != sb:
            s.violate('a Majorana comparison / commutes_with modified its operands', case, {})
        if any(bool(x) != stmt for x in r) or bool(cw1) != bool(cw2):
            s.violate('Majorana == (types, bands) differs from the symmetric per-term statement / is not repeatable', case,
                      {'answers': [bool(x) for x in r], 'statement': stmt})
        reqs.append({'op': 'c02.majeq', 'a': case['a'], 'b': case['b'], 'atol': frac_json(atol), 'rtol': frac_json(rtol)})
        cases.append((case, stmt))
    for (case, want), ans in zip(cases, ctx.driver.run(reqs)):
        if ans['model'] != want:
            s.disagree('Majorana == Model vs exact statement (types, bands)', case, want, ans['model'])
    a = M((0, 1), 2.0)
    for x in (2, 0.5, 1j, True, numpy.float64(2.0), numpy.complex128(1j), numpy.float32(2), numpy.int64(3)):
        if not isinstance(x, (int, float, complex)):
            continue                       # not a scalar for the library (documented isinstance test)
        s.case({'commutes_with_scalar': type(x).__name__}, nontrivial=False)
        if a.commutes_with(x) is not True:
            s.violate('commutes_with(scalar) is not True', {'scalar': type(x).__name__}, {})
    # ---- tensor ==: dtypes, order, sizes, bands, state
    tol_f = of.config.EQ_TOLERANCE
    tolq = Fraction(tol_f)
    dts = [numpy.int32, numpy.int64, numpy.float32, numpy.float64, numpy.complex64, numpy.complex128]
    reqs, cases = [], []
    for _ in range(budget(ctx.tier, 120, 1500)):
        nq = rng.choice([1, 2, 3, 5, 5, 9, 17])
        keys = [(1, 0)] if nq > 3 else rng.choice([[(1, 0)], [(), (1, 0)], [(), (1, 0), (1, 1, 0, 0)]])
        da, db = rng.choice(dts), rng.choice(dts)

        def arr(dt, base=None, key=(1, 0)):
            shape = (nq,) * len(key)
            if base is None:
                v = [rng.choice([0, 0, 1, -1, 2, 3]) for _x in range(nq ** len(key))]
                out = numpy.array(v).reshape(shape)
            else:
                out = numpy.array(base)
            out = out.astype(dt)
            return numpy.asfortranarray(out) if rng.random() < 0.4 else out
        ta = {}
        tb = {}
        for kk in keys:
            if kk == ():
                c = rng.choice([1, 2.0, 1 + 2j, numpy.complex64(2j), numpy.float32(0.5), True])
                ta[kk] = c
                tb[kk] = c if rng.random() < 0.7 else complex(c) + rng.choice(BAND)
                continue
            A = arr(da, key=kk)
            ta[kk] = A
            B = arr(db, base=A, key=kk)
            mode = rng.random()
            if mode < 0.5 and B.dtype.kind in 'fc':
                idx = tuple(rng.randrange(nq) for _x in kk)
                if B.dtype.itemsize >= 8 and B.dtype != numpy.complex64:
                    B[idx] += rng.choice(BAND + [2.0 ** -27, 2.0 ** -30]) * rng.choice([1, -1])
                else:                       # float32 / complex64: only a zero entry can carry a tiny value exactly
                    if B[idx] == 0:
                        B[idx] = rng.choice([2.0 ** -20, 2.0 ** -27, 2.0 ** -30])
            elif mode < 0.6:
                idx = tuple(rng.randrange(nq) for _x in kk)
                B[idx] = B[idx] + 1
            tb[kk] = B
        if all(k == () for k in ta):
            continue
        case = {'na': nq, 'nb': nq, 'a': tensor_json(ta), 'b': tensor_json(tb), 'dtypes': [da.__name__, db.__name__]}
        want, ok = tensor_exact(nq, ta, nq, tb, tolq)
        if not ok:
            s.discards += 1
            continue
        copies = {k: (numpy.array(v, copy=True) if isinstance(v, numpy.ndarray) else v) for k, v in list(ta.items())}
        copies_b = {k: (numpy.array(v, copy=True) if isinstance(v, numpy.ndarray) else v) for k, v in list(tb.items())}
        try:
            a, b = of.PolynomialTensor(dict(ta)), of.PolynomialTensor(dict(tb))
            r = [a == b, b == a, not (a != b), a == b]
        except Exception as e:  # noqa
            s.violate('tensor == raised %s' % type(e).__name__, case, {'error': repr(e)})
            continue
        s.case(case)
        s.count('tensor:%s/%s:n=%d:%s' % (da.__name__, db.__name__, nq, want))
        same = all(numpy.array_equal(a.n_body_tensors[k], copies[k]) for k in copies) and \
            all(numpy.array_equal(b.n_body_tensors[k], copies_b[k]) for k in copies_b)
        if not same:
            s.violate('tensor == modified its operands', case, {})
        if any(bool(x) != want for x in r):
            s.violate('tensor == (dtypes, bands) differs from "every entry within EQ_TOLERANCE"', case,
                      {'answers': [bool(x) for x in r], 'statement': want})
        reqs.append({'op': 'c02.tensoreq', 'na': nq, 'nb': nq, 'a': case['a'], 'b': case['b'], 'tol': frac_json(tolq)})
        cases.append((case, want))
    for (case, want), ans in zip(cases, ctx.driver.run(reqs)):
        if ans['model'] != want or ans['spec'] != want:
            s.disagree('tensor == Model / Spec vs exact statement (dtypes, bands)', case, want, ans)
    # ---- tensor == / != with DIFFERENT key sets, negative / complex one-sided tensors: operands untouched
    import copy as _copy

    def snap_t(obj):
        return {k: (numpy.array(v, copy=True), getattr(v, 'dtype', type(v))) for k, v in obj.n_body_tensors.items()}

    def same_t(obj, snp):
        cur = obj.n_body_tensors
        if list(cur.keys()) != list(snp.keys()):
            return False
        for k, (arr, dt) in snp.items():
            v = cur[k]
            if getattr(v, 'dtype', type(v)) != dt or not numpy.array_equal(numpy.asarray(v), arr):
                return False
        return True
    for _ in range(budget(ctx.tier, 80, 1000)):
        nq = rng.choice([1, 2, 3])
        cplx = rng.random() < 0.6

        def tens(key):
            v = [rng.choice([0, -1, 2, -3, 0.5, -0.25]) + (rng.choice([0, 1j, -2j, 0.5j]) if cplx else 0)
                 for _x in range(nq ** len(key))]
            return numpy.array(v, dtype=complex if cplx else float).reshape((nq,) * len(key))
        kind = rng.choice(['poly', 'poly', 'io-vs-poly', 'quad', 'rdm-vs-poly'])
        base = tens((1, 0))
        extra_key = rng.choice([(1, 1, 0, 0), (1, 1), (0, 0), (0, 1)])
        try:
            if kind == 'poly':
                a = of.PolynomialTensor({(1, 0): base.copy()})
                b = of.PolynomialTensor({(1, 0): base.copy(), extra_key: tens(extra_key)})
            elif kind == 'io-vs-poly':
                a = of.PolynomialTensor({(): 0.5, (1, 0): base.copy()})
                b = of.InteractionOperator(0.5, base.copy(), tens((1, 1, 0, 0)))
            elif kind == 'quad':
                herm = base + base.conj().T
                anti = tens((1, 1)); anti = anti - anti.T
                a = of.QuadraticHamiltonian(herm.copy())
                b = of.QuadraticHamiltonian(herm.copy(), anti)
            else:
                a = of.PolynomialTensor({(1, 0): base.copy()})
                b = of.InteractionRDM(base.copy(), tens((1, 1, 0, 0)))
            if rng.random() < 0.5:
                a, b = b, a
            sa, sb = snap_t(a), snap_t(b)
            a0, b0 = _copy.deepcopy(a), _copy.deepcopy(b)
            r1 = [a == b, b == a, a != b, b != a]
            r2 = [a == b, b == a, a != b, b != a]
            self_eq = [a == a0, b == b0, a0 == a, b0 == b]
            absd = []
            for o in (a, b):
                oa = _copy.deepcopy(o)
                changed = False
                for k, v in oa.n_body_tensors.items():
                    av = numpy.absolute(v)
                    if not numpy.array_equal(av, numpy.asarray(v)):
                        changed = True
                    if isinstance(v, numpy.ndarray):
                        oa.n_body_tensors[k] = av.astype(v.dtype)
                    else:
                        oa.n_body_tensors[k] = av
                absd.append((changed, o == oa))
        except Exception as e:  # noqa
            s.violate('tensor comparison (different key sets) raised %s' % type(e).__name__, {'kind': kind}, {'error': repr(e)})
            continue
        case = {'kind': kind, 'n': nq, 'a': tensor_json(sa and {k: v[0] for k, v in sa.items()}),
                'b': tensor_json({k: v[0] for k, v in sb.items()})}
        s.case(case)
        s.count('tensor-state:' + kind)
        if not (same_t(a, sa) and same_t(b, sb)):
            s.violate('tensor == / != modified an operand (arrays not bit-identical afterwards)', case, {})
        if [bool(x) for x in r1] != [bool(x) for x in r2]:
            s.violate('repeating a tensor comparison gives another answer', case,
                      {'first': [bool(x) for x in r1], 'second': [bool(x) for x in r2]})
        if not all(bool(x) for x in self_eq):
            s.violate('after comparisons an operand no longer equals a deep copy of its original self', case, {})
        for changed, eqabs in absd:
            if changed and bool(eqabs):
                s.violate('an operand equals its entry-wise abs() version', case, {})
        # expected answer, independently: entry-wise with missing keys as zero
        ta_ = {k: v[0] for k, v in sa.items()}
        tb_ = {k: v[0] for k, v in sb.items()}
        want, ok = tensor_exact(a.n_qubits, ta_, b.n_qubits, tb_, tolq)
        if ok and (bool(r1[0]) != want or bool(r1[1]) != want or bool(r1[2]) == want or bool(r1[3]) == want):
            s.violate('tensor == / != (different key sets) differs from "every entry within EQ_TOLERANCE, missing = 0"', case,
                      {'answers': [bool(x) for x in r1], 'statement': want})
    # ---- hermitian_conjugated / is_hermitian: state
    for cls in ('qubit', 'fermion', 'boson', 'quad'):
        C = cls_of(of, cls)
        for _ in range(budget(ctx.tier, 25, 300)):
            op = C()
            for _k in range(rng.choice([1, 2, 3])):
                op += C(rand_term(rng, cls, 3, 2), dyadic(rng, max_num=3, max_pow=1))
            if rng.random() < 0.5:
                op.terms[tuple(rand_term(rng, cls, 2, 2))] = rng.choice(BAND) * rng.choice([1, 1j])
            case = {'cls': cls, 'terms': enc_op(cls, op.terms)}
            snap = terms_snapshot(op)
            try:
                h1 = hc(op)
                j1 = enc_op(cls, h1.terms)
                r1 = is_hermitian(op)
                h1 *= 2.0
                h1 += C((), 1.0)
                h2 = hc(op)
                r2 = is_hermitian(op)
            except Exception as e:  # noqa
                s.violate('hermitian_conjugated / is_hermitian raised %s' % type(e).__name__, case, {'error': repr(e)})
                continue
            s.case(case)
            s.count('hermitian-state:' + cls)
            if terms_snapshot(op) != snap or h1 is op or h2 is h1 or h1.terms is op.terms:
                s.violate('hermitian_conjugated / is_hermitian modified or aliased its argument', case, {})
            if canon_op_json(enc_op(cls, h2.terms)) != canon_op_json(j1) or bool(r1) != bool(r2):
                s.violate('hermitian_conjugated / is_hermitian not repeatable after in-place modification of the first result',
                          case, {'first': j1, 'second': enc_op(cls, h2.terms)})
    # ---- is_hermitian(InteractionOperator): integer / complex64 / float32 tensors, numpy and complex constants
    rows = []
    for _ in range(budget(ctx.tier, 60, 800)):
        nq = rng.choice([2, 2, 3, 4])
        dt = rng.choice(dts)
        integral = dt in (numpy.int32, numpy.int64)
        cplx = dt in (numpy.complex64, numpy.complex128)

        def val():
            if rng.random() < 0.6:
                return 0
            v = rng.choice([1, -1, 2, 3])
            if not integral and rng.random() < 0.3:
                v = rng.choice([0.5, -1.5, 2.0 ** -15])
            if cplx and rng.random() < 0.5:
                v = complex(0, v) if rng.random() < 0.5 else complex(v, 1)
            return v
        S2 = numpy.array([val() for _x in range(nq ** 4)], dtype=complex).reshape((nq,) * 4)
        M1 = numpy.array([val() for _x in range(nq * nq)], dtype=complex).reshape((nq, nq))
        kind = rng.choice(['hermitian', 'hermitian', 'gauge', 'raw'])
        if kind != 'raw':
            S2 = S2 + numpy.conj(numpy.transpose(S2, (3, 2, 1, 0)))
            M1 = M1 + M1.conj().T
        if kind == 'gauge':
            for _k in range(3):
                p, q, r, u = (rng.randrange(nq) for _x in range(4))
                x = rng.choice([1, 2, -1])
                S2[p, q, r, u] += x
                S2[q, p, r, u] += x
        if not cplx:
            S2, M1 = S2.real, M1.real
        two, one = S2.astype(dt), M1.astype(dt)
        if rng.random() < 0.4:
            two, one = numpy.asfortranarray(two), numpy.asfortranarray(one)
        const = rng.choice([1, 0.5, numpy.float32(2), numpy.int64(3), True, numpy.complex64(2), 1j, numpy.complex128(1 + 1j), 2 + 0j,
                            numpy.complex64(1 + 2j), numpy.complex64(-1j), numpy.complex64(0.5)])
        case = {'n': nq, 'kind': kind, 'dtype': dt.__name__, 'constant_type': type(const).__name__,
                'constant': to_gq(const), 'one_body': [to_gq(x) for x in one.reshape(-1)],
                'two_body': [to_gq(x) for x in two.reshape(-1)]}
        one0, two0 = one.copy(), two.copy()
        try:
            io = of.InteractionOperator(const, one, two)
            r1 = is_hermitian(io)
            r2 = is_hermitian(io)
        except Exception as e:  # noqa
            s.violate('is_hermitian(InteractionOperator) raised %s' % type(e).__name__, case, {'error': repr(e)})
            continue
        if not (numpy.array_equal(io.one_body_tensor, one0) and numpy.array_equal(io.two_body_tensor, two0)):
            s.violate('is_hermitian(InteractionOperator) modified its argument', case, {})
        if bool(r1) != bool(r2):
            s.violate('is_hermitian(InteractionOperator) is not repeatable', case, {})
        rows.append((case, nq, complex(const), one0, two0, bool(r1)))
    reqs = []
    for case, nq, const, one, two, r in rows:
        items = dict()
        for t, c in io_fermion_items(nq, const, one, two):
            items[t] = items.get(t, 0) + c
        reqs.append({'op': 'spec.eq', 'alg': 'fermion', 'n': nq, 'lhs': ['leaf', enc_raw('fermion', items)],
                     'rhs': ['leaf', enc_raw('fermion', dagger('fermion', items))]})
        reqs.append({'op': 'c02.hermitian_io', 'n': nq, 'constant': case['constant'], 'one_body': case['one_body'],
                     'two_body': case['two_body']})
    ans = ctx.driver.run(reqs)
    for i, (case, nq, const, one, two, r) in enumerate(rows):
        s.case(case)
        s.count('hermitian-io:%s:%s:impl=%s:spec=%s' % (case['dtype'], case['kind'], r, ans[2 * i]['eq']))
        if ans[2 * i + 1]['model'] != r:
            s.disagree('is_hermitian(InteractionOperator) (dtypes)', case, r, ans[2 * i + 1]['model'])
        if ans[2 * i]['eq'] != r:
            s.violate('is_hermitian(InteractionOperator) (dtypes) differs from A = A^dagger in the Spec', case,
                      {'implementation': r, 'spec': ans[2 * i]['eq']})
    # ---- numpy-integer mode indices inside the keys of .terms (hash / compare equal to Python ints)
    for cls in ('fermion', 'qubit'):
        C = cls_of(of, cls)
        for _ in range(budget(ctx.tier, 40, 400)):
            it = rng.choice([numpy.int64, numpy.int32, numpy.uint8])
            pool = term_pool(rng, cls, rng.choice([1, 2, 3]), max_len=3, max_index=rng.choice([5, 200]))
            tp = {t: rng.choice([1.0, -2.0, 0.5, 1j]) for t in pool}
            tn = {tuple((it(i), a) for i, a in t): c for t, c in tp.items()}
            a, b = mk(C, tp), mk(C, tn)
            case = {'cls': cls, 'terms': enc_op(cls, tp), 'index_type': it.__name__}
            try:
                r = [a == b, b == a, b.isclose(a), not (a != b)]
                g = (is_identity(a), is_identity(b))
                if cls == 'fermion':
                    g += (a.is_normal_ordered(), b.is_normal_ordered(), a.is_two_body_number_conserving(True),
                          b.is_two_body_number_conserving(True))
            except Exception as e:  # noqa
                s.violate('comparison / predicate raised %s on numpy-integer indices' % type(e).__name__, case,
                          {'error': repr(e)})
                continue
            s.case(case)
            s.count('numpy-int-indices:%s:%s' % (cls, it.__name__))
            if not all(bool(x) for x in r):
                s.violate('operators whose keys differ only in the integer type of the indices compare unequal', case,
                          {'answers': [bool(x) for x in r]})
            if any(bool(g[2 * k]) != bool(g[2 * k + 1]) for k in range(len(g) // 2)):
                s.violate('a predicate depends on the integer type of the indices', case, {'answers': [bool(x) for x in g]})
    # ---- predicates on terms with mode indices >= 257, before and after comparisons
    reqs, cases = [], []
    for cls in ('fermion', 'boson'):
        C = cls_of(of, cls)
        for _ in range(budget(ctx.tier, 60, 600)):
            base = rng.choice([255, 256, 257, 298])
            ln = rng.choice([2, 4, 4, 3])
            half = ln // 2
            cr = sorted(rng.sample(range(base, base + 4), min(half, 4)), reverse=True)
            an = sorted(rng.sample(range(base, base + 4), min(ln - half, 4)), reverse=True)
            t = tuple((i, 1) for i in cr) + tuple((i, 0) for i in an)
            if rng.random() < 0.4 and len(t) >= 2:
                t = list(t)
                i, j = rng.sample(range(len(t)), 2)
                t[i], t[j] = t[j], t[i]
                t = tuple(t)
            op = C(t, rng.choice([1.0, numpy.float64(2.0), 1j]))
            case = {'cls': cls, 'stored': enc_op(cls, op.terms)}
            try:
                def preds():
                    g = {'is_normal_ordered': bool(op.is_normal_ordered()), 'is_identity': bool(is_identity(op))}
                    if cls == 'fermion':
                        g['two_body'] = bool(op.is_two_body_number_conserving())
                        g['two_body_spin'] = bool(op.is_two_body_number_conserving(check_spin_symmetry=True))
                    else:
                        g['boson_preserving'] = bool(op.is_boson_preserving())
                    return g
                snap0 = terms_snapshot(op)
                g1 = preds()
                _ = (op == op, op != C(t, 2.0), op.isclose(C()), is_hermitian(op))
                g2 = preds()
                if terms_snapshot(op) != snap0:
                    s.violate('a predicate / comparison / is_hermitian modified its argument', case, {})
            except Exception as e:  # noqa
                s.violate('predicate raised %s' % type(e).__name__, case, {'error': repr(e)})
                continue
            s.case(case)
            s.count('predicates:index>=257:' + cls)
            if g1 != g2:
                s.violate('a predicate changed its answer after comparisons', case, {'before': g1, 'after': g2})
            reqs.append({'op': 'c02.pred', 'cls': cls, 'a': case['stored']})
            cases.append((case, g1))
    for (case, got), ans in zip(cases, ctx.driver.run(reqs)):
        for k, v in got.items():
            if ans[k] != v:
                s.disagree(k + ' (index >= 257)', case, v, ans[k])
            if 'spec_' + k in ans and ans['spec_' + k] != v:
                s.violate('%s (index >= 257) differs from its definition' % k, case, {'implementation': v, 'spec': ans['spec_' + k]})
    return s


# ---------------------------------------------------------------- is_hermitian / hermitian_conjugated on matrices

def stream_hermitian_matrix(ctx):
    import scipy.sparse as sp
    of = ctx.of
    is_hermitian = of.utils.operator_utils.is_hermitian
    hc = of.utils.operator_utils.hermitian_conjugated
    tol_f = of.config.EQ_TOLERANCE
    tolq = Fraction(tol_f)
    s = Stream('is-hermitian-matrix', 'dense numpy.ndarray and scipy.sparse (csr / csc / coo) matrices of size 1-5 with dtypes '
               'complex64 / complex128 / complex256 / float32 / float64 / int64 / int32 / bool (those for which plain numpy / scipy '
               'subtraction works: a library-independent probe), C / Fortran order and non-contiguous views: Hermitian but not '
               'symmetric (Pauli Y, i*antisymmetric), symmetric but not Hermitian (i*X, i*I), real symmetric, neither, entries moved '
               'by multiples of EQ_TOLERANCE (float64 / complex128 only); expected: entry-wise |M - M^dagger| < tol computed exactly; '
               'hermitian_conjugated(M) = conj(M).T entry-wise with the dtype preserved, argument unmodified, dense result shares no '
               'memory with the argument; Model tie; exact comparisons, float_comparisons = 0')
    rng = rng_for(ctx.seed, 'c02-herm-mat')
    pool = []
    for name in ('complex64', 'complex128', 'clongdouble', 'float32', 'float64', 'int64', 'int32', 'bool_'):
        dt = getattr(numpy, name, None)
        if dt is None:
            continue
        try:                                   # library-independent admissibility probe
            z = numpy.zeros((2, 2), dtype=dt)
            _ = z - numpy.conjugate(z.T)
            pool.append((name, dt))
        except Exception:  # noqa
            pass
    s.count('dense dtypes admitted: ' + ','.join(nm for nm, _ in pool))
    n_cases = budget(ctx.tier, 200, 3000)
    if ctx.drift:
        n_cases = max(n_cases, 800)
    rows = []
    for _ in range(n_cases):
        n = rng.choice([1, 2, 2, 3, 4, 5])
        name, dt = rng.choice(pool)
        cplx = numpy.dtype(dt).kind == 'c'
        integral = numpy.dtype(dt).kind in 'iub'
        kind = rng.choice(['herm-not-sym', 'sym-not-herm', 'real-sym', 'neither', 'hermitian', 'near'])
        R = numpy.array([[rng.choice([0, 0, 1, -1, 2, 3]) for _x in range(n)] for _y in range(n)], dtype=float)
        Sy = R + R.T
        An = R - R.T
        if kind == 'herm-not-sym':
            M = Sy + 1j * An if cplx else Sy
        elif kind == 'sym-not-herm':
            M = 1j * Sy + (rng.choice([0, 1]) * numpy.eye(n)) * 1j if cplx else Sy
        elif kind == 'real-sym':
            M = Sy
        elif kind == 'neither':
            M = R + (1j * R.T if cplx else 0)
        elif kind == 'hermitian':
            M = Sy + 1j * An if cplx else Sy
            if not integral:
                M = M * rng.choice([0.5, 0.25, 1.5])
        else:
            M = (Sy + 1j * An if cplx else Sy).astype(complex if cplx else float)
            if name in ('float64', 'complex128') and n > 0:
                i, j = rng.randrange(n), rng.randrange(n)
                M = M.astype(numpy.complex128 if cplx else numpy.float64)
                M[i, j] += tol_f * rng.choice(FACTORS) * rng.choice([1, -1] + ([1j] if cplx else []))
            elif not integral:
                i, j = rng.randrange(n), rng.randrange(n)
                if M[i, j] == 0 and M[j, i] == 0 and i != j:
                    M[i, j] = rng.choice([2.0 ** -24, 2.0 ** -27, 2.0 ** -30])
        if integral and name == 'bool_':
            M = (numpy.real(M) != 0)
        with numpy.errstate(all='ignore'):
            M = numpy.array(M).astype(dt) if not (cplx is False and numpy.iscomplexobj(M)) else numpy.real(M).astype(dt)
        layout = rng.choice(['C', 'F', 'view'])
        if layout == 'F':
            M = numpy.asfortranarray(M)
        elif layout == 'view':
            big_ = numpy.zeros((2 * n, 2 * n), dtype=dt)
            big_[::2, ::2] = M
            M = big_[::2, ::2]
        form = rng.choice(['dense', 'dense', 'csr', 'csc', 'coo'])
        flat = [to_gq(x) for x in numpy.asarray(M).reshape(-1)]
        case = {'n': n, 'dtype': name, 'kind': kind, 'layout': layout, 'form': form, 'm': flat}
        # expected, exactly
        want, ok = True, True
        for i in range(n):
            for j in range(n):
                r_, m_ = safe_lt(nsq_diff(M[i, j], numpy.conjugate(M[j, i])), tolq * tolq,
                                 is_real(M[i, j]) and is_real(M[j, i]) and (M[i, j] == 0 or M[j, i] == 0))
                want, ok = want and r_, ok and m_
        if not ok:
            s.discards += 1
            continue
        M0 = numpy.array(M, copy=True)
        try:
            if form == 'dense':
                X = M
            else:
                try:
                    X = getattr(sp, form + '_matrix')(M)
                    _ = X - X.getH()
                except Exception:  # noqa
                    s.count('sparse dtype not supported by scipy: ' + name)
                    continue
            r1 = is_hermitian(X)
            H = hc(X)
            r2 = is_hermitian(X)
            Hd = H.toarray() if form != 'dense' else H
            unchanged = numpy.array_equal(numpy.asarray(M), M0) and (form == 'dense' or numpy.array_equal(X.toarray(), M0))
            shares = form == 'dense' and numpy.shares_memory(H, M)
            hdt = Hd.dtype
        except Exception as e:  # noqa
            s.violate('is_hermitian / hermitian_conjugated (matrix) raised %s' % type(e).__name__, case, {'error': repr(e)})
            continue
        s.case(case)
        s.count('%s:%s:%s:impl=%s' % (form if form == 'dense' else 'sparse', name, kind, bool(r1)))
        if not unchanged:
            s.violate('is_hermitian / hermitian_conjugated modified its matrix argument', case, {})
        if shares:
            s.violate('hermitian_conjugated(ndarray) shares memory with its argument', case, {})
        if bool(r1) != bool(r2):
            s.violate('is_hermitian(matrix) is not repeatable', case, {})
        if bool(r1) != want:
            s.violate('is_hermitian(matrix) differs from the entry-wise test |M - M^dagger| < EQ_TOLERANCE', case,
                      {'implementation': bool(r1), 'expected': want})
        exp_h = numpy.conjugate(M0.T)
        if Hd.shape != exp_h.shape or not all(exact(Hd[i, j]) == exact(exp_h[i, j]) for i in range(n) for j in range(n)):
            s.violate('hermitian_conjugated(matrix) is not conj(M).T entry-wise', case,
                      {'result': [to_gq(x) for x in numpy.asarray(Hd).reshape(-1)]})
        if hdt != M0.dtype and name != 'bool_':      # numpy.conjugate(bool array) is int8: numpy's own rule
            s.violate('hermitian_conjugated(matrix) changed the dtype', case, {'dtype': str(hdt)})
        rows.append((case, bool(r1), [to_gq(x) for x in numpy.asarray(Hd).reshape(-1)]))
    reqs = [{'op': 'c02.hermitian_matrix', 'n': c['n'], 'm': c['m'], 'tol': frac_json(tolq)} for c, _, _ in rows]
    for (case, r, hflat), ans in zip(rows, ctx.driver.run(reqs)):
        if ans['model'] != r:
            s.disagree('is_hermitian(matrix)', case, r, ans['model'])
        if [tuple(x) for x in ans['hc']] != [tuple(x) for x in hflat]:
            s.disagree('hermitian_conjugated(matrix)', case, hflat, ans['hc'])
    return s


# ---------------------------------------------------------------- known findings

def classify(v):
    w = v.get('what', '')
    case = v.get('input', {}) or {}
    det = v.get('detail', {}) or {}
    if v.get('stream') == 'is-identity' and w.startswith('is_identity differs'):
        if case.get('stored_zero') or not case.get('normal_form', True):
            return 'F02b'
    if v.get('stream') == 'commutes-with' and w.startswith('commutes_with differs') and case.get('single') \
            and case.get('stored_zero') and det.get('implementation') is False and det.get('spec_commute') is True:
        return 'F02d'
    if v.get('stream') == 'is-hermitian' and w.startswith('is_hermitian differs') and case.get('cls') == 'quad' \
            and det.get('implementation') is False and det.get('spec') is True:
        return 'F02e'
    return None


def probe_known(ctx, k):
    """replay the listed witness on the real code: True while it still fails"""
    of = ctx.of
    try:
        if k['id'] == 'F02b':
            a = of.QubitOperator('X0', 0.0) + of.QubitOperator(())
            return of.utils.operator_utils.is_identity(a) is False \
                or of.utils.operator_utils.is_identity(of.QubitOperator((), 0.0)) is True
        if k['id'] == 'F02d':
            Z = of.MajoranaOperator((0,), 0.0)
            W = of.MajoranaOperator((0, 1))
            return Z.commutes_with(W) is False
        if k['id'] == 'F02e':
            Q = of.QuadOperator('q0 q0 p0', 1j) - of.QuadOperator('q0 p0 q0', 1j)
            return of.utils.operator_utils.is_hermitian(Q) is False
    except Exception:
        return True
    return False


def run(ctx):
    return [stream_isclose(ctx), stream_majorana_eq(ctx), stream_commutes(ctx), stream_predicates(ctx),
            stream_identity(ctx), stream_tensor_eq(ctx), stream_hermitian(ctx), stream_hermitian_io(ctx), stream_hardening(ctx), stream_hermitian_matrix(ctx)]
