"""C08 — tensor representations and conversions.

Correspondence of the real PolynomialTensor / InteractionOperator / QuadraticHamiltonian /
DiagonalCoulombHamiltonian arithmetic, the conversions and general_basis_change with the Lean Model
(OFV.Model.C08), and the Spec oracle: the FermionOperator *denoted* by every representation
(OFV.Spec.C08, evaluated by the driver on the implementation's own arrays) compared as a linear map
on all Fock basis states (`spec.eq`, OFV.Spec.Expr)."""
import copy
import itertools
from fractions import Fraction

import numpy

from common import (Stream, budget, enc_op, enc_term, canon_op_json, to_gq, from_gq, dyadic,
                    rng_for, show)

TRUSTED = [
    'C08: numpy elementwise arithmetic, deepcopy and einsum are modelled as exact arithmetic on nested lists '
    '(inputs are dyadic so IEEE arithmetic is exact); numpy.sqrt(2*hbar) / sqrt(hbar/2) for hbar in {1/2, 2, 8} are exact',
    'C08: numpy.allclose in DiagonalCoulombHamiltonian.__init__ is modelled as exact equality (generated matrices are '
    'exactly symmetric / Hermitian or off by >= 1/8)',
]
ASSUMPTIONS = [
    'argument types (hardening streams): only what the unmodified tree accepts is generated — numpy in-place casting rules for '
    '*= and /= (int arrays only with ints, real arrays not with complex scalars), tensor entries read by '
    'get_fermion_operator must be float64 / complex128 (SymbolicOperator accepts int / float / complex subclasses only), '
    'Python bool tensor constants are excluded (numpy.add / numpy.subtract on two bools are logical operations), operators '
    'with no ladder operator (n_qubits = 0) are excluded from the three scatter conversions',
    'tensor entries, rotation matrices and coefficients are dyadic Gaussian rationals (exact float arithmetic) except the '
    '(3+4i)/5 rotation blocks, which are compared at absolute tolerance 1e-9 and counted as float comparisons',
    'each n_body_tensors[key] has shape (n_qubits,)*len(key); keys contain only 0/1',
]
OPEN_STATEMENTS = [
    'spectrum invariance under rotate_basis by a unitary (composition is proved: basis_change_compose): '
    'proved is basis_change_sound_fock (the rotated tensor denotes, in Module.End over Fock space, the operator with every '
    'ladder operator replaced by the rotated one, any R) and that for unitary R the rotated ladder operators satisfy the CAR '
    'again (rotated_ladder_car_unitary); not proved: that a CAR-preserving substitution is implemented by a unitary on Fock '
    'space (hence equal spectra); '
    'both checked by the Spec oracle (exact) and numpy eigvalsh at 1e-9',
    'get_interaction_operator, get_quadratic_hamiltonian and get_diagonal_coulomb_hamiltonian are proved sound for '
    'ignore_incompatible_terms=False (get_interaction_operator_sound, get_quadratic_hamiltonian_sound, '
    'get_diagonal_coulomb_hamiltonian_sound: scatter loop on normal-ordered input + constructor + normal_ordered of C03 + '
    'CAR of the Spec; lattice coefficients (1/D)Z[i] with tol*D <= 1). The last two hold under per-run exact-regime flags '
    'the driver reports (exact-regime(qh): every pairing term has exactly the conjugate partner; exact-regime(dch): the '
    'two-body coefficients of normal_ordered(A) are real) because the source accepts a discrepancy / drops an imaginary '
    'part below 1e-8; both are also proved for ignore_incompatible_terms=True '
    '(get_diagonal_coulomb_hamiltonian_sound_general / get_quadratic_hamiltonian_sound_general: the result denotes exactly '
    'the terms of normal_ordered(A) of diagonal Coulomb resp. quadratic form); runs whose flag is False are outside the '
    'theorems: correspondence + Spec oracle + round trip only',
    'get_fermion_operator(MajoranaOperator): proved for the generators (majorana_generator_sound); products and sums use '
    'FermionOperator `*` and the pruning `+=` (exact regime) and are covered by the Spec oracle '
    '(get_majorana_operator(FermionOperator) is proved at full strength: get_majorana_operator_sound)',
    'get_quad_operator / get_boson_operator: correspondence + Spec oracle only (hbar in {1/2, 2, 8})',
    'DOCIHamiltonian: Model + correspondence + Spec oracle (documented qubit form, doubly-occupied block, arithmetic); '
    'proved: get_tensors_from_integrals entries, T = t - t^(k<->l) (doci_two_body_tensor) and the kernel-checked witnesses '
    'of findings F08c / F08d; not proved: the closed form of get_projected_integrals_from_doci (loops of assignments), the '
    'block identity <D t|H(tensors/2)|D s> = <t|qubit_operator|s> for all hc, hr1, hr2, and the integrals round trip '
    '(oracle only); real input arrays only (the source writes into float arrays)',
    'tensor_sub_hom holds only when the subtrahend keys are keys of the minuend (finding F08a: tensor_sub_spec states '
    'what the code computes in general, tensor_sub_counterexample is the kernel-checked witness)',
    'elementwise PolynomialTensor * PolynomialTensor has no operator-level meaning: correspondence only',
]

KEYS_ALL = [(), (1, 0), (0, 1), (1, 1), (0, 0), (1, 1, 0, 0), (0, 0, 1, 1), (1, 0, 1, 0), (0, 1, 1, 0)]
KEYS_EXH = [(), (1, 0), (0, 1), (1, 1, 0, 0), (0, 0, 1, 1)]


# ------------------------------------------------------------------ encodings

def enc_tensor(t):
    """numpy array / scalar -> nested list with exact leaves"""
    if isinstance(t, numpy.ndarray) and t.ndim > 0:
        return [enc_tensor(x) for x in t]
    return to_gq(t)


def canon_tensor(j, order):
    if order == 0:
        return from_gq(j)
    return tuple(canon_tensor(x, order - 1) for x in j)


def enc_pt(pt):
    return {'n': int(pt.n_qubits), 'd': [[list(k), enc_tensor(v)] for k, v in pt.n_body_tensors.items()]}


def canon_pt(j):
    return (j['n'], tuple(sorted((tuple(k), canon_tensor(t, len(k))) for k, t in j['d'])))


def tensor_floats(j, order):
    if order == 0:
        a, b = from_gq(j)
        return complex(float(a), float(b))
    return [tensor_floats(x, order - 1) for x in j]


def enc_mat(R):
    return [[to_gq(x) for x in row] for row in R]


def leaf(jop):
    return ['leaf', jop]


def errname(e):
    return type(e).__name__


def small_gq(j, bits=40):
    return max(abs(j[0]).bit_length(), j[1].bit_length(), abs(j[2]).bit_length(), j[3].bit_length()) <= bits


def tensor_small(j, order):
    if order == 0:
        return small_gq(j)
    return all(tensor_small(x, order - 1) for x in j)


# ------------------------------------------------------------------ generators

def rand_c(rng, zero_p=0.25, complex_p=0.4):
    if rng.random() < zero_p:
        return 0.0
    return complex(dyadic(rng, max_num=6, max_pow=2, complex_p=complex_p))


def rand_array(rng, n, order, zero_p=0.25, real=False):
    shape = (n,) * order
    a = numpy.zeros(shape, dtype=float if real else complex)
    for idx in itertools.product(range(n), repeat=order):
        c = rand_c(rng, zero_p, 0.0 if real else 0.4)
        a[idx] = c.real if real else c
    return a


def rand_pt(of, rng, n, keys, zero_p=0.25):
    d = {}
    for k in keys:
        if k == ():
            d[k] = rand_c(rng, 0.2)
        else:
            d[k] = rand_array(rng, n, len(k), zero_p)
    return of.PolynomialTensor(d)


def rand_keys(rng, pool, need_nonconstant=True):
    while True:
        ks = [k for k in pool if rng.random() < 0.45]
        rng.shuffle(ks)
        if not need_nonconstant or any(k != () for k in ks):
            # PolynomialTensor.__init__ looks at the first (or second) key only
            if ks and (ks[0] != () or len(ks) > 1):
                return ks


def rand_scalar(rng, div=False):
    if div:
        base = rng.choice([1, 2, 4, 0.5, 0.25, -1, -2, -0.5, 8])
        r = rng.random()
        if r < 0.25:
            return complex(0, base)
        if r < 0.45:
            return int(base) if float(base).is_integer() else base
        return float(base)
    return dyadic(rng, max_num=4, max_pow=2)


def rand_fermion_term(rng, n, length, conserving=True):
    if conserving:
        acts = [1] * (length // 2) + [0] * (length - length // 2)
        rng.shuffle(acts)
    else:
        acts = [rng.randint(0, 1) for _ in range(length)]
    return tuple((rng.randrange(n), a) for a in acts)


def support(jop):
    m = 0
    for t, _ in jop:
        for i, _a in t:
            m = max(m, i + 1)
    return m


# ------------------------------------------------------------------ oracle plumbing

class Oracle:
    """collects driver requests; answers are dispatched to callbacks after one batch run"""

    def __init__(self, ctx):
        self.ctx = ctx
        self.reqs = []
        self.cbs = []

    def ask(self, req, cb):
        self.reqs.append(req)
        self.cbs.append(cb)

    def flush(self):
        while self.reqs:
            reqs, cbs = self.reqs, self.cbs
            self.reqs, self.cbs = [], []
            for a, cb in zip(self.ctx.driver.run(reqs), cbs):
                cb(a)

    def spec_eq(self, stream, what, case, n, lhs, rhs, alg='fermion', d=0, tag=None):
        def cb(a):
            stream.count('oracle:checked')
            if not a['eq']:
                v = dict(case)
                if tag:
                    v['class'] = tag
                stream.violate(what, v, {'witness_state': a['state'], 'implementation': a['lhs'], 'spec': a['rhs']})
        self.ask({'op': 'spec.eq', 'alg': alg, 'n': n, 'd': d, 'lhs': lhs, 'rhs': rhs}, cb)

    def denote_pt(self, jpt, cb):
        self.ask({'op': 'c08.spec_pt', 'd': jpt['d']}, cb)


def spec_eq_pt(orc, stream, what, case, n, jpt_lhs, rhs_builder, jpts_rhs, tag=None, on_result=None):
    """denote every tensor through the Spec, then compare ⟦lhs⟧ with rhs_builder(leaves of the rhs denotations)"""
    got = {}
    need = 1 + len(jpts_rhs)

    def done():
        lhs = leaf(got[0])
        rhs = rhs_builder([leaf(got[i + 1]) for i in range(len(jpts_rhs))])

        def cb(a):
            stream.count('oracle:checked')
            if on_result is not None:
                on_result(a['eq'])
            if not a['eq']:
                v = dict(case)
                if tag:
                    v['class'] = tag
                stream.violate(what, v, {'witness_state': a['state'], 'implementation': a['lhs'], 'spec': a['rhs']})
        orc.ask({'op': 'spec.eq', 'alg': 'fermion', 'n': n, 'd': 0, 'lhs': lhs, 'rhs': rhs}, cb)

    def mk(i):
        def cb(a):
            got[i] = a
            if len(got) == need:
                done()
        return cb
    orc.denote_pt(jpt_lhs, mk(0))
    for i, j in enumerate(jpts_rhs):
        orc.denote_pt(j, mk(i + 1))


# ------------------------------------------------------------------ stream 1: arithmetic

BIN_OPS = ['add', 'sub', 'iadd', 'isub', 'imulT', 'mulT']
SC_OPS = ['mulS', 'rmulS', 'imulS', 'divS', 'idivS', 'addS', 'subS', 'iaddS', 'isubS', 'rsubS', 'neg']


def impl_arith(op, a, b, c):
    """-> (result, object that must be unchanged besides the in-place target)"""
    if op == 'add':
        return a + b
    if op == 'sub':
        return a - b
    if op == 'iadd':
        a += b
        return a
    if op == 'isub':
        a -= b
        return a
    if op == 'imulT':
        a *= b
        return a
    if op == 'mulT':
        return a * b
    if op == 'mulS':
        return a * c
    if op == 'rmulS':
        return c * a
    if op == 'imulS':
        a *= c
        return a
    if op == 'divS':
        return a / c
    if op == 'idivS':
        a /= c
        return a
    if op == 'addS':
        return a + c
    if op == 'subS':
        return a - c
    if op == 'iaddS':
        a += c
        return a
    if op == 'isubS':
        a -= c
        return a
    if op == 'rsubS':
        return c - a
    if op == 'neg':
        return -a
    raise AssertionError(op)


MODEL_F = {'add': 'iadd', 'sub': 'isub', 'iadd': 'iadd', 'isub': 'isub', 'imulT': 'imulT', 'mulT': 'imulT',
           'mulS': 'imulS', 'rmulS': 'imulS', 'imulS': 'imulS', 'divS': 'idivS', 'idivS': 'idivS',
           'addS': 'iaddS', 'subS': 'isubS', 'iaddS': 'iaddS', 'isubS': 'isubS', 'neg': 'neg'}


def f08a_class(op, ja, jb):
    """the input class of finding F08a: subtraction whose subtrahend has a key the minuend lacks"""
    if op not in ('sub', 'isub') or jb is None:
        return False
    ka = {tuple(k) for k, _ in ja['d']}
    return any(tuple(k) not in ka for k, _ in jb['d'])


def check_arith(ctx, stream, orc, cases):
    """cases: list of (op, a, b or None, c or None) of real objects"""
    reqs = []
    metas = []
    for op, a, b, c in cases:
        ja = enc_pt(a)
        jb = enc_pt(b) if b is not None else None
        case = {'op': op, 'a': ja, 'b': jb, 'c': None if c is None else to_gq(c)}
        stream.case(case)
        stream.count('op:' + op)
        a0, b0 = copy.deepcopy(a), copy.deepcopy(b)
        inplace = op.startswith('i')
        try:
            r = impl_arith(op, a, b, c)
            jr = {'ok': enc_pt(r)}
            if inplace and r is not a:
                stream.violate('in-place %s returned a new object' % op, case, {})
        except (TypeError, ValueError, KeyError, IndexError) as e:
            r = None
            jr = {'error': errname(e)}
        except Exception as e:  # unexpected kind on an admissible input
            stream.violate('unexpected exception %s: %s' % (errname(e), e), case, {})
            continue
        # operands other than the in-place target are unchanged
        if b is not None and (b is not a) and canon_pt(enc_pt(b)) != canon_pt(enc_pt(b0)):
            stream.violate('%s changed its right operand' % op, case, {'after': enc_pt(b)})
        if not inplace and canon_pt(enc_pt(a)) != canon_pt(enc_pt(a0)):
            stream.violate('%s changed its left operand' % op, case, {'after': enc_pt(a)})
        # no array sharing between the result and the operand (F08b, repaired by 3dba0378)
        if r is not None and b is not None and b is not a and op in ('add', 'sub', 'iadd', 'isub'):
            try:
                r *= 2.0
                if canon_pt(enc_pt(b)) != canon_pt(enc_pt(b0)):
                    stream.violate('scaling the result of %s changed the right operand (shared array)' % op, case,
                                   {'after': enc_pt(b)})
            except Exception:
                pass
        if op == 'rsubS':
            mreq = None
        else:
            mreq = {'op': 'c08.arith', 'f': MODEL_F[op], 'a': ja}
            if jb is not None:
                mreq['b'] = jb
            if c is not None:
                cc = c
                mreq['c'] = to_gq(cc)
        metas.append((op, case, ja, jb, c, jr, mreq))
        if mreq is not None:
            reqs.append(mreq)
    answers = iter(ctx.driver.run(reqs))
    for op, case, ja, jb, c, jr, mreq in metas:
        known = f08a_class(op, ja, jb)
        mismatch = None
        if mreq is not None:
            m = next(answers)
            if 'ok' in m and not all(tensor_small(t, len(k)) for k, t in m['ok']['d']):
                stream.discards += 1
                continue
            if ('error' in jr) != ('error' in m) or ('error' in jr and jr['error'] != m['error']):
                mismatch = (jr, m)
            elif 'ok' in jr and canon_pt(jr['ok']) != canon_pt(m['ok']):
                mismatch = (jr, m)
        if 'error' in jr:
            stream.count('error:' + jr['error'])
            if mismatch:
                stream.disagree('error kind of ' + op, case, jr, mismatch[1])
            continue
        # Spec oracle on the implementation's result
        n = ja['n']
        jres = jr['ok']
        builder = None
        rhs_pts = [ja] + ([jb] if jb is not None else [])
        one = leaf([[[], [1, 1, 0, 1]]])
        if op in ('add', 'iadd'):
            builder = lambda L: ['add', L[0], L[1]]
        elif op in ('sub', 'isub'):
            builder = lambda L: ['sub', L[0], L[1]]
        elif op in ('mulS', 'rmulS', 'imulS'):
            builder = lambda L, c=c: ['smul', to_gq(c), L[0]]
        elif op in ('divS', 'idivS'):
            builder = lambda L, c=c: ['smul', to_gq(1 / complex(c)), L[0]]
        elif op in ('addS', 'iaddS'):
            builder = lambda L, c=c: ['add', L[0], ['smul', to_gq(c), one]]
        elif op in ('subS', 'isubS'):
            builder = lambda L, c=c: ['sub', L[0], ['smul', to_gq(c), one]]
        elif op == 'rsubS':
            builder = lambda L, c=c: ['sub', ['smul', to_gq(c), one], L[0]]
        elif op == 'neg':
            builder = lambda L: ['smul', [-1, 1, 0, 1], L[0]]
        if builder is None:
            if mismatch:
                stream.disagree('tensors after ' + op, case, jr, mismatch[1])
            continue
        if known:
            stream.count('class:F08a')

            # in the class of the known finding the implementation is judged by the Spec alone:
            # a repaired tree passes silently, the pinned behaviour is reported as the known finding
            def on_result(ok, mismatch=mismatch, case=case, op=op, jr=jr):
                if mismatch and not ok:
                    stream.disagree('tensors after ' + op, case, jr, mismatch[1])
            spec_eq_pt(orc, stream, '%s does not denote the difference of the operands' % op, case, n, jres, builder,
                       rhs_pts, tag='F08a', on_result=on_result)
        else:
            if mismatch:
                stream.disagree('tensors after ' + op, case, jr, mismatch[1])
            spec_eq_pt(orc, stream, '%s does not denote the Spec result' % op, case, n, jres, builder, rhs_pts)


def stream_arith(ctx):
    of = ctx.of
    st = Stream('tensor-arithmetic',
                'PolynomialTensor / InteractionOperator / QuadraticHamiltonian +, -, +=, -=, scalar * / + -, unary -, '
                'elementwise *: all ordered pairs of key sets over {(),(1,0),(0,1),(1,1,0,0),(0,0,1,1)} (n=1) for + and -, '
                'then seeded random pairs (n<=3, 9 key types incl. mixed-action keys, complex dyadic entries, zeros); '
                'result compared exactly with the Model and, through the Spec denotation, as operators on all Fock states; '
                'operands checked for mutation / shared arrays; distinct = distinct (op, operands)')
    orc = Oracle(ctx)
    rng = rng_for(ctx.seed, 'c08-arith')
    cases = []
    # exhaustive key-set combinations
    subsets = []
    for r in range(1, len(KEYS_EXH) + 1):
        for ks in itertools.combinations(KEYS_EXH, r):
            if any(k != () for k in ks):
                subsets.append(list(ks))
    pairs = [(x, y) for x in subsets for y in subsets]
    full = ctx.tier == 'thorough' or ctx.drift
    if not full:
        keep = [p for p in pairs if len(p[0]) + len(p[1]) <= 3]
        pairs = keep + rng.sample(pairs, 150)
    for ka, kb in pairs:
        for op in ('add', 'sub'):
            ka2 = list(ka)
            kb2 = list(kb)
            # () must not be the only leading key: put it last
            ka2.sort(key=lambda k: k == ())
            kb2.sort(key=lambda k: k == ())
            cases.append((op, rand_pt(of, rng, 1, ka2, 0.0), rand_pt(of, rng, 1, kb2, 0.0), None))
    st.exhaustive = False
    nrand = budget(ctx.tier, 600, 6000)
    if ctx.drift:
        nrand = max(nrand, 1500)
    for i in range(nrand):
        n = rng.choice([1, 2, 2, 2, 3])
        pool = KEYS_ALL if n <= 2 else [k for k in KEYS_ALL if len(k) <= 2] + [(1, 1, 0, 0)]
        r = rng.random()
        if r < 0.6:
            op = rng.choice(BIN_OPS)
            ka = rand_keys(rng, pool)
            kb = rand_keys(rng, pool) if rng.random() < 0.7 else list(ka)
            a = rand_pt(of, rng, n, ka)
            nb = n if rng.random() < 0.95 else n + 1
            b = rand_pt(of, rng, nb, kb)
            kind = rng.random()
            if kind < 0.15 and set(ka) >= {(), (1, 0), (1, 1, 0, 0)}:
                a = of.InteractionOperator(a.n_body_tensors[()], a.n_body_tensors[(1, 0)], a.n_body_tensors[(1, 1, 0, 0)])
            if rng.random() < 0.05:
                b = a  # aliasing
            cases.append((op, a, b, None))
        else:
            op = rng.choice(SC_OPS)
            a = rand_pt(of, rng, n, rand_keys(rng, pool))
            if rng.random() < 0.2:
                one = rand_array(rng, n, 2)
                two = rand_array(rng, n, 4) if n <= 2 else numpy.zeros((n,) * 4, complex)
                a = of.InteractionOperator(rand_c(rng), one, two)
            elif rng.random() < 0.15:
                m = rand_array(rng, n, 2)
                anti = rand_array(rng, n, 2)
                a = of.QuadraticHamiltonian(m + m.conj().T, anti - anti.T, rand_c(rng, 0.2, 0.0).real)
            c = None if op == 'neg' else rand_scalar(rng, div=op in ('divS', 'idivS'))
            cases.append((op, a, None, c))
    check_arith(ctx, st, orc, cases)
    orc.flush()
    return st


# ------------------------------------------------------------------ stream 2: __iter__, __getitem__, get_fermion_operator

def stream_iter(ctx):
    of = ctx.of
    st = Stream('tensor-iter-getitem-to-fermion',
                'random PolynomialTensors (n<=3, up to 4 keys incl. mixed-action keys, about half of the entries zero): '
                '__iter__ (set of yielded terms), __getitem__ on yielded and random (also out-of-range / missing-key) '
                'arguments, get_fermion_operator; Spec: the FermionOperator equals the denotation of the arrays; '
                'distinct = distinct tensors')
    orc = Oracle(ctx)
    rng = rng_for(ctx.seed, 'c08-iter')
    N = budget(ctx.tier, 300, 3000)
    if ctx.drift:
        N = max(N, 800)
    objs = []
    reqs = []
    for i in range(N):
        n = rng.choice([1, 2, 2, 3])
        pool = KEYS_ALL if n <= 2 else [k for k in KEYS_ALL if len(k) <= 2] + [(1, 1, 0, 0), (0, 1, 1, 0)]
        a = rand_pt(of, rng, n, rand_keys(rng, pool), zero_p=rng.choice([0.0, 0.5, 0.8]))
        ja = enc_pt(a)
        # getitem arguments
        args = []
        for _ in range(4):
            k = rng.choice(KEYS_ALL)
            hi = n if rng.random() < 0.85 else n + 1
            args.append([[rng.randrange(hi), x] for x in k])
        objs.append((a, ja, args))
        reqs.append({'op': 'c08.iter', 'a': ja})
        reqs.append({'op': 'c08.to_fermion', 'a': ja})
        for g in args:
            reqs.append({'op': 'c08.getitem', 'a': ja, 'args': g})
    ans = iter(ctx.driver.run(reqs))
    for a, ja, args in objs:
        case = {'tensor': ja}
        st.case(case)
        st.count('n:%d' % ja['n'])
        m_iter = next(ans)
        m_fop = next(ans)
        m_get = [next(ans) for _ in args]
        try:
            terms = list(a)
            vals = [a[t] for t in terms]
            fop = of.get_fermion_operator(a)
        except Exception as e:
            st.violate('unexpected exception %s: %s' % (errname(e), e), case, {})
            continue
        i_iter = sorted((tuple(tuple(f) for f in enc_term('fermion', t)), from_gq(to_gq(v))) for t, v in zip(terms, vals))
        mm = sorted((tuple(tuple(f) for f in t), from_gq(g['ok'])) for t, g in m_iter if 'ok' in g)
        if i_iter != mm or len(mm) != len(m_iter):
            st.disagree('__iter__ / __getitem__ on yielded terms', case, show(i_iter), show(m_iter))
        # every yielded term is a non-zero entry or (), and every non-zero entry is yielded exactly once
        seen = set()
        for t in terms:
            if t in seen:
                st.violate('__iter__ yields a term twice', case, {'term': t})
            seen.add(t)
        nz = set()
        for k, v in a.n_body_tensors.items():
            if k == ():
                nz.add(())
                continue
            for idx in itertools.product(range(a.n_qubits), repeat=len(k)):
                if v[idx] != 0:
                    nz.add(tuple(zip(idx, k)))
        if nz != seen:
            st.violate('__iter__ does not yield exactly the non-zero entries', case,
                       {'missing': sorted(nz - seen), 'extra': sorted(seen - nz)})
        jf = enc_op('fermion', fop.terms)
        if canon_op_json(jf) != canon_op_json(m_fop):
            st.disagree('get_fermion_operator(PolynomialTensor)', case, jf, m_fop)
        orc.denote_pt(ja, (lambda jf, case, n: (lambda den: orc.spec_eq(
            st, 'get_fermion_operator(tensor) does not denote the tensor', case, n, leaf(jf), leaf(den))))(jf, case, ja['n']))
        for g, mg in zip(args, m_get):
            targ = tuple((i, x) for i, x in g)
            try:
                v = a[targ]
                r = {'ok': to_gq(v)}
            except (KeyError, IndexError) as e:
                r = {'error': errname(e)}
            except Exception as e:
                st.violate('unexpected exception in __getitem__ %s: %s' % (errname(e), e), case, {'args': g})
                continue
            st.count('getitem:' + ('ok' if 'ok' in r else r['error']))
            if ('ok' in r) != ('ok' in mg) or ('ok' in r and from_gq(r['ok']) != from_gq(mg['ok'])) or \
                    ('error' in r and r['error'] != mg['error']):
                st.disagree('__getitem__', {'tensor': ja, 'args': g}, r, mg)
            if 'ok' in r:
                key = tuple(x for _, x in g)
                idx = tuple(i for i, _ in g)
                direct = a.n_body_tensors[key][idx] if key else a.n_body_tensors[()]
                if from_gq(to_gq(direct)) != from_gq(r['ok']):
                    st.violate('__getitem__ does not return n_body_tensors[key][index]', {'tensor': ja, 'args': g}, r)
    orc.flush()
    return st


# ------------------------------------------------------------------ stream 3: conversions to tensor classes

def respell(rng, term, coeff):
    """another spelling of coeff*term as a dict term -> coeff: swap one adjacent pair using the CAR"""
    term = list(term)
    if len(term) < 2:
        return {tuple(term): coeff}
    j = rng.randrange(len(term) - 1)
    l, r = term[j], term[j + 1]
    out = {}
    swapped = term[:j] + [r, l] + term[j + 2:]
    out[tuple(swapped)] = -coeff
    if l[0] == r[0] and l[1] != r[1]:
        rest = tuple(term[:j] + term[j + 2:])
        out[rest] = out.get(rest, 0) + coeff
    return out


def build_op(of, rng, pieces, spell_p=0.5):
    """FermionOperator from (term, coeff) pieces, some of them respelled"""
    op = of.FermionOperator()
    for t, c in pieces:
        if c == 0:
            continue
        if rng.random() < spell_p:
            for t2, c2 in respell(rng, t, c).items():
                op += of.FermionOperator(t2, c2)
        else:
            op += of.FermionOperator(t, c)
    return op


def is_normal_ordered(jop):
    for t, _ in jop:
        for (i, a), (j, b) in zip(t, t[1:]):
            if a < b:
                return False
            if a == b and i <= j:
                return False
    return True


def stream_conv(ctx):
    of = ctx.of
    st = Stream('conversions-to-tensors',
                'get_interaction_operator / get_quadratic_hamiltonian / get_diagonal_coulomb_hamiltonian on seeded random '
                'FermionOperators (n<=4 modes, complex dyadic coefficients, non-normal-ordered spellings via the CAR, '
                'admissible and inadmissible terms, n_qubits None / larger / smaller, chemical potential, '
                'ignore_incompatible_terms), DiagonalCoulombHamiltonian constructor and * /; tensors compared exactly with '
                'the Model; Spec: docstring denotation of the result equals the input operator on all Fock states; round trip '
                'get_fermion_operator(convert(A)) == normal_ordered(A); distinct = distinct inputs')
    orc = Oracle(ctx)
    rng = rng_for(ctx.seed, 'c08-conv')
    N = budget(ctx.tier, 300, 3000)
    if ctx.drift:
        N = max(N, 800)
    normal_ordered = of.transforms.normal_ordered

    # ---- interaction operator
    items = []
    for i in range(N):
        n = rng.choice([1, 2, 3, 3, 4])
        pieces = []
        kind = rng.random()
        for _ in range(rng.randint(0, 5)):
            L = rng.choice([0, 2, 2, 4, 4])
            pieces.append((rand_fermion_term(rng, n, L), rand_c(rng, 0.0)))
        if kind < 0.12:
            pieces.append((rand_fermion_term(rng, n, rng.choice([2, 4, 6, 1, 3]), conserving=False), rand_c(rng, 0.0)))
        op = build_op(of, rng, pieces)
        nq = None
        r = rng.random()
        if r < 0.2:
            nq = n + rng.randint(0, 2)
        elif r < 0.25:
            nq = max(0, of.count_qubits(op) - 1)
        items.append((op, nq))
    reqs = [{'op': 'c08.get_io', 'A': enc_op('fermion', op.terms), 'n': nq} for op, nq in items]
    reqs += [{'op': 'c08.normal_ordered', 'A': enc_op('fermion', op.terms)} for op, nq in items]
    ans = ctx.driver.run(reqs)
    for k, (op, nq) in enumerate(items):
        jA = enc_op('fermion', op.terms)
        case = {'f': 'get_interaction_operator', 'A': jA, 'n_qubits': nq}
        st.case(case)
        m = ans[k]
        m_no = ans[len(items) + k]
        try:
            no = normal_ordered(op)
            jno = enc_op('fermion', no.terms)
            if canon_op_json(jno) != canon_op_json(m_no):
                st.disagree('normal_ordered(FermionOperator)', case, jno, m_no)
            if not is_normal_ordered(jno):
                st.violate('normal_ordered result is not normal ordered', case, {'result': jno})
            orc.spec_eq(st, 'normal_ordered(A) does not denote A', case, max(support(jA), 1), leaf(jno), leaf(jA))
        except Exception as e:
            st.violate('unexpected exception in normal_ordered %s: %s' % (errname(e), e), case, {})
            continue
        if of.count_qubits(op) == 0 and not nq:
            # numpy.zeros((0, 0)): n_qubits = 0 tensors, not an admissible use
            st.count('io:skipped-empty')
            continue
        try:
            io = of.get_interaction_operator(op, n_qubits=nq)
            r = {'ok': enc_pt(io)}
        except (of.ops.representations.InteractionOperatorError, ValueError, TypeError) as e:
            r = {'error': errname(e)}
        except Exception as e:
            st.violate('unexpected exception %s: %s' % (errname(e), e), case, {})
            continue
        st.count('io:' + ('ok' if 'ok' in r else r['error']))
        if ('ok' in r) != ('ok' in m) or ('error' in r and r['error'] != m['error']) or \
                ('ok' in r and canon_pt(r['ok']) != canon_pt(m['ok'])):
            st.disagree('get_interaction_operator', case, r, m)
        admissible = all(len(t) in (0, 2, 4) and [a for _, a in t] in ([], [1, 0], [1, 1, 0, 0]) for t, _ in jno)
        if 'error' in r:
            if r['error'] == 'InteractionOperatorError' and admissible:
                st.violate('get_interaction_operator rejects a two-body number-conserving operator', case, r)
            continue
        if not admissible:
            st.violate('get_interaction_operator accepts an operator that is not of two-body number-conserving form',
                       case, r)
            continue
        n = r['ok']['n']
        orc.denote_pt(r['ok'], (lambda case, n, jA: (lambda den: orc.spec_eq(
            st, 'get_interaction_operator(A) does not denote A', case, max(n, 1), leaf(den), leaf(jA))))(case, n, jA))
        try:
            back = of.get_fermion_operator(io)
            if canon_op_json(enc_op('fermion', back.terms)) != canon_op_json(jno):
                st.violate('get_fermion_operator(get_interaction_operator(A)) != normal_ordered(A)', case,
                           {'back': enc_op('fermion', back.terms), 'normal_ordered': jno})
        except Exception as e:
            st.violate('unexpected exception in round trip %s: %s' % (errname(e), e), case, {})

    # ---- quadratic hamiltonian
    items = []
    for i in range(N):
        n = rng.choice([1, 2, 3, 3, 4])
        m = rand_array(rng, n, 2, zero_p=0.4)
        herm = m + m.conj().T
        pieces = []
        kind = rng.random()
        for p in range(n):
            for q in range(n):
                pieces.append((((p, 1), (q, 0)), complex(herm[p, q])))
        if kind < 0.6:
            a = rand_array(rng, n, 2, zero_p=0.5)
            anti = a - a.T
            for p in range(n):
                for q in range(n):
                    if anti[p, q] != 0:
                        pieces.append((((p, 1), (q, 1)), 0.5 * complex(anti[p, q])))
                        pieces.append((((q, 0), (p, 0)), 0.5 * complex(anti[p, q]).conjugate()))
        const = rand_c(rng, 0.3, 0.0).real
        pieces.append(((), const))
        bad = None
        if kind > 0.8:
            bad = rng.choice(['nonherm', 'nonherm2', 'quartic', 'missing'])
            if bad == 'nonherm':
                pieces.append((((rng.randrange(n), 1), (rng.randrange(n), 0)), complex(0, rng.choice([1, 0.5, -2]))))
            elif bad == 'nonherm2':
                p, q = rng.randrange(n), rng.randrange(n)
                pieces.append((((p, 1), (q, 1)), rand_c(rng, 0.0)))
                pieces.append((((q, 0), (p, 0)), rand_c(rng, 0.0)))
            elif bad == 'missing':
                pieces.append((((rng.randrange(n), rng.choice([0, 1])),) * 1 + ((rng.randrange(n), 1),), rand_c(rng, 0.0)))
            else:
                pieces.append((rand_fermion_term(rng, n, 4), rand_c(rng, 0.0)))
        op = build_op(of, rng, pieces)
        mu = rng.choice([0.0, 0.0, 0.5, -1.0, 2.0])
        ignore = rng.random() < 0.3
        nq = None if rng.random() < 0.8 else n + rng.randint(0, 1)
        items.append((op, mu, ignore, nq, bad))
    reqs = [{'op': 'c08.get_qh', 'A': enc_op('fermion', op.terms), 'mu': to_gq(mu), 'n': nq, 'ignore': ignore}
            for op, mu, ignore, nq, bad in items]
    ans = ctx.driver.run(reqs)
    flags = ctx.driver.run([{'op': 'c08.qh_exact', 'A': enc_op('fermion', op.terms)} for op, *_ in items])
    for (op, mu, ignore, nq, bad), m, flag in zip(items, ans, flags):
        if 'ok' in m and not ignore:
            st.count('exact-regime(qh):%s' % flag)
        jA = enc_op('fermion', op.terms)
        case = {'f': 'get_quadratic_hamiltonian', 'A': jA, 'chemical_potential': mu, 'n_qubits': nq,
                'ignore_incompatible_terms': ignore}
        st.case(case)
        if of.count_qubits(op) == 0 and not nq:
            st.count('qh:skipped-empty')
            continue
        try:
            qh = of.get_quadratic_hamiltonian(op, chemical_potential=mu, n_qubits=nq, ignore_incompatible_terms=ignore)
            r = {'ok': enc_pt(qh)}
        except (of.ops.representations.QuadraticHamiltonianError, ValueError, TypeError) as e:
            r = {'error': errname(e)}
        except Exception as e:
            st.violate('unexpected exception %s: %s' % (errname(e), e), case, {})
            continue
        st.count('qh:' + ('ok' if 'ok' in r else r['error']) + (':' + bad if bad else ''))
        if ('ok' in r) != ('ok' in m) or ('error' in r and r['error'] != m['error']) or \
                ('ok' in r and canon_pt(r['ok']) != canon_pt(m['ok'])):
            st.disagree('get_quadratic_hamiltonian', case, r, m)
        if 'error' in r:
            if bad is None and r['error'] == 'QuadraticHamiltonianError':
                st.violate('get_quadratic_hamiltonian rejects a Hermitian quadratic operator', case, r)
            continue
        n = r['ok']['n']
        if from_gq(to_gq(qh.chemical_potential)) != from_gq(to_gq(mu)):
            st.violate('chemical_potential attribute differs from the argument', case, {'got': qh.chemical_potential})
        # docstring denotation: the operator *plus* mu * N is A  <=>  denoteQH(M, Delta, mu, c) = A - mu N ... the
        # conversion keeps A's one-body part as M - mu: so ⟦QH⟧ (with M = hermitian_part) must equal A itself
        quadratic_only = all(len(t) in (0, 2) for t, _ in enc_op('fermion', normal_ordered(op).terms))
        if quadratic_only:
            req = {'op': 'c08.spec_qh', 'n': n, 'M': enc_tensor(qh.hermitian_part), 'D': enc_tensor(qh.antisymmetric_part),
                   'mu': to_gq(qh.chemical_potential), 'c': to_gq(qh.constant)}
            orc.ask(req, (lambda case, n, jA: (lambda den: orc.spec_eq(
                st, 'the docstring denotation of get_quadratic_hamiltonian(A) is not A', case, max(n, 1), leaf(den),
                leaf(jA))))(case, n, jA))
            orc.denote_pt(r['ok'], (lambda case, n, jA: (lambda den: orc.spec_eq(
                st, 'the tensors of get_quadratic_hamiltonian(A) do not denote A', case, max(n, 1), leaf(den),
                leaf(jA))))(case, n, jA))
            try:
                back = of.get_fermion_operator(qh)
                jno = enc_op('fermion', normal_ordered(op).terms)
                if canon_op_json(enc_op('fermion', normal_ordered(back).terms)) != canon_op_json(jno):
                    st.violate('normal_ordered(get_fermion_operator(get_quadratic_hamiltonian(A))) != normal_ordered(A)',
                               case, {'back': enc_op('fermion', back.terms)})
            except Exception as e:
                st.violate('unexpected exception in round trip %s: %s' % (errname(e), e), case, {})
        elif not ignore:
            st.violate('get_quadratic_hamiltonian accepts non-quadratic terms without ignore_incompatible_terms', case, r)

    # ---- diagonal coulomb hamiltonian
    items = []
    for i in range(N):
        n = rng.choice([1, 2, 3, 3, 4])
        m = rand_array(rng, n, 2, zero_p=0.4)
        T = m + m.conj().T
        v = rand_array(rng, n, 2, zero_p=0.3, real=True)
        V = v + v.T
        const = rand_c(rng, 0.3, 0.0).real
        pieces = [((), const)]
        for p in range(n):
            for q in range(n):
                pieces.append((((p, 1), (q, 0)), complex(T[p, q])))
                pieces.append((((p, 1), (p, 0), (q, 1), (q, 0)), float(V[p, q])))
        bad = None
        kind = rng.random()
        if kind > 0.8:
            bad = rng.choice(['nonherm', 'imag', 'offdiag', 'action'])
            if bad == 'nonherm':
                pieces.append((((rng.randrange(n), 1), (rng.randrange(n), 0)), complex(0, rng.choice([1, 0.5, -2]))))
            elif bad == 'imag' and n >= 2:
                p, q = rng.sample(range(n), 2)
                pieces.append((((p, 1), (p, 0), (q, 1), (q, 0)), complex(0, 1)))
            elif bad == 'offdiag':
                pieces.append((rand_fermion_term(rng, n, 4), rand_c(rng, 0.0)))
            else:
                pieces.append((rand_fermion_term(rng, n, rng.choice([1, 2, 3]), conserving=False), rand_c(rng, 0.0)))
        op = build_op(of, rng, pieces)
        ignore = rng.random() < 0.3
        nq = None if rng.random() < 0.8 else n + rng.randint(0, 1)
        items.append((op, ignore, nq, bad, (T, V, const)))
    reqs = [{'op': 'c08.get_dch', 'A': enc_op('fermion', op.terms), 'n': nq, 'ignore': ignore}
            for op, ignore, nq, bad, _ in items]
    ans = ctx.driver.run(reqs)
    flags = ctx.driver.run([{'op': 'c08.dch_exact', 'A': enc_op('fermion', op.terms)} for op, *_ in items])
    follow = []
    for (op, ignore, nq, bad, tvc), m, flag in zip(items, ans, flags):
        if 'ok' in m and not ignore:
            st.count('exact-regime(dch):%s' % flag)
        jA = enc_op('fermion', op.terms)
        case = {'f': 'get_diagonal_coulomb_hamiltonian', 'A': jA, 'n_qubits': nq, 'ignore_incompatible_terms': ignore}
        st.case(case)
        if of.count_qubits(op) == 0 and not nq:
            st.count('dch:skipped-empty')
            continue
        try:
            h = of.get_diagonal_coulomb_hamiltonian(op, n_qubits=nq, ignore_incompatible_terms=ignore)
            r = {'ok': enc_dch(h)}
        except (ValueError, TypeError) as e:
            r = {'error': errname(e)}
        except Exception as e:
            st.violate('unexpected exception %s: %s' % (errname(e), e), case, {})
            continue
        st.count('dch:' + ('ok' if 'ok' in r else r['error']) + (':' + bad if bad else ''))
        if ('ok' in r) != ('ok' in m) or ('error' in r and r['error'] != m['error']) or \
                ('ok' in r and canon_dch(r['ok']) != canon_dch(m['ok'])):
            st.disagree('get_diagonal_coulomb_hamiltonian', case, r, m)
        if 'error' in r:
            if bad is None:
                st.violate('get_diagonal_coulomb_hamiltonian rejects an operator of diagonal Coulomb form', case, r)
            continue
        jno = enc_op('fermion', normal_ordered(op).terms)
        form_ok = all([a for _, a in t] in ([], [1, 0]) or ([a for _, a in t] == [1, 1, 0, 0] and t[0][0] == t[2][0]
                                                           and t[1][0] == t[3][0]) for t, _ in jno)
        if form_ok:
            jh = r['ok']
            req = {'op': 'c08.spec_dch', 'n': jh['n'], 'T': jh['one'], 'V': jh['two'], 'c': jh['c']}
            orc.ask(req, (lambda case, n, jA: (lambda den: orc.spec_eq(
                st, 'the docstring denotation of get_diagonal_coulomb_hamiltonian(A) is not A', case, max(n, 1), leaf(den),
                leaf(jA))))(case, jh['n'], jA))
            follow.append((h, jh, case))
        elif not ignore:
            st.violate('get_diagonal_coulomb_hamiltonian accepts incompatible terms without ignore_incompatible_terms',
                       case, r)
    # get_fermion_operator(DCH), DCH * and /, constructor
    reqs = []
    metas = []
    for h, jh, case in follow:
        reqs.append({'op': 'c08.dch_to_fermion', 'h': jh})
        c = rand_scalar(rng, div=True)
        c = c.real if isinstance(c, complex) and c.imag == 0 else c
        if isinstance(c, complex):
            c = abs(c.imag)
        f = rng.choice(['mul', 'div'])
        reqs.append({'op': 'c08.dch_arith', 'f': f, 'h': jh, 'c': to_gq(c)})
        metas.append((h, jh, case, f, c))
    ans = iter(ctx.driver.run(reqs))
    for h, jh, case, f, c in metas:
        m_f = next(ans)
        m_a = next(ans)
        try:
            fop = of.get_fermion_operator(h)
            jf = enc_op('fermion', fop.terms)
            if canon_op_json(jf) != canon_op_json(m_f):
                st.disagree('get_fermion_operator(DiagonalCoulombHamiltonian)', case, jf, m_f)
            orc.spec_eq(st, 'get_fermion_operator(get_diagonal_coulomb_hamiltonian(A)) does not denote A', case,
                        max(jh['n'], 1), leaf(jf), leaf(case['A']))
            h2 = h * c if f == 'mul' else h / c
            j2 = enc_dch(h2)
            if canon_dch(j2) != canon_dch(m_a):
                st.disagree('DiagonalCoulombHamiltonian %s scalar' % f, dict(case, c=to_gq(c)), j2, m_a)
            if canon_dch(enc_dch(h)) != canon_dch(jh):
                st.violate('DiagonalCoulombHamiltonian %s changed its operand' % f, case, {})
            req = {'op': 'c08.spec_dch', 'n': j2['n'], 'T': j2['one'], 'V': j2['two'], 'c': j2['c']}
            cc = to_gq(c) if f == 'mul' else to_gq(1 / c)
            orc.ask(req, (lambda case, n, cc: (lambda den: orc.spec_eq(
                st, 'DiagonalCoulombHamiltonian scalar * / does not scale the operator', case, max(n, 1), leaf(den),
                ['smul', cc, leaf(case['A'])])))(case, j2['n'], cc))
        except Exception as e:
            st.violate('unexpected exception %s: %s' % (errname(e), e), case, {})
    # constructor with a non-zero two-body diagonal / asymmetric input
    reqs = []
    metas = []
    for i in range(N // 3):
        n = rng.choice([1, 2, 3])
        m = rand_array(rng, n, 2, zero_p=0.3)
        T = m + m.conj().T
        v = rand_array(rng, n, 2, zero_p=0.2, real=True)
        V = v + v.T
        r = rng.random()
        if r < 0.15 and n >= 2:
            V[0, 1] += 1.0
        elif r < 0.3 and n >= 2:
            T[0, 1] += 1j
            T[1, 0] += 1j
        c = rand_c(rng, 0.3, 0.0).real
        jin = {'n': n, 'one': enc_tensor(T), 'two': enc_tensor(V), 'c': to_gq(c)}
        reqs.append(dict(jin, op='c08.mk_dch'))
        metas.append((T, V, c, jin))
    ans = ctx.driver.run(reqs)
    for (T, V, c, jin), m in zip(metas, ans):
        case = {'f': 'DiagonalCoulombHamiltonian', 'args': jin}
        st.case(case)
        try:
            h = of.DiagonalCoulombHamiltonian(T.copy(), V.copy(), c)
            r = {'ok': enc_dch(h)}
        except ValueError as e:
            r = {'error': errname(e)}
        except Exception as e:
            st.violate('unexpected exception %s: %s' % (errname(e), e), case, {})
            continue
        st.count('dch-init:' + ('ok' if 'ok' in r else r['error']))
        if ('ok' in r) != ('ok' in m) or ('ok' in r and canon_dch(r['ok']) != canon_dch(m['ok'])):
            st.disagree('DiagonalCoulombHamiltonian.__init__', case, r, m)
        if 'ok' in r:
            # moving the diagonal of V into T keeps the operator (n_p n_p = n_p)
            a = {'op': 'c08.spec_dch', 'n': jin['n'], 'T': jin['one'], 'V': jin['two'], 'c': jin['c']}
            b = {'op': 'c08.spec_dch', 'n': jin['n'], 'T': r['ok']['one'], 'V': r['ok']['two'], 'c': r['ok']['c']}
            box = {}

            def mk(key, box=box, case=case, n=jin['n']):
                def cb(den):
                    box[key] = den
                    if len(box) == 2:
                        orc.spec_eq(st, 'DiagonalCoulombHamiltonian.__init__ changed the denoted operator', case, n,
                                    leaf(box['b']), leaf(box['a']))
                return cb
            orc.ask(a, mk('a'))
            orc.ask(b, mk('b'))
    orc.flush()
    return st


def enc_dch(h):
    return {'n': int(h.one_body.shape[0]), 'one': enc_tensor(h.one_body), 'two': enc_tensor(h.two_body),
            'c': to_gq(h.constant)}


def canon_dch(j):
    return (j['n'], canon_tensor(j['one'], 2), canon_tensor(j['two'], 2), from_gq(j['c']))


# ------------------------------------------------------------------ stream 4: Majorana / quadrature conversions

def stream_maj(ctx):
    of = ctx.of
    st = Stream('majorana-quad-boson-conversions',
                'get_majorana_operator (FermionOperator, PolynomialTensor, DiagonalCoulombHamiltonian) and '
                'get_fermion_operator(MajoranaOperator) on random operators (<= 4 modes, terms of length <= 5, repeated '
                'indices), get_quad_operator / get_boson_operator (<= 2 modes, degree <= 3, hbar in {1/2, 2, 8}); compared '
                'exactly with the Model; Spec: both sides denote the same map on all Fock states (Majorana vs fermion '
                'semantics; docstring substitution b = (q + i p)/sqrt(2 hbar) evaluated in the quadrature algebra); '
                'round trips; distinct = distinct inputs')
    orc = Oracle(ctx)
    rng = rng_for(ctx.seed, 'c08-maj')
    N = budget(ctx.tier, 300, 3000)
    if ctx.drift:
        N = max(N, 800)

    def eq2(what, case, n, algL, lhs, algR, rhs):
        def cb(a):
            st.count('oracle:checked')
            if not a['eq']:
                st.violate(what, case, {'witness_state': a['state'], 'implementation': a['lhs'], 'spec': a['rhs']})
        orc.ask({'op': 'c08.spec_eq2', 'algL': algL, 'algR': algR, 'n': n, 'lhs': lhs, 'rhs': rhs}, cb)

    # fermion -> majorana
    items = []
    for i in range(N):
        n = rng.choice([1, 2, 3, 4])
        op = of.FermionOperator()
        for _ in range(rng.randint(0, 4)):
            L = rng.choice([0, 1, 2, 2, 3, 4, 5])
            op += of.FermionOperator(rand_fermion_term(rng, n, L, conserving=False), rand_c(rng, 0.0))
        items.append((n, op))
    ans = ctx.driver.run([{'op': 'c08.fermion_to_maj', 'A': enc_op('fermion', op.terms)} for _, op in items])
    for (n, op), m in zip(items, ans):
        jA = enc_op('fermion', op.terms)
        case = {'f': 'get_majorana_operator', 'A': jA}
        st.case(case)
        try:
            mo = of.get_majorana_operator(op)
        except Exception as e:
            st.violate('unexpected exception %s: %s' % (errname(e), e), case, {})
            continue
        jm = enc_op('majorana', mo.terms)
        if canon_op_json(jm) != canon_op_json(m):
            st.disagree('get_majorana_operator(FermionOperator)', case, jm, m)
        eq2('get_majorana_operator(A) does not denote A', case, n, 'majorana', leaf(jm), 'fermion', leaf(jA))
        try:
            back = of.get_fermion_operator(mo)
            orc.spec_eq(st, 'get_fermion_operator(get_majorana_operator(A)) does not denote A', case, n,
                        leaf(enc_op('fermion', back.terms)), leaf(jA))
        except Exception as e:
            st.violate('unexpected exception in round trip %s: %s' % (errname(e), e), case, {})
    # majorana -> fermion
    items = []
    for i in range(N):
        n = rng.choice([1, 2, 3, 4])
        mo = of.MajoranaOperator()
        for _ in range(rng.randint(0, 4)):
            L = rng.choice([0, 1, 2, 2, 3, 4, 5])
            mo += of.MajoranaOperator(tuple(rng.randrange(2 * n) for _ in range(L)), rand_c(rng, 0.0))
        items.append((n, mo))
    ans = ctx.driver.run([{'op': 'c08.maj_to_fermion', 'M': enc_op('majorana', mo.terms)} for _, mo in items])
    for (n, mo), m in zip(items, ans):
        jM = enc_op('majorana', mo.terms)
        case = {'f': 'get_fermion_operator', 'M': jM}
        st.case(case)
        try:
            fo = of.get_fermion_operator(mo)
        except Exception as e:
            st.violate('unexpected exception %s: %s' % (errname(e), e), case, {})
            continue
        jf = enc_op('fermion', fo.terms)
        if canon_op_json(jf) != canon_op_json(m):
            st.disagree('get_fermion_operator(MajoranaOperator)', case, jf, m)
        eq2('get_fermion_operator(M) does not denote M', case, n, 'fermion', leaf(jf), 'majorana', leaf(jM))
    # tensors -> majorana
    for i in range(N // 4):
        n = rng.choice([1, 2])
        a = rand_pt(of, rng, n, rand_keys(rng, KEYS_ALL[:6]))
        ja = enc_pt(a)
        case = {'f': 'get_majorana_operator', 'tensor': ja}
        st.case(case)
        try:
            mo = of.get_majorana_operator(a)
            jm = enc_op('majorana', mo.terms)
            orc.denote_pt(ja, (lambda case, n, jm: (lambda den: eq2(
                'get_majorana_operator(tensor) does not denote the tensor', case, n, 'majorana', leaf(jm), 'fermion',
                leaf(den))))(case, n, jm))
        except Exception as e:
            st.violate('unexpected exception %s: %s' % (errname(e), e), case, {})

    # quadrature <-> boson
    HB = [(0.5, 1.0, 0.5), (2.0, 0.5, 1.0), (8.0, 0.25, 2.0)]     # hbar, 1/sqrt(2 hbar), sqrt(hbar/2)
    items = []
    for i in range(N):
        hbar, r, r2 = rng.choice(HB)
        n = rng.choice([1, 2])
        kind = rng.choice(['boson', 'quad'])
        C = of.BosonOperator if kind == 'boson' else of.QuadOperator
        acts = [0, 1] if kind == 'boson' else ['q', 'p']
        op = C()
        for _ in range(rng.randint(0, 3)):
            L = rng.choice([0, 1, 1, 2, 2, 3])
            op += C(tuple((rng.randrange(n), rng.choice(acts)) for _ in range(L)), rand_c(rng, 0.0))
        items.append((kind, hbar, r, r2, n, op))
    reqs = []
    for kind, hbar, r, r2, n, op in items:
        if kind == 'boson':
            reqs.append({'op': 'c08.get_quad', 'r': to_gq(r), 'B': enc_op('boson', op.terms)})
        else:
            reqs.append({'op': 'c08.get_boson', 'r': to_gq(r2), 'Q': enc_op('quad', op.terms)})
    ans = ctx.driver.run(reqs)
    for (kind, hbar, r, r2, n, op), m in zip(items, ans):
        jop = enc_op(kind, op.terms)
        case = {'f': 'get_quad_operator' if kind == 'boson' else 'get_boson_operator', 'operator': jop, 'hbar': hbar}
        st.case(case)
        st.count('hbar:%s' % hbar)
        qalg = ['quad', to_gq(hbar)]
        try:
            if kind == 'boson':
                res = of.get_quad_operator(op, hbar=hbar)
                jr = enc_op('quad', res.terms)
                back = of.get_boson_operator(res, hbar=hbar)
                jback = enc_op('boson', back.terms)
            else:
                res = of.get_boson_operator(op, hbar=hbar)
                jr = enc_op('boson', res.terms)
                back = of.get_quad_operator(res, hbar=hbar)
                jback = enc_op('quad', back.terms)
        except Exception as e:
            st.violate('unexpected exception %s: %s' % (errname(e), e), case, {})
            continue
        if canon_op_json(jr) != canon_op_json(m):
            st.disagree(case['f'], case, jr, m)
        # docstring substitution, evaluated independently by the Spec expression evaluator
        rhs = None
        for t, c in jop:
            e = leaf([[[], c]])
            for i_, a_ in t:
                if kind == 'boson':
                    # b = r (q + i p), b† = r (q - i p)
                    sg = [0, 1, 1, 1] if a_ == 0 else [0, 1, -1, 1]
                    g = ['smul', to_gq(r), ['add', leaf([[[[i_, 0]], [1, 1, 0, 1]]]), ['smul', sg, leaf([[[[i_, 1]], [1, 1, 0, 1]]])]]]
                else:
                    # q = r' (b + b†), p = -i r' (b - b†)
                    if a_ == 0:
                        g = ['smul', to_gq(r2), ['add', leaf([[[[i_, 0]], [1, 1, 0, 1]]]), leaf([[[[i_, 1]], [1, 1, 0, 1]]])]]
                    else:
                        g = ['smul', to_gq(complex(0, -r2)), ['sub', leaf([[[[i_, 0]], [1, 1, 0, 1]]]), leaf([[[[i_, 1]], [1, 1, 0, 1]]])]]
                e = ['mul', e, g]
            rhs = e if rhs is None else ['add', rhs, e]
        if rhs is None:
            rhs = leaf([])
        deg = max([len(t) for t, _ in jop] + [0])
        if kind == 'boson':
            orc.spec_eq(st, 'get_quad_operator(B) is not B with b = (q + i p)/sqrt(2 hbar) substituted', case, n,
                        leaf(jr), rhs, alg=qalg, d=3)
            orc.spec_eq(st, 'get_boson_operator(get_quad_operator(B)) does not denote B', case, n, leaf(jback), leaf(jop),
                        alg='boson', d=3)
        else:
            orc.spec_eq(st, 'get_boson_operator(Q) is not Q with q, p expressed by b, b†', case, n, leaf(jr), rhs,
                        alg='boson', d=3)
            orc.spec_eq(st, 'get_quad_operator(get_boson_operator(Q)) does not denote Q', case, n, leaf(jback), leaf(jop),
                        alg=qalg, d=3)
    orc.flush()
    return st


# ------------------------------------------------------------------ stream 5: general_basis_change / rotate_basis

def signed_perm(rng, n, cplx=True):
    p = list(range(n))
    rng.shuffle(p)
    R = numpy.zeros((n, n), complex)
    for i, j in enumerate(p):
        R[i, j] = rng.choice([1, -1, 1j, -1j]) if cplx else rng.choice([1, -1])
    return R


def pyth_unitary(rng, n):
    """unitary with Gaussian-rational entries: signed permutation times (3,4,5) Givens blocks; also the exact value"""
    R = signed_perm(rng, n)
    exact = [[(Fraction(int(R[i, j].real)), Fraction(int(R[i, j].imag))) for j in range(n)] for i in range(n)]
    if n >= 2:
        for _ in range(rng.randint(1, 2)):
            i, j = rng.sample(range(n), 2)
            c, s = rng.choice([(Fraction(3, 5), Fraction(4, 5)), (Fraction(4, 5), Fraction(3, 5)),
                               (Fraction(5, 13), Fraction(12, 13))])
            ph = rng.choice([(Fraction(1), Fraction(0)), (Fraction(0), Fraction(1)), (Fraction(3, 5), Fraction(4, 5))])
            # G = [[c, -s conj(ph)], [s ph, c]] on rows/cols i, j
            G = {(i, i): (c, Fraction(0)), (j, j): (c, Fraction(0)),
                 (i, j): (-s * ph[0], s * ph[1]), (j, i): (s * ph[0], s * ph[1])}
            new = [[exact[a][b] for b in range(n)] for a in range(n)]
            for a in (i, j):
                for b in range(n):
                    accr, acci = Fraction(0), Fraction(0)
                    for k in (i, j):
                        g = G[(a, k)]
                        x = exact[k][b]
                        accr += g[0] * x[0] - g[1] * x[1]
                        acci += g[0] * x[1] + g[1] * x[0]
                    new[a][b] = (accr, acci)
            exact = new
    Rf = numpy.array([[complex(float(x[0]), float(x[1])) for x in row] for row in exact])
    return Rf, [[[x[0].numerator, x[0].denominator, x[1].numerator, x[1].denominator] for x in row] for row in exact]


def hermitian_pt(of, rng, n):
    m = rand_array(rng, n, 2, 0.2)
    one = m + m.conj().T
    d = {(): rand_c(rng, 0.3, 0.0).real, (1, 0): one}
    if n <= 3:
        t = rand_array(rng, n, 4, 0.6)
        d[(1, 1, 0, 0)] = t + numpy.conj(numpy.transpose(t, (3, 2, 1, 0)))
    return of.PolynomialTensor(d)


def stream_rot(ctx):
    of = ctx.of
    from openfermion.ops.representations.polynomial_tensor import general_basis_change
    st = Stream('basis-change',
                'general_basis_change / rotate_basis on random tensors (n<=3, keys of order 1..4 with mixed actions, complex '
                'dyadic entries) with (a) arbitrary dyadic matrices, (b) signed / complex permutation matrices, (c) unitaries '
                'built from (3,4,5)/(5,12,13) Givens blocks with phases (float, compared at 1e-9 with the exact Model value), '
                'spin-orbital enlargement kron(R, 1_2); Spec: the rotated tensor denotes the operator with substituted ladder '
                'operators (exact, classes a/b), successive rotations compose (R1 then R2 = R1 @ R2), spectra of Hermitian '
                'tensors are invariant (eigvalsh of the Spec dense matrices at 1e-9, class c); distinct = distinct (tensor, R)')
    orc = Oracle(ctx)
    rng = rng_for(ctx.seed, 'c08-rot')
    N = budget(ctx.tier, 300, 3000)
    if ctx.drift:
        N = max(N, 800)
    KEYS = [(0,), (1,), (1, 0), (0, 1), (1, 1), (0, 0), (1, 0, 1), (0, 1, 1), (1, 1, 0, 0), (0, 0, 1, 1), (1, 0, 0, 1),
            (0, 1, 0, 1)]
    items = []
    reqs = []
    for i in range(N):
        n = rng.choice([1, 2, 2, 3])
        key = rng.choice(KEYS if n <= 2 else KEYS[:10])
        cls = rng.choice(['a', 'b', 'b', 'c'])
        spin = n == 2 and len(key) <= 2 and rng.random() < 0.2
        nt = 2 * n if spin else n
        T = rand_array(rng, nt, len(key), rng.choice([0.0, 0.5, 0.8]))
        if cls == 'a':
            R = numpy.array([[rand_c(rng, 0.2) for _ in range(n)] for _ in range(n)])
            jR = enc_mat(R)
        elif cls == 'b':
            R = signed_perm(rng, n, cplx=rng.random() < 0.7)
            jR = enc_mat(R)
        else:
            R, jR = pyth_unitary(rng, n)
        items.append((n, nt, key, cls, T, R, jR))
        reqs.append({'op': 'c08.basis_change', 't': enc_tensor(T), 'key': list(key), 'R': jR})
    ans = ctx.driver.run(reqs)
    for (n, nt, key, cls, T, R, jR), m in zip(items, ans):
        jT = enc_tensor(T)
        case = {'f': 'general_basis_change', 'tensor': jT, 'key': list(key), 'R': jR, 'class': 'rot-' + cls}
        st.case(case)
        st.count('class:' + cls)
        st.count('order:%d' % len(key))
        try:
            T2 = general_basis_change(T.copy(), R.copy(), key)
        except Exception as e:
            st.violate('unexpected exception %s: %s' % (errname(e), e), case, {})
            continue
        if cls in ('a', 'b'):
            j2 = enc_tensor(T2)
            if canon_tensor(j2, len(key)) != canon_tensor(m, len(key)):
                st.disagree('general_basis_change', case, j2, m)
        else:
            mf = numpy.array(tensor_floats(m, len(key)))
            st.float_comparisons += 1
            if T2.shape != mf.shape or numpy.max(numpy.abs(T2 - mf)) > 1e-9:
                st.disagree('general_basis_change (1e-9)', case, enc_tensor(T2), m)
        if cls in ('a', 'b') and (nt <= 3 or (nt == 4 and len(key) <= 2)):
            # substitution oracle: Σ_idx T[idx] Π_k (rotated ladder operator idx_k, key_k)
            Rbig = numpy.kron(R, numpy.eye(2)) if nt == 2 * n else R
            jRbig = enc_mat(Rbig)
            lad = {}
            need = [(a, x) for a in range(nt) for x in set(key)]

            def build(lad=lad, T=T, key=key, nt=nt, case=case, T2=T2):
                rhs = None
                for idx in itertools.product(range(nt), repeat=len(key)):
                    if T[idx] == 0:
                        continue
                    e = leaf([[[], to_gq(T[idx])]])
                    for a, x in zip(idx, key):
                        e = ['mul', e, leaf(lad[(a, x)])]
                    rhs = e if rhs is None else ['add', rhs, e]
                if rhs is None:
                    rhs = leaf([])
                jd = {'d': [[list(key), enc_tensor(T2)]]}
                orc.denote_pt(jd, lambda den: orc.spec_eq(
                    st, 'the rotated tensor does not denote the operator with substituted ladder operators', case, nt,
                    leaf(den), rhs))

            def mk(k, lad=lad, need=need, build=build):
                def cb(a):
                    lad[k] = a
                    if len(lad) == len(need):
                        build()
                return cb
            for (a, x) in need:
                orc.ask({'op': 'c08.spec_ladder', 'R': jRbig, 'a': a, 'act': x}, mk((a, x)))
    orc.flush()

    # rotate_basis on whole tensors: composition, constant untouched, spectra
    items = []
    reqs = []
    for i in range(N // 2):
        n = rng.choice([1, 2, 2, 3])
        cls = rng.choice(['b', 'b', 'c'])
        a = hermitian_pt(of, rng, n)
        if cls == 'b':
            R1 = signed_perm(rng, n)
            R2 = signed_perm(rng, n)
            jR1 = enc_mat(R1)
        else:
            R1, jR1 = pyth_unitary(rng, n)
            R2, _ = pyth_unitary(rng, n)
        items.append((n, cls, a, R1, R2, jR1))
        reqs.append({'op': 'c08.rotate', 'a': enc_pt(a), 'R': jR1})
    ans = ctx.driver.run(reqs)
    dense_reqs = []
    for (n, cls, a, R1, R2, jR1), m in zip(items, ans):
        ja = enc_pt(a)
        case = {'f': 'rotate_basis', 'tensor': ja, 'R': jR1, 'class': 'rot-' + cls}
        st.case(case)
        st.count('rotate:' + cls)
        try:
            b = copy.deepcopy(a)
            b.rotate_basis(R1)
            jb = enc_pt(b)
            c2 = copy.deepcopy(b)
            c2.rotate_basis(R2)
            c12 = copy.deepcopy(a)
            c12.rotate_basis(R1 @ R2)
        except Exception as e:
            st.violate('unexpected exception %s: %s' % (errname(e), e), case, {})
            continue
        if cls == 'b':
            if canon_pt(jb) != canon_pt(m):
                st.disagree('rotate_basis', case, jb, m)
            if canon_pt(enc_pt(c2)) != canon_pt(enc_pt(c12)):
                st.violate('rotate_basis(R1) then rotate_basis(R2) differs from rotate_basis(R1 @ R2)', case,
                           {'R2': enc_mat(R2), 'sequential': enc_pt(c2), 'composed': enc_pt(c12)})
        else:
            for k, t in m['d']:
                impl = b.n_body_tensors[tuple(k)]
                mf = numpy.array(tensor_floats(t, len(k)))
                st.float_comparisons += 1
                if numpy.max(numpy.abs(numpy.asarray(impl) - mf)) > 1e-9:
                    st.disagree('rotate_basis (1e-9)', case, jb, m)
                    break
            for k in c2.n_body_tensors:
                st.float_comparisons += 1
                if numpy.max(numpy.abs(numpy.asarray(c2.n_body_tensors[k]) - numpy.asarray(c12.n_body_tensors[k]))) > 1e-9:
                    st.violate('rotate_basis(R1) then rotate_basis(R2) differs from rotate_basis(R1 @ R2) (1e-9)', case,
                               {'R2': enc_mat(R2), 'key': list(k)})
                    break
        # spectra: dense matrices from the Spec for the implementation's arrays
        if n <= 3:
            dense_reqs.append((case, n, ja, jb))
    box = []
    for case, n, ja, jb in dense_reqs:
        def go(case=case, n=n, ja=ja, jb=jb):
            got = {}

            def fin():
                A = numpy.array([[complex(*[float(x) for x in from_gq(c)]) for c in row] for row in got['da']])
                B = numpy.array([[complex(*[float(x) for x in from_gq(c)]) for c in row] for row in got['db']])
                st.float_comparisons += 1
                st.count('spectra:checked')
                if numpy.max(numpy.abs(A - A.conj().T)) > 1e-9 or numpy.max(numpy.abs(B - B.conj().T)) > 1e-9:
                    st.violate('a Hermitian tensor is no longer Hermitian after rotate_basis by a unitary', case, {})
                    return
                ea, eb = numpy.linalg.eigvalsh(A), numpy.linalg.eigvalsh(B)
                if numpy.max(numpy.abs(ea - eb)) > 1e-9:
                    st.violate('rotate_basis by a unitary changed the spectrum', case,
                               {'before': ea.tolist(), 'after': eb.tolist()})

            def dn(key):
                def cb(den):
                    def cb2(mat):
                        got['d' + key] = mat
                        if len(got) == 2:
                            fin()
                    orc.ask({'op': 'c08.spec_dense', 'n': n, 'A': den}, cb2)
                return cb
            orc.denote_pt(ja, dn('a'))
            orc.denote_pt(jb, dn('b'))
        go()
    orc.flush()
    return st



# ------------------------------------------------------------------ stream: DOCIHamiltonian

def enc_doci(d):
    return {'n': int(d.n_qubits), 'c': to_gq(d.constant), 'hc': enc_tensor(numpy.asarray(d.hc)),
            'hr1': enc_tensor(numpy.asarray(d.hr1)), 'hr2': enc_tensor(numpy.asarray(d.hr2))}


def canon_doci(j):
    return (j['n'], from_gq(j['c']), canon_tensor(j['hc'], 1), canon_tensor(j['hr1'], 2), canon_tensor(j['hr2'], 2))


def drop_zero(jop):
    return [[t, c] for t, c in jop if from_gq(c) != (0, 0)]


def rand_real(rng, shape, zero_p=0.2):
    a = numpy.zeros(shape)
    for idx in itertools.product(*[range(k) for k in shape]):
        if rng.random() >= zero_p:
            a[idx] = rng.randint(-8, 8) / 4
    return a


def rand_doci(of, rng, n, symmetric):
    hc = rand_real(rng, (n,))
    a = rand_real(rng, (n, n))
    b = rand_real(rng, (n, n))
    if symmetric:
        hr1 = a + a.T
        numpy.fill_diagonal(hr1, 0.0)
        hr2 = b + b.T
    else:
        hr1, hr2 = a, b
    return of.DOCIHamiltonian(float(rng.randint(-4, 4)) / 2, hc, hr1, hr2)


def halve_two_body(jpt):
    out = []
    for k, t in jpt['d']:
        if len(k) == 4:
            def h(x, depth):
                if depth == 0:
                    a, b = from_gq(x)
                    return to_gq((a / 2, b / 2))
                return [h(y, depth - 1) for y in x]
            out.append([k, h(t, 4)])
        else:
            out.append([k, t])
    return {'n': jpt['n'], 'd': out}


def settle_tensor_mismatch(orc, st, case, n, jT, mT):
    """the tensors differ from the Model's (which mirrors finding F08c): silent when they denote the
    operator the Model's tensors denote with the two-body part halved (a tree on which F08c was repaired)"""
    got = {}

    def mk(key):
        def cb(den):
            got[key] = den
            if len(got) == 2:
                def cb2(a):
                    st.count('doci:tensor-mismatch-' + ('repaired' if a['eq'] else 'disagree'))
                    if not a['eq']:
                        st.disagree('DOCIHamiltonian.n_body_tensors', case, jT, mT)
                orc.ask({'op': 'spec.eq', 'alg': 'fermion', 'n': 2 * n, 'd': 0, 'lhs': leaf(got['impl']),
                         'rhs': leaf(got['model'])}, cb2)
        return cb
    orc.denote_pt(jT, mk('impl'))
    orc.denote_pt(halve_two_body(mT), mk('model'))


def stream_doci(ctx):
    of = ctx.of
    from openfermion.ops.representations.doci_hamiltonian import (get_doci_from_integrals,
                                                                  get_projected_integrals_from_doci)
    st = Stream('doci-hamiltonian',
                'DOCIHamiltonian(constant, hc, hr1, hr2) on 1..3 spatial orbitals with real dyadic arrays (symmetric hr1 / hr2 '
                'with zero hr1 diagonal, and arbitrary ones): n_body_tensors, get_projected_integrals, __getitem__ (valid and '
                'invalid arguments), qubit_operator, += -= *= /=, get_doci_from_integrals, from_integrals compared exactly '
                'with the Model; Spec: qubit_operator equals the documented hard-core-boson form (spec.eq), the fermion '
                'operator denoted by the tensors restricted to the doubly-occupied states equals qubit_operator, '
                '__getitem__ returns the stored tensor entry, arithmetic acts on qubit_operator; distinct = distinct inputs')
    orc = Oracle(ctx)
    rng = rng_for(ctx.seed, 'c08-doci')
    N = budget(ctx.tier, 60, 600)
    if ctx.drift:
        N = max(N, 200)
    items, reqs = [], []
    for i in range(N):
        n = rng.choice([1, 2, 2, 3]) if i % 6 else rng.choice([1, 2])
        sym = rng.random() < 0.7
        d = rand_doci(of, rng, n, sym)
        jd = enc_doci(d)
        args = []
        for _ in range(6):
            L = rng.choice([0, 2, 4, 4, 4, 1, 3])
            r = rng.random()
            if L == 4 and r < 0.35:
                i_, j_ = rng.randrange(2 * n), rng.randrange(2 * n)
                a_ = [[i_, 1], [j_, 1], [j_, 0], [i_, 0]]
            elif L == 4 and r < 0.7:
                p_, q_ = rng.randrange(n), rng.randrange(n)
                x = [2 * p_, 2 * p_ + 1]
                y = [2 * q_, 2 * q_ + 1]
                rng.shuffle(x)
                rng.shuffle(y)
                a_ = [[x[0], 1], [x[1], 1], [y[0], 0], [y[1], 0]]
            elif L == 2 and r < 0.6:
                i_ = rng.randrange(2 * n)
                a_ = [[i_, 1], [i_, 0]]
            else:
                a_ = [[rng.randrange(2 * n + 1), rng.choice([1, 0]) if rng.random() < 0.3 else (1 if k < L / 2 else 0)]
                      for k in range(L)]
            args.append(a_)
        items.append((n, sym, d, jd, args))
        reqs.append(dict(jd, op='c08.doci_tensors'))
        reqs.append(dict(jd, op='c08.doci_projected'))
        reqs.append(dict(jd, op='c08.doci_qubit'))
        for a_ in args:
            reqs.append(dict(jd, op='c08.doci_getitem', args=a_))
    ans = iter(ctx.driver.run(reqs))
    for n, sym, d, jd, args in items:
        m_t, m_p, m_q = next(ans), next(ans), next(ans)
        m_g = [next(ans) for _ in args]
        case = {'f': 'DOCIHamiltonian', 'doci': jd, 'symmetric': sym}
        st.case(case)
        st.count('n=%d,%s' % (n, 'symmetric' if sym else 'arbitrary'))
        try:
            T = d.n_body_tensors
            jT = {'n': 2 * n, 'd': [[list(k), enc_tensor(v)] for k, v in T.items()]}
            one_p, two_p = d.get_projected_integrals()
            qop = d.qubit_operator
            jq = drop_zero(enc_op('qubit', qop.terms))
        except Exception as e:
            st.violate('unexpected exception %s: %s' % (errname(e), e), case, {})
            continue
        mT = {'n': 2 * n, 'd': m_t['d']}
        tensors_agree = canon_pt(jT) == canon_pt(mT)
        if canon_tensor(enc_tensor(one_p), 2) != canon_tensor(m_p['one'], 2) or \
                canon_tensor(enc_tensor(two_p), 4) != canon_tensor(m_p['two'], 4):
            st.disagree('get_projected_integrals_from_doci', case, 'arrays differ', 'arrays differ')
        if canon_op_json(jq) != canon_op_json(drop_zero(m_q)):
            st.disagree('DOCIHamiltonian.qubit_operator', case, jq, m_q)
        # __getitem__
        for a_, mg in zip(args, m_g):
            targ = tuple((i_, x_) for i_, x_ in a_)
            try:
                r = {'ok': to_gq(d[targ])}
            except IndexError as e:
                r = {'error': 'IndexError'}
            except Exception as e:
                st.violate('__getitem__ raised %s: %s' % (errname(e), e), dict(case, args=a_), {})
                continue
            st.count('getitem:' + ('ok' if 'ok' in r else 'IndexError'))
            if ('ok' in r) != ('ok' in mg) or ('ok' in r and from_gq(r['ok']) != from_gq(mg['ok'])):
                st.disagree('DOCIHamiltonian.__getitem__', dict(case, args=a_), r, mg)
            if 'ok' in r and len(a_) in (2, 4):
                key = tuple(x_ for _, x_ in a_)
                idx = tuple(i_ for i_, _ in a_)
                stored = T[key][idx]
                if from_gq(to_gq(stored)) != from_gq(r['ok']):
                    st.violate('DOCIHamiltonian.__getitem__ does not return n_body_tensors[key][index]',
                               dict(case, args=a_, **{'class': 'F08d'}), {'getitem': r['ok'], 'stored': to_gq(stored)})
        # documented qubit form (symmetric arrays): c + sum hc_p N_p + sum_{p,q} hr2_pq N_p N_q + sum_{p<q} hr1_pq/2 (XX + YY)
        if sym:
            one = leaf([[[], [1, 1, 0, 1]]])

            def N_(p):
                return ['smul', [1, 2, 0, 1], ['sub', one, leaf([[[[p, 3]], [1, 1, 0, 1]]])]]
            rhs = ['smul', to_gq(d.constant), one]
            for p in range(n):
                if d.hc[p] != 0:
                    rhs = ['add', rhs, ['smul', to_gq(d.hc[p]), N_(p)]]
                for q in range(n):
                    if d.hr2[p, q] != 0:
                        rhs = ['add', rhs, ['smul', to_gq(d.hr2[p, q]), ['mul', N_(p), N_(q)]]]
                    if p < q and d.hr1[p, q] != 0:
                        xy = ['add', leaf([[[[p, 1], [q, 1]], [1, 1, 0, 1]]]), leaf([[[[p, 2], [q, 2]], [1, 1, 0, 1]]])]
                        rhs = ['add', rhs, ['smul', to_gq(d.hr1[p, q] / 2), xy]]
            orc.spec_eq(st, 'qubit_operator is not the documented hard-core-boson Hamiltonian', case, n, leaf(jq), rhs,
                        alg='qubit')
            # the tensors denote a fermion operator whose doubly-occupied block is qubit_operator
            if n <= 2 or rng.random() < 0.25:
                got = {}

                def fin(got=got, case=case, tensors_agree=tensors_agree, jT=jT, mT=mT):
                    if got['full']['eq']:
                        st.count('doci-block:tensors-denote-the-operator')
                        return
                    if got['half']['eq']:
                        st.count('class:F08c')
                        st.violate('the fermion operator denoted by DOCIHamiltonian.n_body_tensors, restricted to the '
                                   'doubly-occupied states, is not qubit_operator (its two-body tensor is twice too large)',
                                   dict(case, **{'class': 'F08c'}), {'witness': got['full']})
                        if not tensors_agree:
                            st.disagree('DOCIHamiltonian.n_body_tensors', case, jT, mT)
                    else:
                        st.violate('DOCIHamiltonian.n_body_tensors is related to qubit_operator neither directly nor with '
                                   'the two-body tensor halved', case, {'full': got['full'], 'half': got['half']})

                def ask(key, jpt, got=got, fin=fin, n=n, jq=jq):
                    def cb(den):
                        def cb2(a):
                            got[key] = a
                            if len(got) == 2:
                                fin()
                        orc.ask({'op': 'c08.spec_doci_block', 'n': n, 'A': den, 'B': jq}, cb2)
                    orc.denote_pt(jpt, cb)
                ask('full', jT)
                ask('half', halve_two_body(jT))
            elif not tensors_agree:
                settle_tensor_mismatch(orc, st, case, n, jT, mT)
        elif not tensors_agree:
            settle_tensor_mismatch(orc, st, case, n, jT, mT)
        # integrals round trip (symmetric arrays): get_doci_from_integrals inverts get_projected_integrals_from_doci
        if sym:
            try:
                hc2, hr12, hr22 = get_doci_from_integrals(one_p, two_p)
                if canon_tensor(enc_tensor(hc2), 1) != canon_tensor(jd['hc'], 1) or \
                        canon_tensor(enc_tensor(hr12), 2) != canon_tensor(jd['hr1'], 2) or \
                        canon_tensor(enc_tensor(hr22), 2) != canon_tensor(jd['hr2'], 2):
                    st.violate('get_doci_from_integrals(get_projected_integrals_from_doci(hc, hr1, hr2)) != (hc, hr1, hr2)',
                               case, {'hc': enc_tensor(hc2), 'hr1': enc_tensor(hr12), 'hr2': enc_tensor(hr22)})
            except Exception as e:
                st.violate('integrals round trip raised %s: %s' % (errname(e), e), case, {})
    orc.flush()
    # arithmetic and get_doci_from_integrals
    reqs, metas = [], []
    for i in range(N):
        n = rng.choice([1, 2, 3])
        a = rand_doci(of, rng, n, rng.random() < 0.5)
        f = rng.choice(['iadd', 'isub', 'imulS', 'idivS', 'from_integrals'])
        if f in ('iadd', 'isub'):
            b = rand_doci(of, rng, n if rng.random() < 0.9 else n + 1, rng.random() < 0.5)
            reqs.append({'op': 'c08.doci_arith', 'f': f, 'a': enc_doci(a), 'b': enc_doci(b)})
            metas.append((f, a, b, None))
        elif f in ('imulS', 'idivS'):
            c = rng.choice([2, 0.5, -2.0, 4, -0.25])
            reqs.append({'op': 'c08.doci_arith', 'f': f, 'a': enc_doci(a), 'c': to_gq(c)})
            metas.append((f, a, None, c))
        else:
            one = rand_real(rng, (n, n))
            two = rand_real(rng, (n, n, n, n), 0.4)
            reqs.append({'op': 'c08.doci_from_integrals', 'n': n, 'one': enc_tensor(one), 'two': enc_tensor(two)})
            metas.append((f, None, (one, two), None))
    ans = ctx.driver.run(reqs)
    for (f, a, b, c), m in zip(metas, ans):
        if f == 'from_integrals':
            one, two = b
            case = {'f': 'get_doci_from_integrals', 'one': enc_tensor(one), 'two': enc_tensor(two)}
            st.case(case)
            try:
                hc, hr1, hr2 = get_doci_from_integrals(one, two)
                dd = of.DOCIHamiltonian.from_integrals(1.5, one, two)
            except Exception as e:
                st.violate('get_doci_from_integrals raised %s: %s' % (errname(e), e), case, {})
                continue
            ok = (canon_tensor(enc_tensor(hc), 1) == canon_tensor(m['hc'], 1)
                  and canon_tensor(enc_tensor(hr1), 2) == canon_tensor(m['hr1'], 2)
                  and canon_tensor(enc_tensor(hr2), 2) == canon_tensor(m['hr2'], 2))
            if not ok:
                st.disagree('get_doci_from_integrals', case, {'hc': enc_tensor(hc), 'hr1': enc_tensor(hr1), 'hr2': enc_tensor(hr2)}, m)
            if canon_tensor(enc_tensor(numpy.asarray(dd.hc)), 1) != canon_tensor(enc_tensor(hc), 1) or dd.constant != 1.5:
                st.violate('DOCIHamiltonian.from_integrals differs from get_doci_from_integrals', case, {})
            continue
        case = {'f': 'DOCIHamiltonian ' + f, 'a': enc_doci(a), 'b': None if b is None else enc_doci(b), 'c': c}
        st.case(case)
        st.count('arith:' + f)
        qa = drop_zero(enc_op('qubit', a.qubit_operator.terms))
        qb = None if b is None else drop_zero(enc_op('qubit', b.qubit_operator.terms))
        b0 = None if b is None else canon_doci(enc_doci(b))
        try:
            r0 = a
            if f == 'iadd':
                a += b
            elif f == 'isub':
                a -= b
            elif f == 'imulS':
                a *= c
            else:
                a /= c
            r = {'ok': enc_doci(a)}
            if a is not r0:
                st.violate('in-place DOCIHamiltonian arithmetic returned a new object', case, {})
        except TypeError:
            r = {'error': 'TypeError'}
        except Exception as e:
            st.violate('DOCIHamiltonian arithmetic raised %s: %s' % (errname(e), e), case, {})
            continue
        if ('ok' in r) != ('ok' in m) or ('ok' in r and canon_doci(r['ok']) != canon_doci(m['ok'])):
            st.disagree('DOCIHamiltonian ' + f, case, r, m)
        if b is not None and canon_doci(enc_doci(b)) != b0:
            st.violate('DOCIHamiltonian %s changed its right operand' % f, case, {})
        if 'ok' in r:
            qr = drop_zero(enc_op('qubit', a.qubit_operator.terms))
            nq = r['ok']['n']
            if f == 'iadd':
                rhs = ['add', leaf(qa), leaf(qb)]
            elif f == 'isub':
                rhs = ['sub', leaf(qa), leaf(qb)]
            elif f == 'imulS':
                rhs = ['smul', to_gq(c), leaf(qa)]
            else:
                rhs = ['smul', to_gq(1 / c), leaf(qa)]
            orc.spec_eq(st, 'DOCIHamiltonian %s does not act on qubit_operator accordingly' % f, case, nq, leaf(qr), rhs,
                        alg='qubit')
    orc.flush()
    return st

# ------------------------------------------------------------------ entry points

# ------------------------------------------------------------------ stream 10: read -> modify -> read histories

def scale_pt(jpt, k):
    """every tensor of an encoded PolynomialTensor times the integer / dyadic factor k"""
    k = Fraction(k)

    def h(x, depth):
        if depth == 0:
            a, b = from_gq(x)
            return to_gq((a * k, b * k))
        return [h(y, depth - 1) for y in x]
    return {'n': jpt['n'], 'd': [[key, h(t, len(key))] for key, t in jpt['d']]}


def enc_nbt(nn, obj):
    return {'n': nn, 'd': [[list(k), enc_tensor(v)] for k, v in obj.n_body_tensors.items()]}


def pt_agrees(jT, mT):
    """equal to the Model's tensors, or to them with the two-body part halved (tree with F08c repaired)"""
    c = canon_pt(jT)
    return c == canon_pt(mT) or c == canon_pt(halve_two_body(mT))


def stream_histories(ctx):
    of = ctx.of
    import copy
    st = Stream('object-histories',
                'read -> modify -> read-again sequences on ONE object without re-construction: a DOCIHamiltonian (1..3 '
                'spatial orbitals, real dyadic arrays) is first read through its n_body_tensors-derived views (==, unary -, '
                'str / iteration, PolynomialTensor(d.n_body_tensors), InteractionOperator from them, projected integrals, '
                'qubit_operator), then its constant is changed without touching hc / hr1 / hr2 (d + s, d - s, d += s, d -= s, '
                'd.constant = c), an entry of hc / hr1 / hr2 is edited in place, d is combined with / scaled by another operand, '
                'or an object built from d.n_body_tensors is modified in place (*=, item assignment, rotate_basis); after every '
                'step the views are read again and compared exactly with the Model evaluated on an independently tracked '
                '(constant, hc, hr1, hr2), the stored arrays with the tracked ones, and operands other than the in-place target '
                'with their snapshots; the same pattern on PolynomialTensor / InteractionOperator with tracked arrays; '
                'distinct = distinct histories')
    rng = rng_for(ctx.seed, 'c08-histories')
    N = budget(ctx.tier, 70, 500)
    if ctx.drift:
        N = max(N, 110)
    READS = ['tensors', 'neg', 'eq', 'str', 'cast', 'io', 'projected', 'qubit', 'iter']
    NBT_READS = ['tensors', 'neg', 'eq', 'cast', 'io', 'str']
    MODS = ['add_s', 'sub_s', 'iadd_s', 'isub_s', 'set_const', 'edit_hc', 'edit_hr1', 'edit_hr2', 'imul', 'idiv',
            'iadd_d', 'isub_d', 'cast_imul', 'cast_setitem', 'cast_rotate', 'mul_s']

    def dy():
        return rng.randint(-8, 8) / 4

    def enc_state(n, stt):
        return {'n': n, 'c': to_gq(stt[0]), 'hc': enc_tensor(stt[1]), 'hr1': enc_tensor(stt[2]), 'hr2': enc_tensor(stt[3])}

    plans, reqs = [], []
    for i in range(N):
        n = rng.choice([1, 2, 2, 3])
        sym = rng.random() < 0.6
        d0 = rand_doci(of, rng, n, sym)
        state = [float(d0.constant), numpy.array(d0.hc, dtype=float), numpy.array(d0.hr1, dtype=float),
                 numpy.array(d0.hr2, dtype=float)]
        steps = []
        L = rng.randint(4, 7)
        # every history: read, modify, read(n_body_tensors-based), ...
        kinds = []
        for k in range(L):
            kinds.append(('read', rng.choice(READS)))
            kinds.append(('mod', rng.choice(MODS)))
            kinds.append(('read', rng.choice(NBT_READS)))
        cur = [state[0], state[1].copy(), state[2].copy(), state[3].copy()]
        for what, kind in kinds:
            par = None
            new_state = None
            if what == 'mod':
                if kind in ('add_s', 'sub_s', 'iadd_s', 'isub_s', 'set_const'):
                    par = dy() or 1.5
                elif kind == 'mul_s':
                    par = rng.choice([2.0, -1.0, 0.5])
                elif kind in ('imul', 'idiv'):
                    par = rng.choice([2.0, -1.0, 0.5, 4.0])
                elif kind == 'edit_hc':
                    par = (rng.randrange(n), dy())
                elif kind in ('edit_hr1', 'edit_hr2'):
                    par = (rng.randrange(n), rng.randrange(n), dy())
                elif kind in ('iadd_d', 'isub_d'):
                    o = rand_doci(of, rng, n, sym)
                    par = [float(o.constant), numpy.array(o.hc, dtype=float), numpy.array(o.hr1, dtype=float),
                           numpy.array(o.hr2, dtype=float)]
                elif kind == 'cast_imul':
                    par = rng.choice([3, -2, 0.5])
                elif kind == 'cast_setitem':
                    a, b = rng.randrange(2 * n), rng.randrange(2 * n)
                    par = (((a, 1), (b, 0)), dy() or 2.0)
                elif kind == 'cast_rotate':
                    perm = list(range(2 * n))
                    rng.shuffle(perm)
                    par = perm
                # the tracked value after the step
                c_, hc_, h1_, h2_ = cur[0], cur[1].copy(), cur[2].copy(), cur[3].copy()
                if kind == 'add_s':
                    new_state = [c_ + par, hc_, h1_, h2_]
                elif kind == 'sub_s':
                    new_state = [c_ - par, hc_, h1_, h2_]
                elif kind == 'mul_s':
                    new_state = [c_ * par, hc_ * par, h1_ * par, h2_ * par]
                elif kind == 'iadd_s':
                    cur = [c_ + par, hc_, h1_, h2_]
                elif kind == 'isub_s':
                    cur = [c_ - par, hc_, h1_, h2_]
                elif kind == 'set_const':
                    cur = [par, hc_, h1_, h2_]
                elif kind == 'edit_hc':
                    hc_[par[0]] = par[1]
                    cur = [c_, hc_, h1_, h2_]
                elif kind == 'edit_hr1':
                    h1_[par[0], par[1]] = par[2]
                    cur = [c_, hc_, h1_, h2_]
                elif kind == 'edit_hr2':
                    h2_[par[0], par[1]] = par[2]
                    cur = [c_, hc_, h1_, h2_]
                elif kind == 'imul':
                    cur = [c_ * par, hc_ * par, h1_ * par, h2_ * par]
                elif kind == 'idiv':
                    cur = [c_ / par, hc_ / par, h1_ / par, h2_ / par]
                elif kind == 'iadd_d':
                    cur = [c_ + par[0], hc_ + par[1], h1_ + par[2], h2_ + par[3]]
                elif kind == 'isub_d':
                    cur = [c_ - par[0], hc_ - par[1], h1_ - par[2], h2_ - par[3]]
            jcur = enc_state(n, cur)
            idx = {'tensors': len(reqs)}
            reqs.append(dict(jcur, op='c08.doci_tensors'))
            if what == 'read' and kind == 'projected':
                idx['projected'] = len(reqs)
                reqs.append(dict(jcur, op='c08.doci_projected'))
            if what == 'read' and kind == 'qubit':
                idx['qubit'] = len(reqs)
                reqs.append(dict(jcur, op='c08.doci_qubit'))
            if new_state is not None:
                idx['new'] = len(reqs)
                reqs.append(dict(enc_state(n, new_state), op='c08.doci_tensors'))
            steps.append((what, kind, par, [cur[0], cur[1].copy(), cur[2].copy(), cur[3].copy()], jcur, idx))
        plans.append((n, sym, state, steps))
    ans = ctx.driver.run(reqs)

    for n, sym, state, steps in plans:
        d = of.DOCIHamiltonian(state[0], state[1].copy(), state[2].copy(), state[3].copy())
        hist = []
        case = {'f': 'DOCIHamiltonian history', 'n': n, 'start': enc_state(n, state), 'history': hist}
        st.case(case)
        st.count('history:n=%d,len=%d' % (n, len(steps)))
        ok = True
        for what, kind, par, cur, jcur, idx in steps:
            if not ok:
                break
            hist.append([what, kind, par if not isinstance(par, list) or kind == 'cast_rotate' else 'doci'])
            mT = {'n': 2 * n, 'd': ans[idx['tensors']]['d']}
            st.count('%s:%s' % (what, kind))
            try:
                if what == 'mod':
                    if kind in ('add_s', 'sub_s', 'mul_s'):
                        r = d + par if kind == 'add_s' else (d - par if kind == 'sub_s' else d * par)
                        mN = {'n': 2 * n, 'd': ans[idx['new']]['d']}
                        if not pt_agrees(enc_nbt(2 * n, r), mN):
                            ok = False
                            st.violate('the result of d %s s does not denote the new value after an earlier read of d'
                                       % {'add_s': '+', 'sub_s': '-', 'mul_s': '*'}[kind], case,
                                       {'result': enc_nbt(2 * n, r), 'model': mN})
                    elif kind == 'iadd_s':
                        d += par
                    elif kind == 'isub_s':
                        d -= par
                    elif kind == 'set_const':
                        d.constant = par
                    elif kind == 'edit_hc':
                        d.hc[par[0]] = par[1]
                    elif kind == 'edit_hr1':
                        d.hr1[par[0], par[1]] = par[2]
                    elif kind == 'edit_hr2':
                        d.hr2[par[0], par[1]] = par[2]
                    elif kind == 'imul':
                        d *= par
                    elif kind == 'idiv':
                        d /= par
                    elif kind in ('iadd_d', 'isub_d'):
                        o = of.DOCIHamiltonian(par[0], par[1].copy(), par[2].copy(), par[3].copy())
                        snap = canon_doci(enc_doci(o))
                        if kind == 'iadd_d':
                            d += o
                        else:
                            d -= o
                        if canon_doci(enc_doci(o)) != snap:
                            ok = False
                            st.violate('the right operand of %s was modified' % kind, case, {})
                    else:
                        T0 = d.n_body_tensors
                        cast = of.PolynomialTensor(T0) if rng.random() < 0.5 else \
                            of.InteractionOperator(T0[()], T0[(1, 0)], T0[(1, 1, 0, 0)])
                        if kind == 'cast_imul':
                            cast *= par
                            if not pt_agrees(enc_nbt(2 * n, cast), scale_pt(mT, par)):
                                ok = False
                                st.violate('a tensor built from d.n_body_tensors, scaled in place, is not the scaled tensor',
                                           case, {'cast': enc_nbt(2 * n, cast)})
                        elif kind == 'cast_setitem':
                            cast[par[0]] = par[1]
                        else:
                            R = numpy.zeros((2 * n, 2 * n))
                            for a_, b_ in enumerate(par):
                                R[a_, b_] = 1.0
                            cast.rotate_basis(R)
                else:
                    if kind == 'tensors':
                        if not pt_agrees(enc_nbt(2 * n, d), mT):
                            ok = False
                            st.violate('n_body_tensors does not reflect the current (constant, hc, hr1, hr2)', case,
                                       {'tensors': enc_nbt(2 * n, d), 'model': mT})
                    elif kind == 'neg':
                        if not pt_agrees(enc_nbt(2 * n, -d), scale_pt(mT, -1)):
                            ok = False
                            st.violate('-d does not reflect the current (constant, hc, hr1, hr2)', case,
                                       {'neg': enc_nbt(2 * n, -d), 'model': mT})
                    elif kind == 'eq':
                        same = of.DOCIHamiltonian(cur[0], cur[1].copy(), cur[2].copy(), cur[3].copy())
                        other = of.DOCIHamiltonian(cur[0] + 1.0, cur[1].copy(), cur[2].copy(), cur[3].copy())
                        if not (d == same) or (d != same) or (d == other) or not (d != other):
                            ok = False
                            st.violate('== / != do not reflect the current (constant, hc, hr1, hr2)', case,
                                       {'eq_same': bool(d == same), 'eq_other_constant': bool(d == other)})
                    elif kind in ('str', 'iter'):
                        keys = list(d)
                        try:
                            text = str(d)
                        except IndexError:
                            # __str__ goes through __getitem__, which refuses the non-DOCI entries of the tensors
                            st.count('str:IndexError')
                            text = ''
                        first = text.split('\n')[0] if text else ''
                        if text and cur[0] != 0 and (not first.startswith('()') or float(first.split()[-1]) != cur[0]):
                            ok = False
                            st.violate('str(d) does not show the current constant', case, {'first_line': first})
                        if cur[0] != 0 and () not in keys:
                            ok = False
                            st.violate('iteration over d does not yield the constant term', case, {})
                    elif kind == 'cast':
                        if not pt_agrees(enc_nbt(2 * n, of.PolynomialTensor(d.n_body_tensors)), mT):
                            ok = False
                            st.violate('PolynomialTensor(d.n_body_tensors) does not reflect the current value', case,
                                       {'model': mT})
                    elif kind == 'io':
                        T0 = d.n_body_tensors
                        io = of.InteractionOperator(T0[()], T0[(1, 0)], T0[(1, 1, 0, 0)])
                        if not pt_agrees(enc_nbt(2 * n, io), mT):
                            ok = False
                            st.violate('InteractionOperator from d.n_body_tensors does not reflect the current value', case,
                                       {'model': mT})
                    elif kind == 'projected':
                        one_p, two_p = d.get_projected_integrals()
                        m_p = ans[idx['projected']]
                        if canon_tensor(enc_tensor(one_p), 2) != canon_tensor(m_p['one'], 2) or \
                                canon_tensor(enc_tensor(two_p), 4) != canon_tensor(m_p['two'], 4):
                            ok = False
                            st.violate('get_projected_integrals does not reflect the current (hc, hr1, hr2)', case, {})
                    elif kind == 'qubit':
                        jq = drop_zero(enc_op('qubit', d.qubit_operator.terms))
                        if canon_op_json(jq) != canon_op_json(drop_zero(ans[idx['qubit']])):
                            ok = False
                            st.violate('qubit_operator does not reflect the current (constant, hc, hr1, hr2)', case,
                                       {'qubit_operator': jq})
                # the object itself: stored arrays and the denoted tensors after EVERY step
                if ok and canon_doci(enc_doci(d)) != canon_doci(jcur):
                    ok = False
                    st.violate('the stored (constant, hc, hr1, hr2) differ from the tracked value after %s:%s' % (what, kind),
                               case, {'stored': enc_doci(d), 'tracked': jcur})
                if ok and what == 'mod' and not pt_agrees(enc_nbt(2 * n, d), mT):
                    ok = False
                    st.violate('after %s the n_body_tensors of d do not denote its current value' % kind, case,
                               {'tensors': enc_nbt(2 * n, d), 'model': mT})
            except Exception as e:
                ok = False
                st.violate('unexpected exception %s: %s in a history' % (errname(e), e), case, {})

    # the same pattern on PolynomialTensor / InteractionOperator with tracked arrays
    for i in range(N):
        n = rng.choice([1, 2, 2])
        cls = rng.choice(['PolynomialTensor', 'InteractionOperator'])
        tr = {(): float(dy()), (1, 0): rand_real(rng, (n, n)), (1, 1, 0, 0): rand_real(rng, (n,) * 4)}

        def build(t):
            if cls == 'PolynomialTensor':
                return of.PolynomialTensor({k: (v.copy() if isinstance(v, numpy.ndarray) else v) for k, v in t.items()})
            return of.InteractionOperator(t[()], t[(1, 0)].copy(), t[(1, 1, 0, 0)].copy())

        def same_as(obj, t, factor=1.0):
            T = obj.n_body_tensors
            return set(T) == set(t) and all(numpy.array_equal(numpy.asarray(T[k]), numpy.asarray(t[k]) * factor) for k in t)
        obj = build(tr)
        hist = []
        case = {'f': cls + ' history', 'n': n, 'history': hist}
        st.case(case)
        st.count('history:' + cls)
        try:
            for k in range(rng.randint(3, 5)):
                rd = rng.choice(['neg', 'eq', 'str', 'copy'])
                hist.append(['read', rd])
                if rd == 'neg' and not same_as(-obj, tr, -1.0):
                    st.violate('-t does not reflect the current tensors', case, {})
                    break
                if rd == 'eq' and (not (obj == build(tr)) or (obj != build(tr))):
                    st.violate('== does not reflect the current tensors', case, {})
                    break
                if rd == 'str':
                    str(obj)
                if rd == 'copy':
                    cp = copy.deepcopy(obj)
                md = rng.choice(['const', 'setitem', 'imul', 'edit', 'iadd', 'rotate_copy'])
                hist.append(['mod', md])
                if md == 'const':
                    c = dy()
                    obj.constant = c
                    tr[()] = c
                elif md == 'setitem':
                    a, b, v = rng.randrange(n), rng.randrange(n), dy()
                    obj[((a, 1), (b, 0))] = v
                    tr[(1, 0)][a, b] = v
                elif md == 'imul':
                    f = rng.choice([2.0, -1.0, 0.5])
                    obj *= f
                    tr = {k2: v2 * f for k2, v2 in tr.items()}
                elif md == 'edit':
                    a, b, v = rng.randrange(n), rng.randrange(n), dy()
                    obj.n_body_tensors[(1, 0)][a, b] = v
                    tr[(1, 0)][a, b] = v
                elif md == 'iadd':
                    o_t = {(): float(dy()), (1, 0): rand_real(rng, (n, n)), (1, 1, 0, 0): rand_real(rng, (n,) * 4)}
                    o = build(o_t)
                    obj += o
                    tr = {k2: tr[k2] + o_t[k2] for k2 in tr}
                    if not same_as(o, o_t):
                        st.violate('the right operand of += was modified', case, {})
                        break
                else:
                    cp = copy.deepcopy(obj)
                    cp *= 3.0
                    cp.rotate_basis(numpy.eye(n)[::-1])
                if not same_as(obj, tr):
                    st.violate('after %s the tensors differ from the tracked arrays' % md, case, {})
                    break
                if not same_as(-obj, tr, -1.0) or not (obj == build(tr)):
                    st.violate('after %s unary - / == do not reflect the current tensors' % md, case, {})
                    break
        except Exception as e:
            st.violate('unexpected exception %s: %s in a history' % (errname(e), e), case, {})
    return st



def run(ctx):
    return [stream_arith(ctx), stream_iter(ctx), stream_conv(ctx), stream_maj(ctx), stream_rot(ctx),
            stream_types(ctx), stream_state(ctx), stream_bands(ctx), stream_doci(ctx), stream_histories(ctx)]


def classify(v):
    """F08a: `a - b` / `a -= b` where b has a key that a lacks (the subtrahend's tensor is stored un-negated)"""
    inp = v.get('input', {})
    if inp.get('class') == 'F08a' and inp.get('op') in ('sub', 'isub') and f08a_class(inp['op'], inp['a'], inp['b']):
        return 'F08a'
    if inp.get('class') in ('F08c', 'F08d') and inp.get('f') == 'DOCIHamiltonian':
        return inp['class']
    return None


def probe_known(ctx, k):
    if k['id'] == 'F08c':
        of = ctx.of
        d = of.DOCIHamiltonian(0.0, numpy.zeros(2), numpy.array([[0.0, 1.0], [1.0, 0.0]]), numpy.zeros((2, 2)))
        jT = {'n': 4, 'd': [[list(kk), enc_tensor(v)] for kk, v in d.n_body_tensors.items()]}
        jq = drop_zero(enc_op('qubit', d.qubit_operator.terms))
        den = ctx.driver.one({'op': 'c08.spec_pt', 'd': jT['d']})
        return not ctx.driver.one({'op': 'c08.spec_doci_block', 'n': 2, 'A': den, 'B': jq})['eq']
    if k['id'] == 'F08d':
        of = ctx.of
        d = of.DOCIHamiltonian(0.0, numpy.zeros(2), numpy.array([[0.0, 2.0], [2.0, 0.0]]), numpy.zeros((2, 2)))
        t = ((0, 1), (1, 1), (2, 0), (3, 0))
        return complex(d[t]) != complex(d.n_body_tensors[(1, 1, 0, 0)][0, 1, 2, 3])
    if k['id'] != 'F08a':
        return False
    of = ctx.of
    a = of.PolynomialTensor({(1, 0): numpy.array([[1.0]])})
    b = of.PolynomialTensor({(0, 1): numpy.array([[1.0]])})
    r = a - b
    # a - b must denote a†a - a a†: the (0,1) tensor of the result must be -1
    return complex(r.n_body_tensors[(0, 1)][0, 0]) != -1.0


# ====================================================================== hardening streams
# (T) argument types / containers, (S) state and aliasing, (B) bands / sizes, (A) asymmetry

DTYPES = [numpy.int32, numpy.int64, numpy.float32, numpy.float64, numpy.complex64, numpy.complex128]
ACCEPTED_COEFF_DTYPES = (numpy.dtype('float64'), numpy.dtype('complex128'))   # subclasses of float / complex


def typed_values(rng, shape, dtype, zero_p=0.2, imag_only_p=0.15):
    """random array of the given dtype with exactly representable (dyadic / integer) values"""
    kind = numpy.dtype(dtype).kind
    a = numpy.zeros(shape, dtype=complex)
    for idx in itertools.product(*[range(s) for s in shape]):
        if rng.random() < zero_p:
            continue
        if kind == 'i':
            a[idx] = rng.randint(-5, 5)
        elif kind == 'f':
            a[idx] = rng.randint(-12, 12) / 4
        else:
            if rng.random() < imag_only_p:
                a[idx] = complex(0, rng.randint(-8, 8) / 4)       # purely imaginary entry
            else:
                a[idx] = complex(rng.randint(-8, 8) / 4, rng.randint(-8, 8) / 4)
    return a


def cast(a, dtype, rng):
    kind = numpy.dtype(dtype).kind
    b = (a.real if kind in 'if' else a).astype(dtype)
    if rng.random() < 0.3:
        b = numpy.asfortranarray(b)
    return b


def typed_array(rng, n, order, dtype, zero_p=0.2):
    return cast(typed_values(rng, (n,) * order, dtype, zero_p), dtype, rng)


def typed_scalar(rng, allow_complex=True, allow_bool=True):
    r = rng.random()
    v = rng.randint(-6, 6) / 4
    if r < 0.15:
        return int(rng.randint(-3, 3))
    if r < 0.22 and allow_bool:
        # (numpy.add / numpy.subtract on two Python bools are logical operations: not offered as tensor constants)
        return bool(rng.randint(0, 1))
    if r < 0.45:
        return float(v)
    if r < 0.6:
        return numpy.float64(v)
    if allow_complex and r < 0.8:
        return complex(v, rng.randint(-6, 6) / 4)
    if allow_complex and r < 0.9:
        return numpy.complex128(complex(0, rng.randint(1, 6) / 4))      # purely imaginary
    return float(v)


def arrays_of(obj):
    """all numpy arrays reachable from a tensor-like object / operator (for aliasing checks)"""
    out = []
    if isinstance(obj, numpy.ndarray):
        out.append(obj)
    elif hasattr(obj, 'n_body_tensors') and obj.__class__.__name__ != 'DOCIHamiltonian':
        out += [v for v in obj.n_body_tensors.values() if isinstance(v, numpy.ndarray)]
    elif hasattr(obj, 'one_body') and hasattr(obj, 'two_body'):
        out += [obj.one_body, obj.two_body]
    return out


def share(x, y):
    return any(numpy.shares_memory(a, b) for a in arrays_of(x) for b in arrays_of(y))


def snap_any(x):
    """value snapshot of an argument"""
    if isinstance(x, numpy.ndarray):
        return ('arr', str(x.dtype), canon_tensor(enc_tensor(x), x.ndim))
    if hasattr(x, 'terms'):
        return ('op', tuple(sorted((str(k), from_gq(to_gq(v))) for k, v in x.terms.items())))
    if hasattr(x, 'n_body_tensors'):
        return ('pt', canon_pt(enc_pt(x)))
    if hasattr(x, 'one_body'):
        return ('dch', canon_dch(enc_dch(x)))
    if isinstance(x, (list, tuple)):
        return tuple(snap_any(y) for y in x)
    return ('v', repr(x))


def mutate_result(rng, r):
    """in-place modification of every mutable value a call returned"""
    for a in arrays_of(r):
        if a.size and a.flags.writeable:
            try:
                a += 1
            except Exception:
                pass
    if hasattr(r, 'terms'):
        for k in list(r.terms):
            r.terms[k] = r.terms[k] * 3 + 1
        r.terms[((0, 1),) if r.__class__.__name__ != 'MajoranaOperator' else (0, 1, 2)] = 7.0
    if hasattr(r, 'n_body_tensors') and r.__class__.__name__ != 'DOCIHamiltonian':
        try:
            r.n_body_tensors[()] = 12345.0
        except Exception:
            pass
    if hasattr(r, 'constant') and hasattr(r, 'one_body'):
        r.constant = 12345.0


def twice(st, rng, name, fn, args, case):
    """(S) call fn twice around an in-place modification of the first result"""
    s0 = snap_any(args)
    try:
        r1 = fn(*args)
        c1 = snap_any(r1)
        if snap_any(args) != s0:
            st.violate('%s modified its arguments' % name, case, {})
            return None
        if any(share(r1, a) for a in args):
            st.violate('%s returns arrays that share memory with its arguments' % name, case, {})
        mutate_result(rng, r1)
        if snap_any(args) != s0:
            st.violate('modifying the result of %s changed its arguments (aliasing)' % name, case, {})
            return None
        r2 = fn(*args)
        if snap_any(r2) != c1:
            st.violate('%s: a second call after modifying the first result differs from the first result' % name, case,
                       {'first': show(c1, 600), 'second': show(snap_any(r2), 600)})
        if r1 is r2 or share(r1, r2):
            st.violate('%s: results of two calls share state' % name, case, {})
        st.count('state:' + name)
        return r2
    except Exception as e:
        st.violate('%s: unexpected exception %s: %s' % (name, errname(e), e), case, {})
        return None


def inplace_scalar_ok(pt, c, div):
    """numpy casting rule for `array *= c` / `array /= c` (same_kind)"""
    for k, v in pt.n_body_tensors.items():
        if not isinstance(v, numpy.ndarray):
            continue
        kind = v.dtype.kind
        ck = 'c' if isinstance(c, complex) else 'f' if isinstance(c, float) else 'i'
        if div and kind == 'i':
            return False
        if kind == 'i' and ck != 'i':
            return False
        if kind == 'f' and ck == 'c':
            return False
    return True


def stream_types(ctx):
    of = ctx.of
    st = Stream('types-and-containers',
                '(T)/(A) QuadraticHamiltonian(hermitian_part, antisymmetric_part, constant, chemical_potential) with int32 / '
                'int64 / float32 / float64 / complex64 / complex128, C- and Fortran-ordered arrays, Python / numpy scalar '
                'constants and chemical potentials (0, 0.5, -1.75, ints, numpy floats): tensors compared exactly with the Model, '
                'their Spec denotation with the docstring formula evaluated on the ARGUMENTS, attributes, get_fermion_operator '
                'where numpy promotion yields float64 / complex128; PolynomialTensor + - unary- scalar ops and '
                'general_basis_change with mixed dtypes (also purely imaginary entries); conversions with n_qubits / '
                'chemical_potential / hbar of int, float and numpy scalar type; distinct = distinct inputs')
    orc = Oracle(ctx)
    rng = rng_for(ctx.seed, 'c08-types')
    N = budget(ctx.tier, 160, 1500)
    if ctx.drift:
        N = max(N, 600)
    MUS = [0, 0.0, 0.5, -1.75, 2, 3.0, numpy.float64(0.25), numpy.float32(1.5), -1]
    items = []
    reqs = []
    for i in range(N):
        n = rng.choice([1, 2, 2, 3])
        dt = rng.choice(DTYPES)
        a = typed_values(rng, (n, n), dt, 0.2)
        M = cast(a + a.conj().T, dt, rng)
        D = None
        if rng.random() < 0.5:
            dt2 = rng.choice(DTYPES)
            b = typed_values(rng, (n, n), dt2, 0.3)
            D = cast(b - b.T, dt2, rng)
        c = typed_scalar(rng)
        mu = rng.choice(MUS)
        items.append((n, M, D, c, mu))
        reqs.append({'op': 'c08.mk_qh', 'n': n, 'M': enc_tensor(M), 'D': None if D is None else enc_tensor(D),
                     'c': to_gq(c), 'mu': to_gq(mu)})
    ans = ctx.driver.run(reqs)
    for (n, M, D, c, mu), m in zip(items, ans):
        case = {'f': 'QuadraticHamiltonian', 'hermitian_part': enc_tensor(M), 'dtype': str(M.dtype),
                'fortran': bool(M.flags.f_contiguous and n > 1),
                'antisymmetric_part': None if D is None else enc_tensor(D), 'anti_dtype': None if D is None else str(D.dtype),
                'constant': repr(c), 'chemical_potential': repr(mu)}
        st.case(case)
        st.count('dtype:' + str(M.dtype))
        st.count('mu:' + repr(mu))
        M0, D0 = M.copy(), None if D is None else D.copy()
        try:
            if D is None:
                qh = of.QuadraticHamiltonian(M, constant=c, chemical_potential=mu)
            else:
                qh = of.QuadraticHamiltonian(M, D, c, mu)
            jq = enc_pt(qh)
        except Exception as e:
            st.violate('QuadraticHamiltonian.__init__ raised %s: %s' % (errname(e), e), case, {})
            continue
        if not numpy.array_equal(M, M0) or (D is not None and not numpy.array_equal(D, D0)):
            st.violate('QuadraticHamiltonian.__init__ modified its arguments', case, {})
        if canon_pt(jq) != canon_pt(m):
            st.disagree('QuadraticHamiltonian.__init__', case, jq, m)
        # Spec: the tensors denote the docstring formula evaluated on the arguments
        zero = enc_tensor(numpy.zeros((n, n)))
        req = {'op': 'c08.spec_qh', 'n': n, 'M': enc_tensor(M0), 'D': zero if D0 is None else enc_tensor(D0),
               'mu': to_gq(mu), 'c': to_gq(c)}

        def got_spec(den, case=case, n=n, jq=jq):
            orc.denote_pt(jq, lambda d2: orc.spec_eq(
                st, 'the tensors of QuadraticHamiltonian(M, Delta, c, mu) do not denote the docstring operator', case, n,
                leaf(d2), leaf(den)))
        orc.ask(req, got_spec)
        # attributes
        try:
            ok = (canon_tensor(enc_tensor(qh.hermitian_part), 2) == canon_tensor(enc_tensor(M0), 2)
                  and canon_tensor(enc_tensor(qh.combined_hermitian_part), 2)
                  == canon_tensor(enc_tensor(M0 - complex(mu).real * numpy.eye(n)), 2)
                  and canon_tensor(enc_tensor(qh.antisymmetric_part), 2)
                  == canon_tensor(enc_tensor(numpy.zeros((n, n)) if D0 is None else D0), 2)
                  and from_gq(to_gq(qh.chemical_potential)) == from_gq(to_gq(mu))
                  and from_gq(to_gq(qh.constant)) == from_gq(to_gq(c)))
            if not ok:
                st.violate('hermitian_part / combined_hermitian_part / antisymmetric_part / chemical_potential / constant '
                           'do not return the arguments', case, {'tensors': jq})
        except Exception as e:
            st.violate('attribute access raised %s: %s' % (errname(e), e), case, {})
        # get_fermion_operator where numpy promotion of the docstring expressions gives float64 / complex128
        exp10 = (M0 - mu * numpy.eye(n)).dtype if mu else M0.dtype
        exp11 = None if D0 is None else (0.5 * D0).dtype
        acceptable = exp10 in ACCEPTED_COEFF_DTYPES and (exp11 is None or exp11 in ACCEPTED_COEFF_DTYPES) \
            and isinstance(c, (int, float, complex))
        if acceptable:
            st.count('to_fermion:expected-ok')
            try:
                fop = of.get_fermion_operator(qh)
                jf = enc_op('fermion', fop.terms)
                orc.ask(req, (lambda case, n, jf: (lambda den: orc.spec_eq(
                    st, 'get_fermion_operator(QuadraticHamiltonian) does not denote the docstring operator', case, n,
                    leaf(jf), leaf(den))))(case, n, jf))
            except Exception as e:
                st.violate('get_fermion_operator(QuadraticHamiltonian(...)) raised %s: %s' % (errname(e), e), case,
                           {'tensor_dtypes': {str(k): str(getattr(v, 'dtype', type(v))) for k, v in qh.n_body_tensors.items()}})

    # PolynomialTensor arithmetic with mixed dtypes
    cases = []
    for i in range(N):
        n = rng.choice([1, 2, 2, 3])
        pool = KEYS_ALL if n <= 2 else [k for k in KEYS_ALL if len(k) <= 2]

        def mk(keys):
            d = {}
            for k in keys:
                d[k] = typed_scalar(rng, allow_bool=False) if k == () else typed_array(rng, n, len(k), rng.choice(DTYPES))
            return of.PolynomialTensor(d)
        op = rng.choice(['add', 'sub', 'iadd', 'isub', 'neg', 'mulT', 'addS', 'subS', 'rsubS', 'iaddS', 'mulS', 'rmulS',
                         'imulS', 'divS', 'idivS'])
        a = mk(rand_keys(rng, pool))
        b = c = None
        if op in ('add', 'sub', 'iadd', 'isub', 'mulT'):
            b = mk(rand_keys(rng, pool))
        elif op != 'neg':
            c = rand_scalar(rng, div=op in ('divS', 'idivS')) if rng.random() < 0.5 else typed_scalar(rng)
            if op in ('divS', 'idivS') and complex(c) == 0:
                c = 2
            if op in ('divS', 'idivS') and not isinstance(c, (int, float, complex)):
                c = float(c.real) if hasattr(c, 'real') else 2.0
            if op in ('divS', 'idivS'):
                c = rng.choice([2, 4, 0.5, -2.0, 0.25, 2j, -0.5j])
            if isinstance(c, bool) or type(c).__module__ == 'numpy':
                # COEFFICIENT_TYPES = (int, float, complex): numpy float64 / complex128 qualify, others do not
                if not isinstance(c, (int, float, complex)):
                    c = float(c)
            if op in ('mulS', 'rmulS', 'imulS', 'divS', 'idivS') and not inplace_scalar_ok(a, c, op in ('divS', 'idivS')):
                op = 'addS'
        cases.append((op, a, b, c))
    check_arith(ctx, st, orc, cases)

    # general_basis_change with mixed dtypes
    from openfermion.ops.representations.polynomial_tensor import general_basis_change
    items = []
    reqs = []
    KEYS = [(0,), (1,), (1, 0), (0, 1), (1, 1), (0, 0), (1, 0, 1), (1, 1, 0, 0), (0, 1, 0, 1)]
    for i in range(N // 2):
        n = rng.choice([1, 2, 2, 3])
        key = rng.choice(KEYS)
        T = typed_array(rng, n, len(key), rng.choice(DTYPES), rng.choice([0.0, 0.4]))
        rk = rng.random()
        if rk < 0.4:
            R = signed_perm(rng, n, cplx=False).real.astype(rng.choice([numpy.int32, numpy.int64, numpy.float32, numpy.float64]))
        elif rk < 0.7:
            R = signed_perm(rng, n, cplx=True).astype(rng.choice([numpy.complex64, numpy.complex128]))
        else:
            R = typed_array(rng, n, 2, rng.choice(DTYPES), 0.2)
        if rng.random() < 0.3:
            R = numpy.asfortranarray(R)
        items.append((n, key, T, R))
        reqs.append({'op': 'c08.basis_change', 't': enc_tensor(T), 'key': list(key), 'R': enc_mat(R)})
    ans = ctx.driver.run(reqs)
    for (n, key, T, R), m in zip(items, ans):
        case = {'f': 'general_basis_change', 'tensor': enc_tensor(T), 'tensor_dtype': str(T.dtype), 'key': list(key),
                'R': enc_mat(R), 'R_dtype': str(R.dtype)}
        st.case(case)
        st.count('gbc:%s/%s' % (T.dtype, R.dtype))
        T0, R0 = T.copy(), R.copy()
        try:
            T2 = general_basis_change(T, R, key)
        except Exception as e:
            st.violate('general_basis_change raised %s: %s' % (errname(e), e), case, {})
            continue
        if not numpy.array_equal(T, T0) or not numpy.array_equal(R, R0):
            st.violate('general_basis_change modified its arguments', case, {})
        if canon_tensor(enc_tensor(T2), len(key)) != canon_tensor(m, len(key)):
            st.disagree('general_basis_change (dtypes)', case, enc_tensor(T2), m)

    # conversions with argument types
    HB = [(0.5, 1.0, 0.5), (2, 0.5, 1.0), (2.0, 0.5, 1.0), (8, 0.25, 2.0), (numpy.float64(8.0), 0.25, 2.0),
          (numpy.float32(2.0), 0.5, 1.0)]
    reqs = []
    metas = []
    for i in range(N // 2):
        n = rng.choice([1, 2, 3])
        kind = rng.choice(['io', 'qh', 'quad'])
        if kind == 'io':
            op = of.FermionOperator()
            for _ in range(rng.randint(1, 4)):
                op += of.FermionOperator(rand_fermion_term(rng, n, rng.choice([0, 2, 4])), typed_scalar(rng))
            nq = rng.choice([None, n, numpy.int64(n + 1), n + 1])
            metas.append((kind, op, nq, None))
            reqs.append({'op': 'c08.get_io', 'A': enc_op('fermion', op.terms), 'n': None if nq is None else int(nq)})
        elif kind == 'qh':
            a = typed_values(rng, (n, n), numpy.complex128, 0.3)
            herm = a + a.conj().T
            op = of.FermionOperator()
            for p in range(n):
                for q in range(n):
                    if herm[p, q] != 0:
                        co = complex(herm[p, q])
                        if co.imag == 0 and rng.random() < 0.5:
                            co = rng.choice([float, numpy.float64])(co.real)
                        op += of.FermionOperator(((p, 1), (q, 0)), co)
            mu = rng.choice([0, 1, 0.5, -1.75, numpy.float64(0.25), 2.0])
            nq = rng.choice([None, n, numpy.int64(n)])
            metas.append((kind, op, nq, mu))
            reqs.append({'op': 'c08.get_qh', 'A': enc_op('fermion', op.terms), 'mu': to_gq(mu),
                         'n': None if nq is None else int(nq), 'ignore': False})
        else:
            hbar, r, r2 = rng.choice(HB)
            op = of.BosonOperator()
            for _ in range(rng.randint(1, 3)):
                op += of.BosonOperator(tuple((rng.randrange(min(n, 2)), rng.randint(0, 1)) for _ in range(rng.randint(0, 3))),
                                       typed_scalar(rng))
            metas.append((kind, op, hbar, r))
            reqs.append({'op': 'c08.get_quad', 'r': to_gq(r), 'B': enc_op('boson', op.terms)})
    ans = ctx.driver.run(reqs)
    for (kind, op, x, y), m in zip(metas, ans):
        case = {'f': kind, 'operator': enc_op('boson' if kind == 'quad' else 'fermion', op.terms), 'arg': repr(x), 'arg2': repr(y)}
        st.case(case)
        st.count('conv:' + kind)
        try:
            if kind == 'io':
                if of.count_qubits(op) == 0 and not x:
                    continue
                r = {'ok': enc_pt(of.get_interaction_operator(op, n_qubits=x))}
            elif kind == 'qh':
                if of.count_qubits(op) == 0 and not x:
                    continue
                r = {'ok': enc_pt(of.get_quadratic_hamiltonian(op, chemical_potential=y, n_qubits=x))}
            else:
                r = enc_op('quad', of.get_quad_operator(op, hbar=x).terms)
        except (of.ops.representations.InteractionOperatorError, of.ops.representations.QuadraticHamiltonianError,
                ValueError) as e:
            r = {'error': errname(e)}
        except Exception as e:
            st.violate('%s raised %s: %s' % (kind, errname(e), e), case, {})
            continue
        if kind == 'quad':
            if canon_op_json(r) != canon_op_json(m):
                st.disagree('get_quad_operator (hbar type)', case, r, m)
        else:
            if ('ok' in r) != ('ok' in m) or ('error' in r and r['error'] != m['error']) or \
                    ('ok' in r and canon_pt(r['ok']) != canon_pt(m['ok'])):
                st.disagree('conversion (argument types)', case, r, m)
            if 'ok' in r:
                jA = case['operator']
                orc.denote_pt(r['ok'], (lambda case, n, jA: (lambda den: orc.spec_eq(
                    st, 'conversion result does not denote its argument', case, max(n, 1), leaf(den), leaf(jA))))(
                        case, r['ok']['n'], jA))
    orc.flush()
    return st


def rand_fop(of, rng, n, nterms, lengths, conserving=True, coeff=None):
    op = of.FermionOperator()
    for _ in range(nterms):
        op += of.FermionOperator(rand_fermion_term(rng, n, rng.choice(lengths), conserving),
                                 coeff(rng) if coeff else rand_c(rng, 0.0))
    return op


def stream_state(ctx):
    of = ctx.of
    from openfermion.ops.representations.polynomial_tensor import general_basis_change
    st = Stream('state-and-aliasing',
                '(S) every conversion / arithmetic function is called twice around an in-place modification of everything the '
                'first call returned (arrays += 1, terms rescaled, constants overwritten): the second result must equal the '
                'first, arguments must be unchanged and share no memory with results; objects edited in place (+=, *=, '
                '__setitem__, constant / tensor setters, rotate_basis, add_chemical_potential, DiagonalCoulombHamiltonian *=) '
                'must give get_fermion_operator / iteration / attributes / ground_energy / majorana_form equal to those of a '
                'fresh object with the new content; distinct = distinct inputs')
    orc = Oracle(ctx)
    rng = rng_for(ctx.seed, 'c08-state')
    N = budget(ctx.tier, 40, 400)
    if ctx.drift:
        N = max(N, 150)
    normal_ordered = of.transforms.normal_ordered
    for i in range(N):
        n = rng.choice([1, 2, 3])
        # --- conversions
        A = rand_fop(of, rng, n, rng.randint(1, 4), [0, 2, 2, 4])
        case = {'A': enc_op('fermion', A.terms)}
        st.case(case)
        if of.count_qubits(A) > 0:
            twice(st, rng, 'get_interaction_operator', of.get_interaction_operator, [A], case)
        twice(st, rng, 'normal_ordered', normal_ordered, [A], case)
        twice(st, rng, 'get_majorana_operator', of.get_majorana_operator, [A], case)
        a = typed_values(rng, (n, n), numpy.complex128, 0.3)
        herm = a + a.conj().T
        b = typed_values(rng, (n, n), numpy.complex128, 0.5)
        anti = b - b.T
        Q = of.FermionOperator((), 0.5)
        for p in range(n):
            for q in range(n):
                if herm[p, q] != 0:
                    Q += of.FermionOperator(((p, 1), (q, 0)), complex(herm[p, q]))
                if anti[p, q] != 0 and p > q:
                    Q += of.FermionOperator(((p, 1), (q, 1)), complex(anti[p, q]))
                    Q += of.FermionOperator(((q, 0), (p, 0)), complex(anti[p, q]).conjugate())
        caseq = {'A': enc_op('fermion', Q.terms)}
        if of.count_qubits(Q) > 0:
            twice(st, rng, 'get_quadratic_hamiltonian', lambda o: of.get_quadratic_hamiltonian(o, chemical_potential=0.5), [Q], caseq)
        v = typed_values(rng, (n, n), numpy.float64, 0.3).real
        V = v + v.T
        Dop = of.FermionOperator((), 1.5)
        for p in range(n):
            for q in range(n):
                if herm[p, q] != 0:
                    Dop += of.FermionOperator(((p, 1), (q, 0)), complex(herm[p, q]))
                if V[p, q] != 0:
                    Dop += of.FermionOperator(((p, 1), (p, 0), (q, 1), (q, 0)), float(V[p, q]))
        cased = {'A': enc_op('fermion', Dop.terms)}
        dch = twice(st, rng, 'get_diagonal_coulomb_hamiltonian', of.get_diagonal_coulomb_hamiltonian, [Dop], cased) \
            if of.count_qubits(Dop) > 0 else None
        if dch is not None:
            twice(st, rng, 'get_fermion_operator(DiagonalCoulombHamiltonian)', of.get_fermion_operator, [dch], cased)
            twice(st, rng, 'DiagonalCoulombHamiltonian * 2.0', lambda h: h * 2.0, [dch], cased)
        M = of.MajoranaOperator()
        for _ in range(rng.randint(1, 3)):
            M += of.MajoranaOperator(tuple(rng.randrange(2 * n) for _ in range(rng.randint(0, 4))), rand_c(rng, 0.0))
        twice(st, rng, 'get_fermion_operator(MajoranaOperator)', of.get_fermion_operator, [M],
              {'M': enc_op('majorana', M.terms)})
        B = of.BosonOperator()
        for _ in range(rng.randint(1, 3)):
            B += of.BosonOperator(tuple((rng.randrange(min(n, 2)), rng.randint(0, 1)) for _ in range(rng.randint(0, 3))),
                                  rand_c(rng, 0.0))
        qd = twice(st, rng, 'get_quad_operator', lambda o: of.get_quad_operator(o, hbar=2.0), [B], {'B': enc_op('boson', B.terms)})
        if qd is not None:
            twice(st, rng, 'get_boson_operator', lambda o: of.get_boson_operator(o, hbar=2.0), [qd], {'Q': enc_op('quad', qd.terms)})
        # --- tensors
        pool = KEYS_ALL if n <= 2 else [k for k in KEYS_ALL if len(k) <= 2]
        ta = rand_pt(of, rng, n, rand_keys(rng, pool))
        tb = rand_pt(of, rng, n, rand_keys(rng, pool))
        caset = {'a': enc_pt(ta), 'b': enc_pt(tb)}
        twice(st, rng, 'PolynomialTensor + PolynomialTensor', lambda x, y: x + y, [ta, tb], caset)
        twice(st, rng, 'PolynomialTensor - PolynomialTensor', lambda x, y: x - y, [ta, tb], caset)
        twice(st, rng, '-PolynomialTensor', lambda x: -x, [ta], caset)
        twice(st, rng, 'PolynomialTensor * 0.5', lambda x: x * 0.5, [ta], caset)
        twice(st, rng, '2 * PolynomialTensor', lambda x: 2 * x, [ta], caset)
        twice(st, rng, 'PolynomialTensor / 2', lambda x: x / 2, [ta], caset)
        twice(st, rng, 'PolynomialTensor * PolynomialTensor', lambda x, y: x * y, [ta, tb], caset)
        twice(st, rng, 'get_fermion_operator(PolynomialTensor)', of.get_fermion_operator, [ta], caset)
        twice(st, rng, 'get_majorana_operator(PolynomialTensor)', of.get_majorana_operator, [ta], caset)
        key = rng.choice([(1, 0), (0, 1), (1, 1), (1, 0, 1)] + ([(1, 1, 0, 0)] if n <= 2 else []))
        T = rand_array(rng, n, len(key), 0.2)
        R = signed_perm(rng, n)
        twice(st, rng, 'general_basis_change', lambda t, r: general_basis_change(t, r, key), [T, R],
              {'tensor': enc_tensor(T), 'R': enc_mat(R), 'key': list(key)})
        # --- objects edited in place must be re-read
        try:
            obj = copy.deepcopy(ta)
            edits = []
            for _ in range(rng.randint(1, 4)):
                e = rng.choice(['iadd', 'imul', 'setitem', 'constant', 'rotate', 'isub', 'idiv'])
                edits.append(e)
                if e == 'iadd':
                    obj += tb
                elif e == 'isub':
                    obj -= copy.deepcopy(obj) * 0.5
                elif e == 'imul':
                    obj *= rng.choice([2.0, -0.5, 1j])
                elif e == 'idiv':
                    obj /= rng.choice([2.0, -0.5])
                elif e == 'constant':
                    obj.constant = rand_c(rng, 0.0)
                elif e == 'rotate':
                    obj.rotate_basis(signed_perm(rng, n))
                else:
                    ks = [k for k in obj.n_body_tensors if k != ()]
                    k = rng.choice(ks)
                    obj[tuple((rng.randrange(n), x) for x in k)] = rand_c(rng, 0.0)
            fresh = of.PolynomialTensor({k: copy.deepcopy(v) for k, v in obj.n_body_tensors.items()})
            casee = dict(caset, edits=edits)
            st.count('edited-object')
            if snap_any(of.get_fermion_operator(obj)) != snap_any(of.get_fermion_operator(fresh)) or \
                    sorted(map(str, obj)) != sorted(map(str, fresh)) or not (obj == fresh) or (obj != fresh):
                st.violate('an edited PolynomialTensor is not read like a fresh object with the same arrays', casee, {})
            jo = enc_pt(obj)
            orc.denote_pt(jo, (lambda casee, n, jf: (lambda den: orc.spec_eq(
                st, 'get_fermion_operator of an edited PolynomialTensor does not denote its arrays', casee, n, leaf(jf),
                leaf(den))))(casee, n, enc_op('fermion', of.get_fermion_operator(obj).terms)))
        except Exception as e:
            st.violate('editing a PolynomialTensor raised %s: %s' % (errname(e), e), caset, {})
        # InteractionOperator setters
        try:
            io = of.InteractionOperator(rand_c(rng, 0.0), rand_array(rng, n, 2), rand_array(rng, n, 4) if n <= 2 else
                                        numpy.zeros((n,) * 4, complex))
            io.one_body_tensor = rand_array(rng, n, 2)
            if n <= 2:
                io.two_body_tensor = rand_array(rng, n, 4)
            io.constant = rand_c(rng, 0.0)
            io *= 2.0
            fresh = of.InteractionOperator(io.constant, io.one_body_tensor.copy(), io.two_body_tensor.copy())
            if snap_any(of.get_fermion_operator(io)) != snap_any(of.get_fermion_operator(fresh)) or \
                    snap_any(-io) != snap_any(-fresh):
                st.violate('an edited InteractionOperator is not read like a fresh one', {'tensor': enc_pt(io)}, {})
        except Exception as e:
            st.violate('editing an InteractionOperator raised %s: %s' % (errname(e), e), caset, {})
        # QuadraticHamiltonian.add_chemical_potential
        try:
            mu0 = rng.choice([0.0, 0.5, -1.75, 2.0])
            x = rng.choice([0.25, -1.5, 3.0, 1])
            withD = rng.random() < 0.5
            args = (herm.copy(), anti.copy(), 0.75, mu0) if withD else (herm.copy(), None, 0.75, mu0)
            qh = of.QuadraticHamiltonian(*args)
            e0 = qh.ground_energy()
            qh.add_chemical_potential(x)
            fresh = of.QuadraticHamiltonian(herm.copy(), anti.copy() if withD else None, 0.75, mu0 + x)
            caseh = {'f': 'add_chemical_potential', 'hermitian_part': enc_tensor(herm),
                     'antisymmetric_part': enc_tensor(anti) if withD else None, 'mu0': mu0, 'x': x}
            st.count('add_chemical_potential')
            if canon_pt(enc_pt(qh)) != canon_pt(enc_pt(fresh)) or qh.chemical_potential != fresh.chemical_potential or \
                    canon_tensor(enc_tensor(qh.hermitian_part), 2) != canon_tensor(enc_tensor(herm), 2) or \
                    snap_any(of.get_fermion_operator(qh)) != snap_any(of.get_fermion_operator(fresh)):
                st.violate('add_chemical_potential: tensors / chemical_potential / hermitian_part / get_fermion_operator differ '
                           'from a fresh QuadraticHamiltonian with the new chemical potential', caseh, {})
            st.float_comparisons += 2
            ma, ca = qh.majorana_form()
            mb, cb = fresh.majorana_form()
            if abs(qh.ground_energy() - fresh.ground_energy()) > 1e-9 or numpy.max(numpy.abs(ma - mb)) > 1e-9 or abs(ca - cb) > 1e-9:
                st.violate('add_chemical_potential: ground_energy / majorana_form are not those of the new content', caseh,
                           {'before': e0, 'after': qh.ground_energy(), 'fresh': fresh.ground_energy()})
        except Exception as e:
            st.violate('add_chemical_potential raised %s: %s' % (errname(e), e), {'hermitian_part': enc_tensor(herm)}, {})
    orc.flush()
    return st


def small_c(rng):
    """dyadic coefficient of magnitude 1e-7 .. 1e-4 (a decade above the library's 1e-8 pruning threshold)"""
    e = rng.choice([14, 17, 20, 23])
    v = rng.choice([1, -1, 3, -3]) * 2.0 ** (-e)
    return complex(v, rng.choice([0, 0, 1, -1]) * 2.0 ** (-e))


def mixed_c(rng):
    return small_c(rng) if rng.random() < 0.5 else rand_c(rng, 0.0)


def relabel_fop(of, op, f):
    out = of.FermionOperator()
    for t, c in op.terms.items():
        out += of.FermionOperator(tuple((f(i), a) for i, a in t), c)
    return out


def stream_bands(ctx):
    of = ctx.of
    st = Stream('bands-and-sizes',
                '(B) conversions with dyadic coefficients of magnitude 1e-7..1e-4 next to O(1) ones (Hermiticity defects and '
                'pairing terms of that size must be rejected / kept), tensors and rotations on 9 and 17 modes, operators on mode '
                'indices >= 257 (Majorana <-> fermion, get_quadratic_hamiltonian on 259+ modes, __getitem__ / __iter__), '
                'relabelling i -> i + 257 commutes with the Majorana conversions; exact comparison with the Model, Spec oracle '
                'where the register has <= 4 modes; distinct = distinct inputs')
    orc = Oracle(ctx)
    rng = rng_for(ctx.seed, 'c08-bands')
    N = budget(ctx.tier, 60, 600)
    if ctx.drift:
        N = max(N, 250)
    # --- small coefficients through the three conversions
    reqs, metas = [], []
    for i in range(N):
        n = rng.choice([2, 3, 4])
        kind = rng.choice(['io', 'qh', 'qh', 'dch'])
        if kind == 'io':
            op = build_op(of, rng, [(rand_fermion_term(rng, n, rng.choice([0, 2, 4])), mixed_c(rng)) for _ in range(rng.randint(1, 5))])
            reqs.append({'op': 'c08.get_io', 'A': enc_op('fermion', op.terms), 'n': None})
            metas.append((kind, op, None))
        elif kind == 'qh':
            pieces = []
            for p in range(n):
                for q in range(p, n):
                    if rng.random() < 0.5:
                        c = mixed_c(rng)
                        if p == q:
                            c = complex(c.real, 0)
                        pieces.append((((p, 1), (q, 0)), c))
                        if p != q:
                            pieces.append((((q, 1), (p, 0)), c.conjugate()))
            for p in range(n):
                for q in range(p):
                    if rng.random() < 0.3:
                        c = mixed_c(rng)
                        pieces.append((((p, 1), (q, 1)), c))
                        pieces.append((((q, 0), (p, 0)), c.conjugate()))
            bad = None
            r = rng.random()
            if r < 0.25 and n >= 2:
                bad = 'tiny-nonhermitian'
                p, q = rng.sample(range(n), 2)
                pieces.append((((p, 1), (q, 0)), small_c(rng)))
            elif r < 0.4 and n >= 2:
                bad = 'tiny-unmatched-pairing'
                p, q = sorted(rng.sample(range(n), 2), reverse=True)
                pieces.append((((p, 1), (q, 1)), small_c(rng)))
                pieces.append((((q, 0), (p, 0)), small_c(rng) * 3))
            op = build_op(of, rng, pieces)
            mu = rng.choice([0.0, 2.0 ** -17, 0.5])
            reqs.append({'op': 'c08.get_qh', 'A': enc_op('fermion', op.terms), 'mu': to_gq(mu), 'n': None, 'ignore': False})
            metas.append((kind, op, (mu, bad)))
        else:
            pieces = [((), 0.5)]
            for p in range(n):
                for q in range(p, n):
                    if rng.random() < 0.5:
                        c = mixed_c(rng)
                        if p == q:
                            c = complex(c.real, 0)
                        pieces.append((((p, 1), (q, 0)), c))
                        if p != q:
                            pieces.append((((q, 1), (p, 0)), c.conjugate()))
                    if p != q and rng.random() < 0.5:
                        pieces.append((((p, 1), (p, 0), (q, 1), (q, 0)), mixed_c(rng).real))
            bad = None
            if rng.random() < 0.3 and n >= 2:
                bad = 'tiny-imaginary'
                p, q = rng.sample(range(n), 2)
                pieces.append((((p, 1), (p, 0), (q, 1), (q, 0)), complex(0, 2.0 ** -rng.choice([14, 17, 20]))))
            op = build_op(of, rng, pieces)
            reqs.append({'op': 'c08.get_dch', 'A': enc_op('fermion', op.terms), 'n': None, 'ignore': False})
            metas.append((kind, op, bad))
    ans = ctx.driver.run(reqs)
    for (kind, op, extra), m in zip(metas, ans):
        jA = enc_op('fermion', op.terms)
        case = {'f': kind, 'A': jA, 'extra': repr(extra)}
        st.case(case)
        if of.count_qubits(op) == 0:
            continue
        try:
            if kind == 'io':
                r = {'ok': enc_pt(of.get_interaction_operator(op))}
            elif kind == 'qh':
                qh = of.get_quadratic_hamiltonian(op, chemical_potential=extra[0])
                r = {'ok': enc_pt(qh)}
            else:
                r = {'ok': enc_dch(of.get_diagonal_coulomb_hamiltonian(op))}
        except (of.ops.representations.InteractionOperatorError, of.ops.representations.QuadraticHamiltonianError,
                ValueError) as e:
            r = {'error': errname(e)}
        except Exception as e:
            st.violate('%s raised %s: %s' % (kind, errname(e), e), case, {})
            continue
        st.count('small:%s:%s' % (kind, 'ok' if 'ok' in r else r['error']))
        can = canon_dch if kind == 'dch' else canon_pt
        if ('ok' in r) != ('ok' in m) or ('error' in r and r['error'] != m['error']) or ('ok' in r and can(r['ok']) != can(m['ok'])):
            st.disagree('conversion with small coefficients', case, r, m)
        bad = extra[1] if kind == 'qh' else extra if kind == 'dch' else None
        if 'ok' in r and bad is not None and kind == 'qh':
            # an accepted operator must be Hermitian to within the library tolerance
            h = qh.hermitian_part
            jno = enc_op('fermion', of.transforms.normal_ordered(op).terms)
            herm_op = of.transforms.normal_ordered(of.hermitian_conjugated(op) - op)
            worst = max([abs(c) for c in herm_op.terms.values()] + [0.0])
            if worst > 1e-7:
                st.violate('get_quadratic_hamiltonian accepts an operator that differs from its Hermitian conjugate by %g' % worst,
                           case, r)
        if 'ok' in r and bad == 'tiny-imaginary':
            st.violate('get_diagonal_coulomb_hamiltonian accepts an imaginary two-body coefficient above the tolerance', case, r)
        if 'error' in r and bad is None and kind != 'io':
            st.violate('%s rejects an admissible operator with small coefficients' % kind, case, r)
        if 'ok' in r:
            n = r['ok']['n']
            if kind == 'dch':
                jh = r['ok']
                orc.ask({'op': 'c08.spec_dch', 'n': n, 'T': jh['one'], 'V': jh['two'], 'c': jh['c']},
                        (lambda case, n, jA: (lambda den: orc.spec_eq(st, 'conversion (small coefficients) does not denote A', case,
                                                                      n, leaf(den), leaf(jA))))(case, n, jA))
            else:
                orc.denote_pt(r['ok'], (lambda case, n, jA: (lambda den: orc.spec_eq(
                    st, 'conversion (small coefficients) does not denote A', case, n, leaf(den), leaf(jA))))(case, n, jA))
            if kind == 'qh' and any(len(t) == 2 and t[0][1] == t[1][1] for t, _ in jA):
                pairing = max([abs(gq_to_c(c)) for t, c in enc_op('fermion', of.transforms.normal_ordered(op).terms)
                               if len(t) == 2 and t[0][1] == 1 and t[1][1] == 1] + [0.0])
                if pairing > 1e-7 and (1, 1) not in qh.n_body_tensors:
                    st.violate('get_quadratic_hamiltonian drops a pairing term above the tolerance', case, r)
    # --- sizes 9 and 17, indices >= 257
    from openfermion.ops.representations.polynomial_tensor import general_basis_change
    reqs, metas = [], []
    for n in ([9, 17] if ctx.tier == 'quick' and not ctx.drift else [9, 12, 17, 20]):
        for rep in range(2):
            keys = [(1, 0), rng.choice([(0, 1), (1, 1), (0, 0)]), ()]
            a = of.PolynomialTensor({k: (rand_c(rng, 0.0) if k == () else rand_array(rng, n, 2, 0.8)) for k in keys})
            b = of.PolynomialTensor({k: (rand_c(rng, 0.0) if k == () else rand_array(rng, n, 2, 0.8)) for k in keys[:2]})
            for opn in ('add', 'sub'):
                reqs.append({'op': 'c08.arith', 'f': MODEL_F[opn], 'a': enc_pt(a), 'b': enc_pt(b)})
                metas.append(('arith', opn, a, b))
            R = signed_perm(rng, n)
            T = rand_array(rng, n, 2, 0.7)
            key = rng.choice([(1, 0), (0, 1), (1, 1)])
            reqs.append({'op': 'c08.basis_change', 't': enc_tensor(T), 'key': list(key), 'R': enc_mat(R)})
            metas.append(('gbc', key, T, R))
            reqs.append({'op': 'c08.to_fermion', 'a': enc_pt(a)})
            metas.append(('tofermion', None, a, None))
    ans = ctx.driver.run(reqs)
    for (kind, x, a, b), m in zip(metas, ans):
        case = {'f': kind, 'n': int(a.shape[0]) if isinstance(a, numpy.ndarray) else a.n_qubits}
        st.case(dict(case, digest=show(snap_any(a), 200)))
        st.count('size:%s:n=%d' % (kind, case['n']))
        try:
            if kind == 'arith':
                r = enc_pt(a + b if x == 'add' else a - b)
                if canon_pt(r) != canon_pt(m['ok']):
                    st.disagree('PolynomialTensor %s on %d modes' % (x, case['n']), case, show(r, 500), show(m, 500))
            elif kind == 'gbc':
                r = enc_tensor(general_basis_change(a, b, x))
                if canon_tensor(r, 2) != canon_tensor(m, 2):
                    st.disagree('general_basis_change on %d modes' % case['n'], case, show(r, 500), show(m, 500))
            else:
                r = enc_op('fermion', of.get_fermion_operator(a).terms)
                if canon_op_json(r) != canon_op_json(m):
                    st.disagree('get_fermion_operator on %d modes' % case['n'], case, show(r, 500), show(m, 500))
        except Exception as e:
            st.violate('%s on %d modes raised %s: %s' % (kind, case['n'], errname(e), e), case, {})
    # large mode indices
    reqs, metas = [], []
    for i in range(N // 2):
        OFF = rng.choice([257, 258, 300, 1000, 70000])
        n = rng.choice([1, 2, 3])
        A = rand_fop(of, rng, n, rng.randint(1, 3), [0, 1, 2, 3, 4], conserving=False)
        big = relabel_fop(of, A, lambda j: j + OFF)
        reqs.append({'op': 'c08.fermion_to_maj', 'A': enc_op('fermion', big.terms)})
        metas.append(('f2m', A, big, OFF))
        M = of.MajoranaOperator()
        for _ in range(rng.randint(1, 3)):
            M += of.MajoranaOperator(tuple(rng.randrange(2 * n) for _ in range(rng.randint(0, 4))), rand_c(rng, 0.0))
        bigM = of.MajoranaOperator()
        for t, c in M.terms.items():
            bigM += of.MajoranaOperator(tuple(j + 2 * OFF for j in t), c)
        reqs.append({'op': 'c08.maj_to_fermion', 'M': enc_op('majorana', bigM.terms)})
        metas.append(('m2f', M, bigM, OFF))
    ans = ctx.driver.run(reqs)
    for (kind, small, big, OFF), m in zip(metas, ans):
        case = {'f': kind, 'offset': OFF, 'operator': enc_op('fermion' if kind == 'f2m' else 'majorana', big.terms)}
        st.case(case)
        st.count('bigindex:' + kind)
        try:
            if kind == 'f2m':
                rb = of.get_majorana_operator(big)
                rs = of.get_majorana_operator(small)
                jb = enc_op('majorana', rb.terms)
                shifted = canon_op_json([[[[j + 2 * OFF, 0] for j, _ in t], c] for t, c in enc_op('majorana', rs.terms)])
            else:
                rb = of.get_fermion_operator(big)
                rs = of.get_fermion_operator(small)
                jb = enc_op('fermion', rb.terms)
                shifted = canon_op_json([[[[j + OFF, a] for j, a in t], c] for t, c in enc_op('fermion', rs.terms)])
            if canon_op_json(jb) != canon_op_json(m):
                st.disagree('Majorana conversion on mode indices >= 257', case, jb, m)
            if canon_op_json(jb) != shifted:
                st.violate('relabelling the modes by +%d does not commute with the Majorana conversion' % OFF, case,
                           {'big': jb})
        except Exception as e:
            st.violate('%s raised %s: %s' % (kind, errname(e), e), case, {})
    # quadratic Hamiltonian and tensor access on > 257 modes
    n = rng.choice([259, 261])
    modes = [0, 1, 256, 257, n - 1]
    pieces = [((), 0.25)]
    for _ in range(4):
        p, q = rng.choice(modes), rng.choice(modes)
        c = rand_c(rng, 0.0)
        if p == q:
            c = complex(c.real, 0)
        pieces.append((((p, 1), (q, 0)), c))
        if p != q:
            pieces.append((((q, 1), (p, 0)), c.conjugate()))
    p, q = n - 1, 257
    c = rand_c(rng, 0.0)
    pieces += [(((p, 1), (q, 1)), c), (((q, 0), (p, 0)), c.conjugate())]
    op = of.FermionOperator()
    for t, c in pieces:
        op += of.FermionOperator(t, c)
    case = {'f': 'get_quadratic_hamiltonian', 'n_modes': n, 'A': enc_op('fermion', op.terms)}
    st.case(case)
    try:
        qh = of.get_quadratic_hamiltonian(op)
        back = of.get_fermion_operator(qh)
        no = of.transforms.normal_ordered(op)
        st.count('bigindex:qh')
        if canon_op_json(enc_op('fermion', of.transforms.normal_ordered(back).terms)) != canon_op_json(enc_op('fermion', no.terms)):
            st.violate('get_fermion_operator(get_quadratic_hamiltonian(A)) != normal_ordered(A) on %d modes' % n, case, {})
        m = ctx.driver.one({'op': 'c08.get_qh', 'A': case['A'], 'mu': to_gq(0), 'n': None, 'ignore': False})
        if 'ok' not in m or canon_pt(enc_pt(qh)) != canon_pt(m['ok']):
            st.disagree('get_quadratic_hamiltonian on %d modes' % n, case, 'tensors differ', 'tensors differ')
        for t, c in no.terms.items():
            if t and from_gq(to_gq(qh[t])) != from_gq(to_gq(c)) and len(t) == 2 and t[0][1] == 1 and t[1][1] == 0:
                st.violate('__getitem__ on indices >= 257 does not return the coefficient', case, {'term': t})
        seen = {t for t in qh}
        want = {t for t in no.terms if t} | {()}
        # the (1,1)/(0,0) tensors are antisymmetrised: both orders of each pairing term appear
        if not want <= seen:
            st.violate('__iter__ on %d modes misses a term' % n, case, {'missing': sorted(want - seen)})
    except Exception as e:
        st.violate('get_quadratic_hamiltonian on %d modes raised %s: %s' % (n, errname(e), e), case, {})
    orc.flush()
    return st


def gq_to_c(j):
    a, b = from_gq(j)
    return complex(float(a), float(b))
