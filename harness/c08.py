"""C08 — tensor representations and conversions.

Correspondence of the real PolynomialTensor / InteractionOperator / QuadraticHamiltonian /
DiagonalCoulombHamiltonian arithmetic, the conversions and general_basis_change with the Lean Model
(OFV.Model.C08), and the Spec oracle: the FermionOperator *denoted* by every representation
(OFV.Spec.C08, evaluated by the driver on the implementation's own arrays) compared as a linear map
on all Fock basis states (`spec.eq`, OFV.Spec.Expr)."""
import copy
import itertools
from fractions import Fraction

import numpy

from common import (Stream, budget, enc_op, enc_term, canon_op_json, to_gq, from_gq, dyadic,
                    rng_for, show)

TRUSTED = [
    'C08: numpy elementwise arithmetic, deepcopy and einsum are modelled as exact arithmetic on nested lists '
    '(inputs are dyadic so IEEE arithmetic is exact); numpy.sqrt(2*hbar) / sqrt(hbar/2) for hbar in {1/2, 2, 8} are exact',
    'C08: numpy.allclose in DiagonalCoulombHamiltonian.__init__ is modelled as exact equality (generated matrices are '
    'exactly symmetric / Hermitian or off by >= 1/8)',
]
ASSUMPTIONS = [
    'tensor entries, rotation matrices and coefficients are dyadic Gaussian rationals (exact float arithmetic) except the '
    '(3+4i)/5 rotation blocks, which are compared at absolute tolerance 1e-9 and counted as float comparisons',
    'each n_body_tensors[key] has shape (n_qubits,)*len(key); keys contain only 0/1',
]
OPEN_STATEMENTS = [
    'basis_change_sound on Fock space (for unitary U the rotated tensor denotes the operator with rotated ladder operators, '
    'so spectra are invariant) and composition rotate(R2) after rotate(R1) = rotate(R1 R2): proved is the formal-polynomial '
    'form for arbitrary R, key order and mixed actions (basis_change_sound_formal: einsum = multilinear substitution); '
    'multiplicativity of the Fock action, unitarity => CAR preserved, and composition are checked by the Spec oracle '
    '(exact for signed/complex permutations and dyadic matrices) and numpy eigvalsh at 1e-9',
    'get_interaction_operator / get_quadratic_hamiltonian / get_diagonal_coulomb_hamiltonian: no theorem (they compose '
    'normal_ordered, property C03, with a scatter loop); soundness and the round trip '
    'get_fermion_operator(convert(A)) == normal_ordered(A) are covered by correspondence + Spec oracle only',
    'get_fermion_operator(PolynomialTensor) (tensor_denote_iter) and __getitem__: correspondence + Spec oracle only',
    'get_majorana_operator / get_fermion_operator(MajoranaOperator) as algebra homomorphisms: proved for the generators '
    '(all modes, all basis states); products and sums rely on C01 and are covered by the Spec oracle',
    'get_quad_operator / get_boson_operator: correspondence + Spec oracle only (hbar in {1/2, 2, 8})',
    'DOCIHamiltonian tensors vs qubit_operator: not modelled (no theorem, no correspondence)',
    'tensor_sub_hom holds only when the subtrahend keys are keys of the minuend (finding F08a: tensor_sub_spec states '
    'what the code computes in general, tensor_sub_counterexample is the kernel-checked witness)',
    'elementwise PolynomialTensor * PolynomialTensor has no operator-level meaning: correspondence only',
]

KEYS_ALL = [(), (1, 0), (0, 1), (1, 1), (0, 0), (1, 1, 0, 0), (0, 0, 1, 1), (1, 0, 1, 0), (0, 1, 1, 0)]
KEYS_EXH = [(), (1, 0), (0, 1), (1, 1, 0, 0), (0, 0, 1, 1)]


# ------------------------------------------------------------------ encodings

def enc_tensor(t):
    """numpy array / scalar -> nested list with exact leaves"""
    if isinstance(t, numpy.ndarray) and t.ndim > 0:
        return [enc_tensor(x) for x in t]
    return to_gq(t)


def canon_tensor(j, order):
    if order == 0:
        return from_gq(j)
    return tuple(canon_tensor(x, order - 1) for x in j)


def enc_pt(pt):
    return {'n': int(pt.n_qubits), 'd': [[list(k), enc_tensor(v)] for k, v in pt.n_body_tensors.items()]}


def canon_pt(j):
    return (j['n'], tuple(sorted((tuple(k), canon_tensor(t, len(k))) for k, t in j['d'])))


def tensor_floats(j, order):
    if order == 0:
        a, b = from_gq(j)
        return complex(float(a), float(b))
    return [tensor_floats(x, order - 1) for x in j]


def enc_mat(R):
    return [[to_gq(x) for x in row] for row in R]


def leaf(jop):
    return ['leaf', jop]


def errname(e):
    return type(e).__name__


def small_gq(j, bits=40):
    return max(abs(j[0]).bit_length(), j[1].bit_length(), abs(j[2]).bit_length(), j[3].bit_length()) <= bits


def tensor_small(j, order):
    if order == 0:
        return small_gq(j)
    return all(tensor_small(x, order - 1) for x in j)


# ------------------------------------------------------------------ generators

def rand_c(rng, zero_p=0.25, complex_p=0.4):
    if rng.random() < zero_p:
        return 0.0
    return complex(dyadic(rng, max_num=6, max_pow=2, complex_p=complex_p))


def rand_array(rng, n, order, zero_p=0.25, real=False):
    shape = (n,) * order
    a = numpy.zeros(shape, dtype=float if real else complex)
    for idx in itertools.product(range(n), repeat=order):
        c = rand_c(rng, zero_p, 0.0 if real else 0.4)
        a[idx] = c.real if real else c
    return a


def rand_pt(of, rng, n, keys, zero_p=0.25):
    d = {}
    for k in keys:
        if k == ():
            d[k] = rand_c(rng, 0.2)
        else:
            d[k] = rand_array(rng, n, len(k), zero_p)
    return of.PolynomialTensor(d)


def rand_keys(rng, pool, need_nonconstant=True):
    while True:
        ks = [k for k in pool if rng.random() < 0.45]
        rng.shuffle(ks)
        if not need_nonconstant or any(k != () for k in ks):
            # PolynomialTensor.__init__ looks at the first (or second) key only
            if ks and (ks[0] != () or len(ks) > 1):
                return ks


def rand_scalar(rng, div=False):
    if div:
        base = rng.choice([1, 2, 4, 0.5, 0.25, -1, -2, -0.5, 8])
        r = rng.random()
        if r < 0.25:
            return complex(0, base)
        if r < 0.45:
            return int(base) if float(base).is_integer() else base
        return float(base)
    return dyadic(rng, max_num=4, max_pow=2)


def rand_fermion_term(rng, n, length, conserving=True):
    if conserving:
        acts = [1] * (length // 2) + [0] * (length - length // 2)
        rng.shuffle(acts)
    else:
        acts = [rng.randint(0, 1) for _ in range(length)]
    return tuple((rng.randrange(n), a) for a in acts)


def support(jop):
    m = 0
    for t, _ in jop:
        for i, _a in t:
            m = max(m, i + 1)
    return m


# ------------------------------------------------------------------ oracle plumbing

class Oracle:
    """collects driver requests; answers are dispatched to callbacks after one batch run"""

    def __init__(self, ctx):
        self.ctx = ctx
        self.reqs = []
        self.cbs = []

    def ask(self, req, cb):
        self.reqs.append(req)
        self.cbs.append(cb)

    def flush(self):
        while self.reqs:
            reqs, cbs = self.reqs, self.cbs
            self.reqs, self.cbs = [], []
            for a, cb in zip(self.ctx.driver.run(reqs), cbs):
                cb(a)

    def spec_eq(self, stream, what, case, n, lhs, rhs, alg='fermion', d=0, tag=None):
        def cb(a):
            stream.count('oracle:checked')
            if not a['eq']:
                v = dict(case)
                if tag:
                    v['class'] = tag
                stream.violate(what, v, {'witness_state': a['state'], 'implementation': a['lhs'], 'spec': a['rhs']})
        self.ask({'op': 'spec.eq', 'alg': alg, 'n': n, 'd': d, 'lhs': lhs, 'rhs': rhs}, cb)

    def denote_pt(self, jpt, cb):
        self.ask({'op': 'c08.spec_pt', 'd': jpt['d']}, cb)


def spec_eq_pt(orc, stream, what, case, n, jpt_lhs, rhs_builder, jpts_rhs, tag=None, on_result=None):
    """denote every tensor through the Spec, then compare ⟦lhs⟧ with rhs_builder(leaves of the rhs denotations)"""
    got = {}
    need = 1 + len(jpts_rhs)

    def done():
        lhs = leaf(got[0])
        rhs = rhs_builder([leaf(got[i + 1]) for i in range(len(jpts_rhs))])

        def cb(a):
            stream.count('oracle:checked')
            if on_result is not None:
                on_result(a['eq'])
            if not a['eq']:
                v = dict(case)
                if tag:
                    v['class'] = tag
                stream.violate(what, v, {'witness_state': a['state'], 'implementation': a['lhs'], 'spec': a['rhs']})
        orc.ask({'op': 'spec.eq', 'alg': 'fermion', 'n': n, 'd': 0, 'lhs': lhs, 'rhs': rhs}, cb)

    def mk(i):
        def cb(a):
            got[i] = a
            if len(got) == need:
                done()
        return cb
    orc.denote_pt(jpt_lhs, mk(0))
    for i, j in enumerate(jpts_rhs):
        orc.denote_pt(j, mk(i + 1))


# ------------------------------------------------------------------ stream 1: arithmetic

BIN_OPS = ['add', 'sub', 'iadd', 'isub', 'imulT', 'mulT']
SC_OPS = ['mulS', 'rmulS', 'imulS', 'divS', 'idivS', 'addS', 'subS', 'iaddS', 'isubS', 'rsubS', 'neg']


def impl_arith(op, a, b, c):
    """-> (result, object that must be unchanged besides the in-place target)"""
    if op == 'add':
        return a + b
    if op == 'sub':
        return a - b
    if op == 'iadd':
        a += b
        return a
    if op == 'isub':
        a -= b
        return a
    if op == 'imulT':
        a *= b
        return a
    if op == 'mulT':
        return a * b
    if op == 'mulS':
        return a * c
    if op == 'rmulS':
        return c * a
    if op == 'imulS':
        a *= c
        return a
    if op == 'divS':
        return a / c
    if op == 'idivS':
        a /= c
        return a
    if op == 'addS':
        return a + c
    if op == 'subS':
        return a - c
    if op == 'iaddS':
        a += c
        return a
    if op == 'isubS':
        a -= c
        return a
    if op == 'rsubS':
        return c - a
    if op == 'neg':
        return -a
    raise AssertionError(op)


MODEL_F = {'add': 'iadd', 'sub': 'isub', 'iadd': 'iadd', 'isub': 'isub', 'imulT': 'imulT', 'mulT': 'imulT',
           'mulS': 'imulS', 'rmulS': 'imulS', 'imulS': 'imulS', 'divS': 'idivS', 'idivS': 'idivS',
           'addS': 'iaddS', 'subS': 'isubS', 'iaddS': 'iaddS', 'isubS': 'isubS', 'neg': 'neg'}


def f08a_class(op, ja, jb):
    """the input class of finding F08a: subtraction whose subtrahend has a key the minuend lacks"""
    if op not in ('sub', 'isub') or jb is None:
        return False
    ka = {tuple(k) for k, _ in ja['d']}
    return any(tuple(k) not in ka for k, _ in jb['d'])


def check_arith(ctx, stream, orc, cases):
    """cases: list of (op, a, b or None, c or None) of real objects"""
    reqs = []
    metas = []
    for op, a, b, c in cases:
        ja = enc_pt(a)
        jb = enc_pt(b) if b is not None else None
        case = {'op': op, 'a': ja, 'b': jb, 'c': None if c is None else to_gq(c)}
        stream.case(case)
        stream.count('op:' + op)
        a0, b0 = copy.deepcopy(a), copy.deepcopy(b)
        inplace = op.startswith('i')
        try:
            r = impl_arith(op, a, b, c)
            jr = {'ok': enc_pt(r)}
            if inplace and r is not a:
                stream.violate('in-place %s returned a new object' % op, case, {})
        except (TypeError, ValueError, KeyError, IndexError) as e:
            r = None
            jr = {'error': errname(e)}
        except Exception as e:  # unexpected kind on an admissible input
            stream.violate('unexpected exception %s: %s' % (errname(e), e), case, {})
            continue
        # operands other than the in-place target are unchanged
        if b is not None and (b is not a) and canon_pt(enc_pt(b)) != canon_pt(enc_pt(b0)):
            stream.violate('%s changed its right operand' % op, case, {'after': enc_pt(b)})
        if not inplace and canon_pt(enc_pt(a)) != canon_pt(enc_pt(a0)):
            stream.violate('%s changed its left operand' % op, case, {'after': enc_pt(a)})
        # no array sharing between the result and the operand (F08b, repaired by 3dba0378)
        if r is not None and b is not None and b is not a and op in ('add', 'sub', 'iadd', 'isub'):
            try:
                r *= 2.0
                if canon_pt(enc_pt(b)) != canon_pt(enc_pt(b0)):
                    stream.violate('scaling the result of %s changed the right operand (shared array)' % op, case,
                                   {'after': enc_pt(b)})
            except Exception:
                pass
        if op == 'rsubS':
            mreq = None
        else:
            mreq = {'op': 'c08.arith', 'f': MODEL_F[op], 'a': ja}
            if jb is not None:
                mreq['b'] = jb
            if c is not None:
                cc = c
                mreq['c'] = to_gq(cc)
        metas.append((op, case, ja, jb, c, jr, mreq))
        if mreq is not None:
            reqs.append(mreq)
    answers = iter(ctx.driver.run(reqs))
    for op, case, ja, jb, c, jr, mreq in metas:
        known = f08a_class(op, ja, jb)
        mismatch = None
        if mreq is not None:
            m = next(answers)
            if 'ok' in m and not all(tensor_small(t, len(k)) for k, t in m['ok']['d']):
                stream.discards += 1
                continue
            if ('error' in jr) != ('error' in m) or ('error' in jr and jr['error'] != m['error']):
                mismatch = (jr, m)
            elif 'ok' in jr and canon_pt(jr['ok']) != canon_pt(m['ok']):
                mismatch = (jr, m)
        if 'error' in jr:
            stream.count('error:' + jr['error'])
            if mismatch:
                stream.disagree('error kind of ' + op, case, jr, mismatch[1])
            continue
        # Spec oracle on the implementation's result
        n = ja['n']
        jres = jr['ok']
        builder = None
        rhs_pts = [ja] + ([jb] if jb is not None else [])
        one = leaf([[[], [1, 1, 0, 1]]])
        if op in ('add', 'iadd'):
            builder = lambda L: ['add', L[0], L[1]]
        elif op in ('sub', 'isub'):
            builder = lambda L: ['sub', L[0], L[1]]
        elif op in ('mulS', 'rmulS', 'imulS'):
            builder = lambda L, c=c: ['smul', to_gq(c), L[0]]
        elif op in ('divS', 'idivS'):
            builder = lambda L, c=c: ['smul', to_gq(1 / complex(c)), L[0]]
        elif op in ('addS', 'iaddS'):
            builder = lambda L, c=c: ['add', L[0], ['smul', to_gq(c), one]]
        elif op in ('subS', 'isubS'):
            builder = lambda L, c=c: ['sub', L[0], ['smul', to_gq(c), one]]
        elif op == 'rsubS':
            builder = lambda L, c=c: ['sub', ['smul', to_gq(c), one], L[0]]
        elif op == 'neg':
            builder = lambda L: ['smul', [-1, 1, 0, 1], L[0]]
        if builder is None:
            if mismatch:
                stream.disagree('tensors after ' + op, case, jr, mismatch[1])
            continue
        if known:
            stream.count('class:F08a')

            # in the class of the known finding the implementation is judged by the Spec alone:
            # a repaired tree passes silently, the pinned behaviour is reported as the known finding
            def on_result(ok, mismatch=mismatch, case=case, op=op, jr=jr):
                if mismatch and not ok:
                    stream.disagree('tensors after ' + op, case, jr, mismatch[1])
            spec_eq_pt(orc, stream, '%s does not denote the difference of the operands' % op, case, n, jres, builder,
                       rhs_pts, tag='F08a', on_result=on_result)
        else:
            if mismatch:
                stream.disagree('tensors after ' + op, case, jr, mismatch[1])
            spec_eq_pt(orc, stream, '%s does not denote the Spec result' % op, case, n, jres, builder, rhs_pts)


def stream_arith(ctx):
    of = ctx.of
    st = Stream('tensor-arithmetic',
                'PolynomialTensor / InteractionOperator / QuadraticHamiltonian +, -, +=, -=, scalar * / + -, unary -, '
                'elementwise *: all ordered pairs of key sets over {(),(1,0),(0,1),(1,1,0,0),(0,0,1,1)} (n=1) for + and -, '
                'then seeded random pairs (n<=3, 9 key types incl. mixed-action keys, complex dyadic entries, zeros); '
                'result compared exactly with the Model and, through the Spec denotation, as operators on all Fock states; '
                'operands checked for mutation / shared arrays; distinct = distinct (op, operands)')
    orc = Oracle(ctx)
    rng = rng_for(ctx.seed, 'c08-arith')
    cases = []
    # exhaustive key-set combinations
    subsets = []
    for r in range(1, len(KEYS_EXH) + 1):
        for ks in itertools.combinations(KEYS_EXH, r):
            if any(k != () for k in ks):
                subsets.append(list(ks))
    pairs = [(x, y) for x in subsets for y in subsets]
    full = ctx.tier == 'thorough' or ctx.drift
    if not full:
        keep = [p for p in pairs if len(p[0]) + len(p[1]) <= 3]
        pairs = keep + rng.sample(pairs, 150)
    for ka, kb in pairs:
        for op in ('add', 'sub'):
            ka2 = list(ka)
            kb2 = list(kb)
            # () must not be the only leading key: put it last
            ka2.sort(key=lambda k: k == ())
            kb2.sort(key=lambda k: k == ())
            cases.append((op, rand_pt(of, rng, 1, ka2, 0.0), rand_pt(of, rng, 1, kb2, 0.0), None))
    st.exhaustive = False
    nrand = budget(ctx.tier, 600, 6000)
    if ctx.drift:
        nrand = max(nrand, 1500)
    for i in range(nrand):
        n = rng.choice([1, 2, 2, 2, 3])
        pool = KEYS_ALL if n <= 2 else [k for k in KEYS_ALL if len(k) <= 2] + [(1, 1, 0, 0)]
        r = rng.random()
        if r < 0.6:
            op = rng.choice(BIN_OPS)
            ka = rand_keys(rng, pool)
            kb = rand_keys(rng, pool) if rng.random() < 0.7 else list(ka)
            a = rand_pt(of, rng, n, ka)
            nb = n if rng.random() < 0.95 else n + 1
            b = rand_pt(of, rng, nb, kb)
            kind = rng.random()
            if kind < 0.15 and set(ka) >= {(), (1, 0), (1, 1, 0, 0)}:
                a = of.InteractionOperator(a.n_body_tensors[()], a.n_body_tensors[(1, 0)], a.n_body_tensors[(1, 1, 0, 0)])
            if rng.random() < 0.05:
                b = a  # aliasing
            cases.append((op, a, b, None))
        else:
            op = rng.choice(SC_OPS)
            a = rand_pt(of, rng, n, rand_keys(rng, pool))
            if rng.random() < 0.2:
                one = rand_array(rng, n, 2)
                two = rand_array(rng, n, 4) if n <= 2 else numpy.zeros((n,) * 4, complex)
                a = of.InteractionOperator(rand_c(rng), one, two)
            elif rng.random() < 0.15:
                m = rand_array(rng, n, 2)
                anti = rand_array(rng, n, 2)
                a = of.QuadraticHamiltonian(m + m.conj().T, anti - anti.T, rand_c(rng, 0.2, 0.0).real)
            c = None if op == 'neg' else rand_scalar(rng, div=op in ('divS', 'idivS'))
            cases.append((op, a, None, c))
    check_arith(ctx, st, orc, cases)
    orc.flush()
    return st


# ------------------------------------------------------------------ stream 2: __iter__, __getitem__, get_fermion_operator

def stream_iter(ctx):
    of = ctx.of
    st = Stream('tensor-iter-getitem-to-fermion',
                'random PolynomialTensors (n<=3, up to 4 keys incl. mixed-action keys, about half of the entries zero): '
                '__iter__ (set of yielded terms), __getitem__ on yielded and random (also out-of-range / missing-key) '
                'arguments, get_fermion_operator; Spec: the FermionOperator equals the denotation of the arrays; '
                'distinct = distinct tensors')
    orc = Oracle(ctx)
    rng = rng_for(ctx.seed, 'c08-iter')
    N = budget(ctx.tier, 300, 3000)
    if ctx.drift:
        N = max(N, 800)
    objs = []
    reqs = []
    for i in range(N):
        n = rng.choice([1, 2, 2, 3])
        pool = KEYS_ALL if n <= 2 else [k for k in KEYS_ALL if len(k) <= 2] + [(1, 1, 0, 0), (0, 1, 1, 0)]
        a = rand_pt(of, rng, n, rand_keys(rng, pool), zero_p=rng.choice([0.0, 0.5, 0.8]))
        ja = enc_pt(a)
        # getitem arguments
        args = []
        for _ in range(4):
            k = rng.choice(KEYS_ALL)
            hi = n if rng.random() < 0.85 else n + 1
            args.append([[rng.randrange(hi), x] for x in k])
        objs.append((a, ja, args))
        reqs.append({'op': 'c08.iter', 'a': ja})
        reqs.append({'op': 'c08.to_fermion', 'a': ja})
        for g in args:
            reqs.append({'op': 'c08.getitem', 'a': ja, 'args': g})
    ans = iter(ctx.driver.run(reqs))
    for a, ja, args in objs:
        case = {'tensor': ja}
        st.case(case)
        st.count('n:%d' % ja['n'])
        m_iter = next(ans)
        m_fop = next(ans)
        m_get = [next(ans) for _ in args]
        try:
            terms = list(a)
            vals = [a[t] for t in terms]
            fop = of.get_fermion_operator(a)
        except Exception as e:
            st.violate('unexpected exception %s: %s' % (errname(e), e), case, {})
            continue
        i_iter = sorted((tuple(tuple(f) for f in enc_term('fermion', t)), from_gq(to_gq(v))) for t, v in zip(terms, vals))
        mm = sorted((tuple(tuple(f) for f in t), from_gq(g['ok'])) for t, g in m_iter if 'ok' in g)
        if i_iter != mm or len(mm) != len(m_iter):
            st.disagree('__iter__ / __getitem__ on yielded terms', case, show(i_iter), show(m_iter))
        # every yielded term is a non-zero entry or (), and every non-zero entry is yielded exactly once
        seen = set()
        for t in terms:
            if t in seen:
                st.violate('__iter__ yields a term twice', case, {'term': t})
            seen.add(t)
        nz = set()
        for k, v in a.n_body_tensors.items():
            if k == ():
                nz.add(())
                continue
            for idx in itertools.product(range(a.n_qubits), repeat=len(k)):
                if v[idx] != 0:
                    nz.add(tuple(zip(idx, k)))
        if nz != seen:
            st.violate('__iter__ does not yield exactly the non-zero entries', case,
                       {'missing': sorted(nz - seen), 'extra': sorted(seen - nz)})
        jf = enc_op('fermion', fop.terms)
        if canon_op_json(jf) != canon_op_json(m_fop):
            st.disagree('get_fermion_operator(PolynomialTensor)', case, jf, m_fop)
        orc.denote_pt(ja, (lambda jf, case, n: (lambda den: orc.spec_eq(
            st, 'get_fermion_operator(tensor) does not denote the tensor', case, n, leaf(jf), leaf(den))))(jf, case, ja['n']))
        for g, mg in zip(args, m_get):
            targ = tuple((i, x) for i, x in g)
            try:
                v = a[targ]
                r = {'ok': to_gq(v)}
            except (KeyError, IndexError) as e:
                r = {'error': errname(e)}
            except Exception as e:
                st.violate('unexpected exception in __getitem__ %s: %s' % (errname(e), e), case, {'args': g})
                continue
            st.count('getitem:' + ('ok' if 'ok' in r else r['error']))
            if ('ok' in r) != ('ok' in mg) or ('ok' in r and from_gq(r['ok']) != from_gq(mg['ok'])) or \
                    ('error' in r and r['error'] != mg['error']):
                st.disagree('__getitem__', {'tensor': ja, 'args': g}, r, mg)
            if 'ok' in r:
                key = tuple(x for _, x in g)
                idx = tuple(i for i, _ in g)
                direct = a.n_body_tensors[key][idx] if key else a.n_body_tensors[()]
                if from_gq(to_gq(direct)) != from_gq(r['ok']):
                    st.violate('__getitem__ does not return n_body_tensors[key][index]', {'tensor': ja, 'args': g}, r)
    orc.flush()
    return st


# ------------------------------------------------------------------ stream 3: conversions to tensor classes

def respell(rng, term, coeff):
    """another spelling of coeff*term as a dict term -> coeff: swap one adjacent pair using the CAR"""
    term = list(term)
    if len(term) < 2:
        return {tuple(term): coeff}
    j = rng.randrange(len(term) - 1)
    l, r = term[j], term[j + 1]
    out = {}
    swapped = term[:j] + [r, l] + term[j + 2:]
    out[tuple(swapped)] = -coeff
    if l[0] == r[0] and l[1] != r[1]:
        rest = tuple(term[:j] + term[j + 2:])
        out[rest] = out.get(rest, 0) + coeff
    return out


def build_op(of, rng, pieces, spell_p=0.5):
    """FermionOperator from (term, coeff) pieces, some of them respelled"""
    op = of.FermionOperator()
    for t, c in pieces:
        if c == 0:
            continue
        if rng.random() < spell_p:
            for t2, c2 in respell(rng, t, c).items():
                op += of.FermionOperator(t2, c2)
        else:
            op += of.FermionOperator(t, c)
    return op


def is_normal_ordered(jop):
    for t, _ in jop:
        for (i, a), (j, b) in zip(t, t[1:]):
            if a < b:
                return False
            if a == b and i <= j:
                return False
    return True


def stream_conv(ctx):
    of = ctx.of
    st = Stream('conversions-to-tensors',
                'get_interaction_operator / get_quadratic_hamiltonian / get_diagonal_coulomb_hamiltonian on seeded random '
                'FermionOperators (n<=4 modes, complex dyadic coefficients, non-normal-ordered spellings via the CAR, '
                'admissible and inadmissible terms, n_qubits None / larger / smaller, chemical potential, '
                'ignore_incompatible_terms), DiagonalCoulombHamiltonian constructor and * /; tensors compared exactly with '
                'the Model; Spec: docstring denotation of the result equals the input operator on all Fock states; round trip '
                'get_fermion_operator(convert(A)) == normal_ordered(A); distinct = distinct inputs')
    orc = Oracle(ctx)
    rng = rng_for(ctx.seed, 'c08-conv')
    N = budget(ctx.tier, 300, 3000)
    if ctx.drift:
        N = max(N, 800)
    normal_ordered = of.transforms.normal_ordered

    # ---- interaction operator
    items = []
    for i in range(N):
        n = rng.choice([1, 2, 3, 3, 4])
        pieces = []
        kind = rng.random()
        for _ in range(rng.randint(0, 5)):
            L = rng.choice([0, 2, 2, 4, 4])
            pieces.append((rand_fermion_term(rng, n, L), rand_c(rng, 0.0)))
        if kind < 0.12:
            pieces.append((rand_fermion_term(rng, n, rng.choice([2, 4, 6, 1, 3]), conserving=False), rand_c(rng, 0.0)))
        op = build_op(of, rng, pieces)
        nq = None
        r = rng.random()
        if r < 0.2:
            nq = n + rng.randint(0, 2)
        elif r < 0.25:
            nq = max(0, of.count_qubits(op) - 1)
        items.append((op, nq))
    reqs = [{'op': 'c08.get_io', 'A': enc_op('fermion', op.terms), 'n': nq} for op, nq in items]
    reqs += [{'op': 'c08.normal_ordered', 'A': enc_op('fermion', op.terms)} for op, nq in items]
    ans = ctx.driver.run(reqs)
    for k, (op, nq) in enumerate(items):
        jA = enc_op('fermion', op.terms)
        case = {'f': 'get_interaction_operator', 'A': jA, 'n_qubits': nq}
        st.case(case)
        m = ans[k]
        m_no = ans[len(items) + k]
        try:
            no = normal_ordered(op)
            jno = enc_op('fermion', no.terms)
            if canon_op_json(jno) != canon_op_json(m_no):
                st.disagree('normal_ordered(FermionOperator)', case, jno, m_no)
            if not is_normal_ordered(jno):
                st.violate('normal_ordered result is not normal ordered', case, {'result': jno})
            orc.spec_eq(st, 'normal_ordered(A) does not denote A', case, max(support(jA), 1), leaf(jno), leaf(jA))
        except Exception as e:
            st.violate('unexpected exception in normal_ordered %s: %s' % (errname(e), e), case, {})
            continue
        if of.count_qubits(op) == 0 and not nq:
            # numpy.zeros((0, 0)): n_qubits = 0 tensors, not an admissible use
            st.count('io:skipped-empty')
            continue
        try:
            io = of.get_interaction_operator(op, n_qubits=nq)
            r = {'ok': enc_pt(io)}
        except (of.ops.representations.InteractionOperatorError, ValueError, TypeError) as e:
            r = {'error': errname(e)}
        except Exception as e:
            st.violate('unexpected exception %s: %s' % (errname(e), e), case, {})
            continue
        st.count('io:' + ('ok' if 'ok' in r else r['error']))
        if ('ok' in r) != ('ok' in m) or ('error' in r and r['error'] != m['error']) or \
                ('ok' in r and canon_pt(r['ok']) != canon_pt(m['ok'])):
            st.disagree('get_interaction_operator', case, r, m)
        admissible = all(len(t) in (0, 2, 4) and [a for _, a in t] in ([], [1, 0], [1, 1, 0, 0]) for t, _ in jno)
        if 'error' in r:
            if r['error'] == 'InteractionOperatorError' and admissible:
                st.violate('get_interaction_operator rejects a two-body number-conserving operator', case, r)
            continue
        if not admissible:
            st.violate('get_interaction_operator accepts an operator that is not of two-body number-conserving form',
                       case, r)
            continue
        n = r['ok']['n']
        orc.denote_pt(r['ok'], (lambda case, n, jA: (lambda den: orc.spec_eq(
            st, 'get_interaction_operator(A) does not denote A', case, max(n, 1), leaf(den), leaf(jA))))(case, n, jA))
        try:
            back = of.get_fermion_operator(io)
            if canon_op_json(enc_op('fermion', back.terms)) != canon_op_json(jno):
                st.violate('get_fermion_operator(get_interaction_operator(A)) != normal_ordered(A)', case,
                           {'back': enc_op('fermion', back.terms), 'normal_ordered': jno})
        except Exception as e:
            st.violate('unexpected exception in round trip %s: %s' % (errname(e), e), case, {})

    # ---- quadratic hamiltonian
    items = []
    for i in range(N):
        n = rng.choice([1, 2, 3, 3, 4])
        m = rand_array(rng, n, 2, zero_p=0.4)
        herm = m + m.conj().T
        pieces = []
        kind = rng.random()
        for p in range(n):
            for q in range(n):
                pieces.append((((p, 1), (q, 0)), complex(herm[p, q])))
        if kind < 0.6:
            a = rand_array(rng, n, 2, zero_p=0.5)
            anti = a - a.T
            for p in range(n):
                for q in range(n):
                    if anti[p, q] != 0:
                        pieces.append((((p, 1), (q, 1)), 0.5 * complex(anti[p, q])))
                        pieces.append((((q, 0), (p, 0)), 0.5 * complex(anti[p, q]).conjugate()))
        const = rand_c(rng, 0.3, 0.0).real
        pieces.append(((), const))
        bad = None
        if kind > 0.8:
            bad = rng.choice(['nonherm', 'nonherm2', 'quartic', 'missing'])
            if bad == 'nonherm':
                pieces.append((((rng.randrange(n), 1), (rng.randrange(n), 0)), complex(0, rng.choice([1, 0.5, -2]))))
            elif bad == 'nonherm2':
                p, q = rng.randrange(n), rng.randrange(n)
                pieces.append((((p, 1), (q, 1)), rand_c(rng, 0.0)))
                pieces.append((((q, 0), (p, 0)), rand_c(rng, 0.0)))
            elif bad == 'missing':
                pieces.append((((rng.randrange(n), rng.choice([0, 1])),) * 1 + ((rng.randrange(n), 1),), rand_c(rng, 0.0)))
            else:
                pieces.append((rand_fermion_term(rng, n, 4), rand_c(rng, 0.0)))
        op = build_op(of, rng, pieces)
        mu = rng.choice([0.0, 0.0, 0.5, -1.0, 2.0])
        ignore = rng.random() < 0.3
        nq = None if rng.random() < 0.8 else n + rng.randint(0, 1)
        items.append((op, mu, ignore, nq, bad))
    reqs = [{'op': 'c08.get_qh', 'A': enc_op('fermion', op.terms), 'mu': to_gq(mu), 'n': nq, 'ignore': ignore}
            for op, mu, ignore, nq, bad in items]
    ans = ctx.driver.run(reqs)
    for (op, mu, ignore, nq, bad), m in zip(items, ans):
        jA = enc_op('fermion', op.terms)
        case = {'f': 'get_quadratic_hamiltonian', 'A': jA, 'chemical_potential': mu, 'n_qubits': nq,
                'ignore_incompatible_terms': ignore}
        st.case(case)
        if of.count_qubits(op) == 0 and not nq:
            st.count('qh:skipped-empty')
            continue
        try:
            qh = of.get_quadratic_hamiltonian(op, chemical_potential=mu, n_qubits=nq, ignore_incompatible_terms=ignore)
            r = {'ok': enc_pt(qh)}
        except (of.ops.representations.QuadraticHamiltonianError, ValueError, TypeError) as e:
            r = {'error': errname(e)}
        except Exception as e:
            st.violate('unexpected exception %s: %s' % (errname(e), e), case, {})
            continue
        st.count('qh:' + ('ok' if 'ok' in r else r['error']) + (':' + bad if bad else ''))
        if ('ok' in r) != ('ok' in m) or ('error' in r and r['error'] != m['error']) or \
                ('ok' in r and canon_pt(r['ok']) != canon_pt(m['ok'])):
            st.disagree('get_quadratic_hamiltonian', case, r, m)
        if 'error' in r:
            if bad is None and r['error'] == 'QuadraticHamiltonianError':
                st.violate('get_quadratic_hamiltonian rejects a Hermitian quadratic operator', case, r)
            continue
        n = r['ok']['n']
        if from_gq(to_gq(qh.chemical_potential)) != from_gq(to_gq(mu)):
            st.violate('chemical_potential attribute differs from the argument', case, {'got': qh.chemical_potential})
        # docstring denotation: the operator *plus* mu * N is A  <=>  denoteQH(M, Delta, mu, c) = A - mu N ... the
        # conversion keeps A's one-body part as M - mu: so ⟦QH⟧ (with M = hermitian_part) must equal A itself
        quadratic_only = all(len(t) in (0, 2) for t, _ in enc_op('fermion', normal_ordered(op).terms))
        if quadratic_only:
            req = {'op': 'c08.spec_qh', 'n': n, 'M': enc_tensor(qh.hermitian_part), 'D': enc_tensor(qh.antisymmetric_part),
                   'mu': to_gq(qh.chemical_potential), 'c': to_gq(qh.constant)}
            orc.ask(req, (lambda case, n, jA: (lambda den: orc.spec_eq(
                st, 'the docstring denotation of get_quadratic_hamiltonian(A) is not A', case, max(n, 1), leaf(den),
                leaf(jA))))(case, n, jA))
            orc.denote_pt(r['ok'], (lambda case, n, jA: (lambda den: orc.spec_eq(
                st, 'the tensors of get_quadratic_hamiltonian(A) do not denote A', case, max(n, 1), leaf(den),
                leaf(jA))))(case, n, jA))
            try:
                back = of.get_fermion_operator(qh)
                jno = enc_op('fermion', normal_ordered(op).terms)
                if canon_op_json(enc_op('fermion', normal_ordered(back).terms)) != canon_op_json(jno):
                    st.violate('normal_ordered(get_fermion_operator(get_quadratic_hamiltonian(A))) != normal_ordered(A)',
                               case, {'back': enc_op('fermion', back.terms)})
            except Exception as e:
                st.violate('unexpected exception in round trip %s: %s' % (errname(e), e), case, {})
        elif not ignore:
            st.violate('get_quadratic_hamiltonian accepts non-quadratic terms without ignore_incompatible_terms', case, r)

    # ---- diagonal coulomb hamiltonian
    items = []
    for i in range(N):
        n = rng.choice([1, 2, 3, 3, 4])
        m = rand_array(rng, n, 2, zero_p=0.4)
        T = m + m.conj().T
        v = rand_array(rng, n, 2, zero_p=0.3, real=True)
        V = v + v.T
        const = rand_c(rng, 0.3, 0.0).real
        pieces = [((), const)]
        for p in range(n):
            for q in range(n):
                pieces.append((((p, 1), (q, 0)), complex(T[p, q])))
                pieces.append((((p, 1), (p, 0), (q, 1), (q, 0)), float(V[p, q])))
        bad = None
        kind = rng.random()
        if kind > 0.8:
            bad = rng.choice(['nonherm', 'imag', 'offdiag', 'action'])
            if bad == 'nonherm':
                pieces.append((((rng.randrange(n), 1), (rng.randrange(n), 0)), complex(0, rng.choice([1, 0.5, -2]))))
            elif bad == 'imag' and n >= 2:
                p, q = rng.sample(range(n), 2)
                pieces.append((((p, 1), (p, 0), (q, 1), (q, 0)), complex(0, 1)))
            elif bad == 'offdiag':
                pieces.append((rand_fermion_term(rng, n, 4), rand_c(rng, 0.0)))
            else:
                pieces.append((rand_fermion_term(rng, n, rng.choice([1, 2, 3]), conserving=False), rand_c(rng, 0.0)))
        op = build_op(of, rng, pieces)
        ignore = rng.random() < 0.3
        nq = None if rng.random() < 0.8 else n + rng.randint(0, 1)
        items.append((op, ignore, nq, bad, (T, V, const)))
    reqs = [{'op': 'c08.get_dch', 'A': enc_op('fermion', op.terms), 'n': nq, 'ignore': ignore}
            for op, ignore, nq, bad, _ in items]
    ans = ctx.driver.run(reqs)
    follow = []
    for (op, ignore, nq, bad, tvc), m in zip(items, ans):
        jA = enc_op('fermion', op.terms)
        case = {'f': 'get_diagonal_coulomb_hamiltonian', 'A': jA, 'n_qubits': nq, 'ignore_incompatible_terms': ignore}
        st.case(case)
        if of.count_qubits(op) == 0 and not nq:
            st.count('dch:skipped-empty')
            continue
        try:
            h = of.get_diagonal_coulomb_hamiltonian(op, n_qubits=nq, ignore_incompatible_terms=ignore)
            r = {'ok': enc_dch(h)}
        except (ValueError, TypeError) as e:
            r = {'error': errname(e)}
        except Exception as e:
            st.violate('unexpected exception %s: %s' % (errname(e), e), case, {})
            continue
        st.count('dch:' + ('ok' if 'ok' in r else r['error']) + (':' + bad if bad else ''))
        if ('ok' in r) != ('ok' in m) or ('error' in r and r['error'] != m['error']) or \
                ('ok' in r and canon_dch(r['ok']) != canon_dch(m['ok'])):
            st.disagree('get_diagonal_coulomb_hamiltonian', case, r, m)
        if 'error' in r:
            if bad is None:
                st.violate('get_diagonal_coulomb_hamiltonian rejects an operator of diagonal Coulomb form', case, r)
            continue
        jno = enc_op('fermion', normal_ordered(op).terms)
        form_ok = all([a for _, a in t] in ([], [1, 0]) or ([a for _, a in t] == [1, 1, 0, 0] and t[0][0] == t[2][0]
                                                           and t[1][0] == t[3][0]) for t, _ in jno)
        if form_ok:
            jh = r['ok']
            req = {'op': 'c08.spec_dch', 'n': jh['n'], 'T': jh['one'], 'V': jh['two'], 'c': jh['c']}
            orc.ask(req, (lambda case, n, jA: (lambda den: orc.spec_eq(
                st, 'the docstring denotation of get_diagonal_coulomb_hamiltonian(A) is not A', case, max(n, 1), leaf(den),
                leaf(jA))))(case, jh['n'], jA))
            follow.append((h, jh, case))
        elif not ignore:
            st.violate('get_diagonal_coulomb_hamiltonian accepts incompatible terms without ignore_incompatible_terms',
                       case, r)
    # get_fermion_operator(DCH), DCH * and /, constructor
    reqs = []
    metas = []
    for h, jh, case in follow:
        reqs.append({'op': 'c08.dch_to_fermion', 'h': jh})
        c = rand_scalar(rng, div=True)
        c = c.real if isinstance(c, complex) and c.imag == 0 else c
        if isinstance(c, complex):
            c = abs(c.imag)
        f = rng.choice(['mul', 'div'])
        reqs.append({'op': 'c08.dch_arith', 'f': f, 'h': jh, 'c': to_gq(c)})
        metas.append((h, jh, case, f, c))
    ans = iter(ctx.driver.run(reqs))
    for h, jh, case, f, c in metas:
        m_f = next(ans)
        m_a = next(ans)
        try:
            fop = of.get_fermion_operator(h)
            jf = enc_op('fermion', fop.terms)
            if canon_op_json(jf) != canon_op_json(m_f):
                st.disagree('get_fermion_operator(DiagonalCoulombHamiltonian)', case, jf, m_f)
            orc.spec_eq(st, 'get_fermion_operator(get_diagonal_coulomb_hamiltonian(A)) does not denote A', case,
                        max(jh['n'], 1), leaf(jf), leaf(case['A']))
            h2 = h * c if f == 'mul' else h / c
            j2 = enc_dch(h2)
            if canon_dch(j2) != canon_dch(m_a):
                st.disagree('DiagonalCoulombHamiltonian %s scalar' % f, dict(case, c=to_gq(c)), j2, m_a)
            if canon_dch(enc_dch(h)) != canon_dch(jh):
                st.violate('DiagonalCoulombHamiltonian %s changed its operand' % f, case, {})
            req = {'op': 'c08.spec_dch', 'n': j2['n'], 'T': j2['one'], 'V': j2['two'], 'c': j2['c']}
            cc = to_gq(c) if f == 'mul' else to_gq(1 / c)
            orc.ask(req, (lambda case, n, cc: (lambda den: orc.spec_eq(
                st, 'DiagonalCoulombHamiltonian scalar * / does not scale the operator', case, max(n, 1), leaf(den),
                ['smul', cc, leaf(case['A'])])))(case, j2['n'], cc))
        except Exception as e:
            st.violate('unexpected exception %s: %s' % (errname(e), e), case, {})
    # constructor with a non-zero two-body diagonal / asymmetric input
    reqs = []
    metas = []
    for i in range(N // 3):
        n = rng.choice([1, 2, 3])
        m = rand_array(rng, n, 2, zero_p=0.3)
        T = m + m.conj().T
        v = rand_array(rng, n, 2, zero_p=0.2, real=True)
        V = v + v.T
        r = rng.random()
        if r < 0.15 and n >= 2:
            V[0, 1] += 1.0
        elif r < 0.3 and n >= 2:
            T[0, 1] += 1j
            T[1, 0] += 1j
        c = rand_c(rng, 0.3, 0.0).real
        jin = {'n': n, 'one': enc_tensor(T), 'two': enc_tensor(V), 'c': to_gq(c)}
        reqs.append(dict(jin, op='c08.mk_dch'))
        metas.append((T, V, c, jin))
    ans = ctx.driver.run(reqs)
    for (T, V, c, jin), m in zip(metas, ans):
        case = {'f': 'DiagonalCoulombHamiltonian', 'args': jin}
        st.case(case)
        try:
            h = of.DiagonalCoulombHamiltonian(T.copy(), V.copy(), c)
            r = {'ok': enc_dch(h)}
        except ValueError as e:
            r = {'error': errname(e)}
        except Exception as e:
            st.violate('unexpected exception %s: %s' % (errname(e), e), case, {})
            continue
        st.count('dch-init:' + ('ok' if 'ok' in r else r['error']))
        if ('ok' in r) != ('ok' in m) or ('ok' in r and canon_dch(r['ok']) != canon_dch(m['ok'])):
            st.disagree('DiagonalCoulombHamiltonian.__init__', case, r, m)
        if 'ok' in r:
            # moving the diagonal of V into T keeps the operator (n_p n_p = n_p)
            a = {'op': 'c08.spec_dch', 'n': jin['n'], 'T': jin['one'], 'V': jin['two'], 'c': jin['c']}
            b = {'op': 'c08.spec_dch', 'n': jin['n'], 'T': r['ok']['one'], 'V': r['ok']['two'], 'c': r['ok']['c']}
            box = {}

            def mk(key, box=box, case=case, n=jin['n']):
                def cb(den):
                    box[key] = den
                    if len(box) == 2:
                        orc.spec_eq(st, 'DiagonalCoulombHamiltonian.__init__ changed the denoted operator', case, n,
                                    leaf(box['b']), leaf(box['a']))
                return cb
            orc.ask(a, mk('a'))
            orc.ask(b, mk('b'))
    orc.flush()
    return st


def enc_dch(h):
    return {'n': int(h.one_body.shape[0]), 'one': enc_tensor(h.one_body), 'two': enc_tensor(h.two_body),
            'c': to_gq(h.constant)}


def canon_dch(j):
    return (j['n'], canon_tensor(j['one'], 2), canon_tensor(j['two'], 2), from_gq(j['c']))


# ------------------------------------------------------------------ stream 4: Majorana / quadrature conversions

def stream_maj(ctx):
    of = ctx.of
    st = Stream('majorana-quad-boson-conversions',
                'get_majorana_operator (FermionOperator, PolynomialTensor, DiagonalCoulombHamiltonian) and '
                'get_fermion_operator(MajoranaOperator) on random operators (<= 4 modes, terms of length <= 5, repeated '
                'indices), get_quad_operator / get_boson_operator (<= 2 modes, degree <= 3, hbar in {1/2, 2, 8}); compared '
                'exactly with the Model; Spec: both sides denote the same map on all Fock states (Majorana vs fermion '
                'semantics; docstring substitution b = (q + i p)/sqrt(2 hbar) evaluated in the quadrature algebra); '
                'round trips; distinct = distinct inputs')
    orc = Oracle(ctx)
    rng = rng_for(ctx.seed, 'c08-maj')
    N = budget(ctx.tier, 300, 3000)
    if ctx.drift:
        N = max(N, 800)

    def eq2(what, case, n, algL, lhs, algR, rhs):
        def cb(a):
            st.count('oracle:checked')
            if not a['eq']:
                st.violate(what, case, {'witness_state': a['state'], 'implementation': a['lhs'], 'spec': a['rhs']})
        orc.ask({'op': 'c08.spec_eq2', 'algL': algL, 'algR': algR, 'n': n, 'lhs': lhs, 'rhs': rhs}, cb)

    # fermion -> majorana
    items = []
    for i in range(N):
        n = rng.choice([1, 2, 3, 4])
        op = of.FermionOperator()
        for _ in range(rng.randint(0, 4)):
            L = rng.choice([0, 1, 2, 2, 3, 4, 5])
            op += of.FermionOperator(rand_fermion_term(rng, n, L, conserving=False), rand_c(rng, 0.0))
        items.append((n, op))
    ans = ctx.driver.run([{'op': 'c08.fermion_to_maj', 'A': enc_op('fermion', op.terms)} for _, op in items])
    for (n, op), m in zip(items, ans):
        jA = enc_op('fermion', op.terms)
        case = {'f': 'get_majorana_operator', 'A': jA}
        st.case(case)
        try:
            mo = of.get_majorana_operator(op)
        except Exception as e:
            st.violate('unexpected exception %s: %s' % (errname(e), e), case, {})
            continue
        jm = enc_op('majorana', mo.terms)
        if canon_op_json(jm) != canon_op_json(m):
            st.disagree('get_majorana_operator(FermionOperator)', case, jm, m)
        eq2('get_majorana_operator(A) does not denote A', case, n, 'majorana', leaf(jm), 'fermion', leaf(jA))
        try:
            back = of.get_fermion_operator(mo)
            orc.spec_eq(st, 'get_fermion_operator(get_majorana_operator(A)) does not denote A', case, n,
                        leaf(enc_op('fermion', back.terms)), leaf(jA))
        except Exception as e:
            st.violate('unexpected exception in round trip %s: %s' % (errname(e), e), case, {})
    # majorana -> fermion
    items = []
    for i in range(N):
        n = rng.choice([1, 2, 3, 4])
        mo = of.MajoranaOperator()
        for _ in range(rng.randint(0, 4)):
            L = rng.choice([0, 1, 2, 2, 3, 4, 5])
            mo += of.MajoranaOperator(tuple(rng.randrange(2 * n) for _ in range(L)), rand_c(rng, 0.0))
        items.append((n, mo))
    ans = ctx.driver.run([{'op': 'c08.maj_to_fermion', 'M': enc_op('majorana', mo.terms)} for _, mo in items])
    for (n, mo), m in zip(items, ans):
        jM = enc_op('majorana', mo.terms)
        case = {'f': 'get_fermion_operator', 'M': jM}
        st.case(case)
        try:
            fo = of.get_fermion_operator(mo)
        except Exception as e:
            st.violate('unexpected exception %s: %s' % (errname(e), e), case, {})
            continue
        jf = enc_op('fermion', fo.terms)
        if canon_op_json(jf) != canon_op_json(m):
            st.disagree('get_fermion_operator(MajoranaOperator)', case, jf, m)
        eq2('get_fermion_operator(M) does not denote M', case, n, 'fermion', leaf(jf), 'majorana', leaf(jM))
    # tensors -> majorana
    for i in range(N // 4):
        n = rng.choice([1, 2])
        a = rand_pt(of, rng, n, rand_keys(rng, KEYS_ALL[:6]))
        ja = enc_pt(a)
        case = {'f': 'get_majorana_operator', 'tensor': ja}
        st.case(case)
        try:
            mo = of.get_majorana_operator(a)
            jm = enc_op('majorana', mo.terms)
            orc.denote_pt(ja, (lambda case, n, jm: (lambda den: eq2(
                'get_majorana_operator(tensor) does not denote the tensor', case, n, 'majorana', leaf(jm), 'fermion',
                leaf(den))))(case, n, jm))
        except Exception as e:
            st.violate('unexpected exception %s: %s' % (errname(e), e), case, {})

    # quadrature <-> boson
    HB = [(0.5, 1.0, 0.5), (2.0, 0.5, 1.0), (8.0, 0.25, 2.0)]     # hbar, 1/sqrt(2 hbar), sqrt(hbar/2)
    items = []
    for i in range(N):
        hbar, r, r2 = rng.choice(HB)
        n = rng.choice([1, 2])
        kind = rng.choice(['boson', 'quad'])
        C = of.BosonOperator if kind == 'boson' else of.QuadOperator
        acts = [0, 1] if kind == 'boson' else ['q', 'p']
        op = C()
        for _ in range(rng.randint(0, 3)):
            L = rng.choice([0, 1, 1, 2, 2, 3])
            op += C(tuple((rng.randrange(n), rng.choice(acts)) for _ in range(L)), rand_c(rng, 0.0))
        items.append((kind, hbar, r, r2, n, op))
    reqs = []
    for kind, hbar, r, r2, n, op in items:
        if kind == 'boson':
            reqs.append({'op': 'c08.get_quad', 'r': to_gq(r), 'B': enc_op('boson', op.terms)})
        else:
            reqs.append({'op': 'c08.get_boson', 'r': to_gq(r2), 'Q': enc_op('quad', op.terms)})
    ans = ctx.driver.run(reqs)
    for (kind, hbar, r, r2, n, op), m in zip(items, ans):
        jop = enc_op(kind, op.terms)
        case = {'f': 'get_quad_operator' if kind == 'boson' else 'get_boson_operator', 'operator': jop, 'hbar': hbar}
        st.case(case)
        st.count('hbar:%s' % hbar)
        qalg = ['quad', to_gq(hbar)]
        try:
            if kind == 'boson':
                res = of.get_quad_operator(op, hbar=hbar)
                jr = enc_op('quad', res.terms)
                back = of.get_boson_operator(res, hbar=hbar)
                jback = enc_op('boson', back.terms)
            else:
                res = of.get_boson_operator(op, hbar=hbar)
                jr = enc_op('boson', res.terms)
                back = of.get_quad_operator(res, hbar=hbar)
                jback = enc_op('quad', back.terms)
        except Exception as e:
            st.violate('unexpected exception %s: %s' % (errname(e), e), case, {})
            continue
        if canon_op_json(jr) != canon_op_json(m):
            st.disagree(case['f'], case, jr, m)
        # docstring substitution, evaluated independently by the Spec expression evaluator
        rhs = None
        for t, c in jop:
            e = leaf([[[], c]])
            for i_, a_ in t:
                if kind == 'boson':
                    # b = r (q + i p), b† = r (q - i p)
                    sg = [0, 1, 1, 1] if a_ == 0 else [0, 1, -1, 1]
                    g = ['smul', to_gq(r), ['add', leaf([[[[i_, 0]], [1, 1, 0, 1]]]), ['smul', sg, leaf([[[[i_, 1]], [1, 1, 0, 1]]])]]]
                else:
                    # q = r' (b + b†), p = -i r' (b - b†)
                    if a_ == 0:
                        g = ['smul', to_gq(r2), ['add', leaf([[[[i_, 0]], [1, 1, 0, 1]]]), leaf([[[[i_, 1]], [1, 1, 0, 1]]])]]
                    else:
                        g = ['smul', to_gq(complex(0, -r2)), ['sub', leaf([[[[i_, 0]], [1, 1, 0, 1]]]), leaf([[[[i_, 1]], [1, 1, 0, 1]]])]]
                e = ['mul', e, g]
            rhs = e if rhs is None else ['add', rhs, e]
        if rhs is None:
            rhs = leaf([])
        deg = max([len(t) for t, _ in jop] + [0])
        if kind == 'boson':
            orc.spec_eq(st, 'get_quad_operator(B) is not B with b = (q + i p)/sqrt(2 hbar) substituted', case, n,
                        leaf(jr), rhs, alg=qalg, d=3)
            orc.spec_eq(st, 'get_boson_operator(get_quad_operator(B)) does not denote B', case, n, leaf(jback), leaf(jop),
                        alg='boson', d=3)
        else:
            orc.spec_eq(st, 'get_boson_operator(Q) is not Q with q, p expressed by b, b†', case, n, leaf(jr), rhs,
                        alg='boson', d=3)
            orc.spec_eq(st, 'get_quad_operator(get_boson_operator(Q)) does not denote Q', case, n, leaf(jback), leaf(jop),
                        alg=qalg, d=3)
    orc.flush()
    return st


# ------------------------------------------------------------------ stream 5: general_basis_change / rotate_basis

def signed_perm(rng, n, cplx=True):
    p = list(range(n))
    rng.shuffle(p)
    R = numpy.zeros((n, n), complex)
    for i, j in enumerate(p):
        R[i, j] = rng.choice([1, -1, 1j, -1j]) if cplx else rng.choice([1, -1])
    return R


def pyth_unitary(rng, n):
    """unitary with Gaussian-rational entries: signed permutation times (3,4,5) Givens blocks; also the exact value"""
    R = signed_perm(rng, n)
    exact = [[(Fraction(int(R[i, j].real)), Fraction(int(R[i, j].imag))) for j in range(n)] for i in range(n)]
    if n >= 2:
        for _ in range(rng.randint(1, 2)):
            i, j = rng.sample(range(n), 2)
            c, s = rng.choice([(Fraction(3, 5), Fraction(4, 5)), (Fraction(4, 5), Fraction(3, 5)),
                               (Fraction(5, 13), Fraction(12, 13))])
            ph = rng.choice([(Fraction(1), Fraction(0)), (Fraction(0), Fraction(1)), (Fraction(3, 5), Fraction(4, 5))])
            # G = [[c, -s conj(ph)], [s ph, c]] on rows/cols i, j
            G = {(i, i): (c, Fraction(0)), (j, j): (c, Fraction(0)),
                 (i, j): (-s * ph[0], s * ph[1]), (j, i): (s * ph[0], s * ph[1])}
            new = [[exact[a][b] for b in range(n)] for a in range(n)]
            for a in (i, j):
                for b in range(n):
                    accr, acci = Fraction(0), Fraction(0)
                    for k in (i, j):
                        g = G[(a, k)]
                        x = exact[k][b]
                        accr += g[0] * x[0] - g[1] * x[1]
                        acci += g[0] * x[1] + g[1] * x[0]
                    new[a][b] = (accr, acci)
            exact = new
    Rf = numpy.array([[complex(float(x[0]), float(x[1])) for x in row] for row in exact])
    return Rf, [[[x[0].numerator, x[0].denominator, x[1].numerator, x[1].denominator] for x in row] for row in exact]


def hermitian_pt(of, rng, n):
    m = rand_array(rng, n, 2, 0.2)
    one = m + m.conj().T
    d = {(): rand_c(rng, 0.3, 0.0).real, (1, 0): one}
    if n <= 3:
        t = rand_array(rng, n, 4, 0.6)
        d[(1, 1, 0, 0)] = t + numpy.conj(numpy.transpose(t, (3, 2, 1, 0)))
    return of.PolynomialTensor(d)


def stream_rot(ctx):
    of = ctx.of
    from openfermion.ops.representations.polynomial_tensor import general_basis_change
    st = Stream('basis-change',
                'general_basis_change / rotate_basis on random tensors (n<=3, keys of order 1..4 with mixed actions, complex '
                'dyadic entries) with (a) arbitrary dyadic matrices, (b) signed / complex permutation matrices, (c) unitaries '
                'built from (3,4,5)/(5,12,13) Givens blocks with phases (float, compared at 1e-9 with the exact Model value), '
                'spin-orbital enlargement kron(R, 1_2); Spec: the rotated tensor denotes the operator with substituted ladder '
                'operators (exact, classes a/b), successive rotations compose (R1 then R2 = R1 @ R2), spectra of Hermitian '
                'tensors are invariant (eigvalsh of the Spec dense matrices at 1e-9, class c); distinct = distinct (tensor, R)')
    orc = Oracle(ctx)
    rng = rng_for(ctx.seed, 'c08-rot')
    N = budget(ctx.tier, 300, 3000)
    if ctx.drift:
        N = max(N, 800)
    KEYS = [(0,), (1,), (1, 0), (0, 1), (1, 1), (0, 0), (1, 0, 1), (0, 1, 1), (1, 1, 0, 0), (0, 0, 1, 1), (1, 0, 0, 1),
            (0, 1, 0, 1)]
    items = []
    reqs = []
    for i in range(N):
        n = rng.choice([1, 2, 2, 3])
        key = rng.choice(KEYS if n <= 2 else KEYS[:10])
        cls = rng.choice(['a', 'b', 'b', 'c'])
        spin = n == 2 and len(key) <= 2 and rng.random() < 0.2
        nt = 2 * n if spin else n
        T = rand_array(rng, nt, len(key), rng.choice([0.0, 0.5, 0.8]))
        if cls == 'a':
            R = numpy.array([[rand_c(rng, 0.2) for _ in range(n)] for _ in range(n)])
            jR = enc_mat(R)
        elif cls == 'b':
            R = signed_perm(rng, n, cplx=rng.random() < 0.7)
            jR = enc_mat(R)
        else:
            R, jR = pyth_unitary(rng, n)
        items.append((n, nt, key, cls, T, R, jR))
        reqs.append({'op': 'c08.basis_change', 't': enc_tensor(T), 'key': list(key), 'R': jR})
    ans = ctx.driver.run(reqs)
    for (n, nt, key, cls, T, R, jR), m in zip(items, ans):
        jT = enc_tensor(T)
        case = {'f': 'general_basis_change', 'tensor': jT, 'key': list(key), 'R': jR, 'class': 'rot-' + cls}
        st.case(case)
        st.count('class:' + cls)
        st.count('order:%d' % len(key))
        try:
            T2 = general_basis_change(T.copy(), R.copy(), key)
        except Exception as e:
            st.violate('unexpected exception %s: %s' % (errname(e), e), case, {})
            continue
        if cls in ('a', 'b'):
            j2 = enc_tensor(T2)
            if canon_tensor(j2, len(key)) != canon_tensor(m, len(key)):
                st.disagree('general_basis_change', case, j2, m)
        else:
            mf = numpy.array(tensor_floats(m, len(key)))
            st.float_comparisons += 1
            if T2.shape != mf.shape or numpy.max(numpy.abs(T2 - mf)) > 1e-9:
                st.disagree('general_basis_change (1e-9)', case, enc_tensor(T2), m)
        if cls in ('a', 'b') and (nt <= 3 or (nt == 4 and len(key) <= 2)):
            # substitution oracle: Σ_idx T[idx] Π_k (rotated ladder operator idx_k, key_k)
            Rbig = numpy.kron(R, numpy.eye(2)) if nt == 2 * n else R
            jRbig = enc_mat(Rbig)
            lad = {}
            need = [(a, x) for a in range(nt) for x in set(key)]

            def build(lad=lad, T=T, key=key, nt=nt, case=case, T2=T2):
                rhs = None
                for idx in itertools.product(range(nt), repeat=len(key)):
                    if T[idx] == 0:
                        continue
                    e = leaf([[[], to_gq(T[idx])]])
                    for a, x in zip(idx, key):
                        e = ['mul', e, leaf(lad[(a, x)])]
                    rhs = e if rhs is None else ['add', rhs, e]
                if rhs is None:
                    rhs = leaf([])
                jd = {'d': [[list(key), enc_tensor(T2)]]}
                orc.denote_pt(jd, lambda den: orc.spec_eq(
                    st, 'the rotated tensor does not denote the operator with substituted ladder operators', case, nt,
                    leaf(den), rhs))

            def mk(k, lad=lad, need=need, build=build):
                def cb(a):
                    lad[k] = a
                    if len(lad) == len(need):
                        build()
                return cb
            for (a, x) in need:
                orc.ask({'op': 'c08.spec_ladder', 'R': jRbig, 'a': a, 'act': x}, mk((a, x)))
    orc.flush()

    # rotate_basis on whole tensors: composition, constant untouched, spectra
    items = []
    reqs = []
    for i in range(N // 2):
        n = rng.choice([1, 2, 2, 3])
        cls = rng.choice(['b', 'b', 'c'])
        a = hermitian_pt(of, rng, n)
        if cls == 'b':
            R1 = signed_perm(rng, n)
            R2 = signed_perm(rng, n)
            jR1 = enc_mat(R1)
        else:
            R1, jR1 = pyth_unitary(rng, n)
            R2, _ = pyth_unitary(rng, n)
        items.append((n, cls, a, R1, R2, jR1))
        reqs.append({'op': 'c08.rotate', 'a': enc_pt(a), 'R': jR1})
    ans = ctx.driver.run(reqs)
    dense_reqs = []
    for (n, cls, a, R1, R2, jR1), m in zip(items, ans):
        ja = enc_pt(a)
        case = {'f': 'rotate_basis', 'tensor': ja, 'R': jR1, 'class': 'rot-' + cls}
        st.case(case)
        st.count('rotate:' + cls)
        try:
            b = copy.deepcopy(a)
            b.rotate_basis(R1)
            jb = enc_pt(b)
            c2 = copy.deepcopy(b)
            c2.rotate_basis(R2)
            c12 = copy.deepcopy(a)
            c12.rotate_basis(R1 @ R2)
        except Exception as e:
            st.violate('unexpected exception %s: %s' % (errname(e), e), case, {})
            continue
        if cls == 'b':
            if canon_pt(jb) != canon_pt(m):
                st.disagree('rotate_basis', case, jb, m)
            if canon_pt(enc_pt(c2)) != canon_pt(enc_pt(c12)):
                st.violate('rotate_basis(R1) then rotate_basis(R2) differs from rotate_basis(R1 @ R2)', case,
                           {'R2': enc_mat(R2), 'sequential': enc_pt(c2), 'composed': enc_pt(c12)})
        else:
            for k, t in m['d']:
                impl = b.n_body_tensors[tuple(k)]
                mf = numpy.array(tensor_floats(t, len(k)))
                st.float_comparisons += 1
                if numpy.max(numpy.abs(numpy.asarray(impl) - mf)) > 1e-9:
                    st.disagree('rotate_basis (1e-9)', case, jb, m)
                    break
            for k in c2.n_body_tensors:
                st.float_comparisons += 1
                if numpy.max(numpy.abs(numpy.asarray(c2.n_body_tensors[k]) - numpy.asarray(c12.n_body_tensors[k]))) > 1e-9:
                    st.violate('rotate_basis(R1) then rotate_basis(R2) differs from rotate_basis(R1 @ R2) (1e-9)', case,
                               {'R2': enc_mat(R2), 'key': list(k)})
                    break
        # spectra: dense matrices from the Spec for the implementation's arrays
        if n <= 3:
            dense_reqs.append((case, n, ja, jb))
    box = []
    for case, n, ja, jb in dense_reqs:
        def go(case=case, n=n, ja=ja, jb=jb):
            got = {}

            def fin():
                A = numpy.array([[complex(*[float(x) for x in from_gq(c)]) for c in row] for row in got['da']])
                B = numpy.array([[complex(*[float(x) for x in from_gq(c)]) for c in row] for row in got['db']])
                st.float_comparisons += 1
                st.count('spectra:checked')
                if numpy.max(numpy.abs(A - A.conj().T)) > 1e-9 or numpy.max(numpy.abs(B - B.conj().T)) > 1e-9:
                    st.violate('a Hermitian tensor is no longer Hermitian after rotate_basis by a unitary', case, {})
                    return
                ea, eb = numpy.linalg.eigvalsh(A), numpy.linalg.eigvalsh(B)
                if numpy.max(numpy.abs(ea - eb)) > 1e-9:
                    st.violate('rotate_basis by a unitary changed the spectrum', case,
                               {'before': ea.tolist(), 'after': eb.tolist()})

            def dn(key):
                def cb(den):
                    def cb2(mat):
                        got['d' + key] = mat
                        if len(got) == 2:
                            fin()
                    orc.ask({'op': 'c08.spec_dense', 'n': n, 'A': den}, cb2)
                return cb
            orc.denote_pt(ja, dn('a'))
            orc.denote_pt(jb, dn('b'))
        go()
    orc.flush()
    return st


# ------------------------------------------------------------------ entry points

def run(ctx):
    return [stream_arith(ctx), stream_iter(ctx), stream_conv(ctx), stream_maj(ctx), stream_rot(ctx)]


def classify(v):
    """F08a: `a - b` / `a -= b` where b has a key that a lacks (the subtrahend's tensor is stored un-negated)"""
    inp = v.get('input', {})
    if inp.get('class') == 'F08a' and inp.get('op') in ('sub', 'isub') and f08a_class(inp['op'], inp['a'], inp['b']):
        return 'F08a'
    return None


def probe_known(ctx, k):
    if k['id'] != 'F08a':
        return False
    of = ctx.of
    a = of.PolynomialTensor({(1, 0): numpy.array([[1.0]])})
    b = of.PolynomialTensor({(0, 1): numpy.array([[1.0]])})
    r = a - b
    # a - b must denote a†a - a a†: the (0,1) tensor of the result must be -1
    return complex(r.n_body_tensors[(0, 1)][0, 0]) != -1.0
