"""C15 — Trotter simulation circuits.

Streams
  suzuki-recursion   a recording TrotterStep driven through the real simulate_trotter /
                     _perform_trotter_step: leaf times and qubit lists vs the Lean Model
                     (times rel. 1e-12, permutations exact) + Spec oracle on the real log
  product-formula    circuit unitary of simulate_trotter (LINEAR_SWAP_NETWORK, SPLIT_OPERATOR,
                     LOW_RANK; orders 0-2; controlled or not; omit_final_swaps) vs the product of
                     matrix exponentials of the step generators, leaf times from the Lean Model,
                     matrices from Jordan-Wigner ladders of the Lean Spec (scipy expm, 1e-8);
                     LSN generator lists (order, pairs, positions, coefficients) from the Model
  symmetric-step-order  one symmetric step on even and odd registers (4, 5, 6 modes) vs the Model's mirrored
                     generator order; time-reversal symmetry and local error order as Model-independent oracle
  exactness          commuting Hamiltonians: circuit = exp(-iHt) for every order / step count;
                     convergence: error ratios under step doubling (test with generous margins)
"""
import itertools
import math
from fractions import Fraction

import os

# small dense matrices only: BLAS threads cost more than they give and oversubscribe a shared machine
for _v in ('OPENBLAS_NUM_THREADS', 'OMP_NUM_THREADS', 'MKL_NUM_THREADS'):
    os.environ.setdefault(_v, '1')

import numpy as np  # noqa: E402

from common import Stream, budget, rng_for, from_gq
from c14 import Ladders, maxdiff, phase_diff, circuit_unitary, safe, rat

TOL = 1e-8

OPEN_STATEMENTS = [
    'NOT PROVED: the convergence order  ||circuit - exp(-iHt)|| = O(n_steps^-p), p = 1, 2, 4 for order 0, 1, 2 '
    '(Suzuki\'s theorem, real analysis, not in Mathlib).  Proved instead: its algebraic hypotheses (suzuki_condition[_real], '
    'suzuki_palindrome, suzuki_times_sum, lsn_sym_step_mirrored).  The harness only *tests* error ratios under step doubling',
    'exact_when_commuting is proved for an abstract list of pairwise commuting generator matrices (Mathlib matrix exponential) and the '
    'Model leaf times; lsn_commuting_case shows that for diagonal hopping only diagonal generator kinds are emitted with non-zero '
    'coefficient; that matrices of diagonal kinds commute is the Spec-level input',
    'the step emitters (lsn*, so*, lr*, controlled) are proved to be product formulas at the level of generator kinds and total '
    'coefficients (each pair / orbital once, or twice at half time, mirrored; one constant phase generator in controlled steps); that '
    'the Model generator lists are what the real step classes emit is checked operation by operation (stream step-generators: kind, '
    'qubit positions, angle, control), and that a gate is exp(-i angle generator) is the C14 gate correspondence',
    'basis changes (bogoliubov_transform inside SPLIT_OPERATOR / LOW_RANK) are opaque markers in the Model (their telescoping to the '
    'identity in the low-rank step is lr_basis_changes_telescope, the matrices really handed over are recorded by the harness); the operator identity '
    'U n_i U^-1 = orbital number operator is the C14 conjugation oracle, and the unitary of whole circuits is a 1e-8 float comparison',
    'controlled_structure / controlled_phase are about the Model lists and leaf times (total phase exp(-i t constant)); identity on '
    'control 0 and the phase on real circuits: oracle',
    'leaf_time_closed_form gives every leaf time by index, suzuki_power_sums all power sums (hence the multiset) and suzuki_top_power_sum_vanishes '
    'the order-raising cancellation over the reals; the analytic step from these to the error bound remains open',
]
ASSUMPTIONS = [
    'cirq.Circuit.unitary, scipy.linalg.expm, numpy are trusted numerical kernels (abs tol 1e-8 on <= 5 qubits)',
    'uncontrolled circuits are compared with exp(-iHt) up to a global phase (rz gates and the dropped constant); controlled '
    'circuits up to one global phase common to both control sectors (rz on the control qubit)',
    'low_rank_two_body_decomposition (property C17) and diagonalizing_bogoliubov_transform (C12) are inputs of the expected '
    'product formula for LOW_RANK / SPLIT_OPERATOR',
]
TRUSTED = ['C15: convergence-ratio thresholds are a test, not a proof obligation']


def suzuki_ratio(k):
    """the float the code computes: time / (4 - 4 ** (1 / (2 k - 1))) for time = 1"""
    return 1.0 / (4 - 4 ** (1 / (2 * k - 1)))


def ratios_json(order):
    return [[k, rat(Fraction(suzuki_ratio(k)))] for k in range(2, order + 1)]


def frac(j):
    return Fraction(j[0], j[1])


# ------------------------------------------------------------------ recording step

def make_recording(of, perm_kind, log):
    from openfermion.circuits.trotter.trotter_algorithm import TrotterStep, TrotterAlgorithm

    class Rec(TrotterStep):
        def prepare(self, qubits, control_qubit=None):
            log.append(('prepare', list(qubits), control_qubit))
            return ()

        def trotter_step(self, qubits, time, control_qubit=None):
            log.append(('step', list(qubits), time, control_qubit))
            return ()

        def step_qubit_permutation(self, qubits, control_qubit=None):
            if perm_kind == 'reversal':
                return qubits[::-1], control_qubit
            return qubits, control_qubit

        def finish(self, qubits, n_steps, control_qubit=None, omit_final_swaps=False):
            log.append(('finish', list(qubits), n_steps, control_qubit, omit_final_swaps))
            return ()

    class Alg(TrotterAlgorithm):
        supported_types = {of.DiagonalCoulombHamiltonian}

        def symmetric(self, h):
            log.append(('select', 'symmetric'))
            return Rec(h)

        def asymmetric(self, h):
            log.append(('select', 'asymmetric'))
            return Rec(h)

        def controlled_symmetric(self, h):
            log.append(('select', 'controlled_symmetric'))
            return Rec(h)

        def controlled_asymmetric(self, h):
            log.append(('select', 'controlled_asymmetric'))
            return Rec(h)

    return Alg()


def recursion_stream(ctx):
    import cirq
    of = ctx.of
    st = Stream('suzuki-recursion', 'a recording TrotterStep (permutation = reversal / identity) passed through the real '
                'simulate_trotter for orders 0..4, n_steps 1..6, with / without control qubit and omit_final_swaps: every '
                'trotter_step call (time, qubit list, control) and the finish call vs the Lean Model (times rel 1e-12, '
                'qubit lists exact); oracle on the real log: times sum to time/n_steps, palindrome, 5^(order-1) leaves, each '
                'leaf receives the true current qubit order, finish receives the true final order, Suzuki cancellation; '
                'distinct = (perm, order, n_steps, n, time, control, omit)')
    rng = rng_for(ctx.seed, 'c15-rec')
    cases = []
    max_order = budget(ctx.tier, 3, 4)
    if ctx.drift:
        max_order = 4
    for perm in ('reversal', 'identity'):
        for order in range(0, max_order + 1):
            for n_steps in range(1, 7):
                if order >= 3 and n_steps > 3 and ctx.tier == 'quick' and not ctx.drift:
                    continue
                n = rng.randint(1, 5)
                time = rng.choice([1, 2, -1, 3, 5]) / rng.choice([1, 2, 4, 8])
                cases.append((perm, order, n_steps, n, time, rng.random() < 0.5, rng.random() < 0.5))
    reqs = [{'op': 'c15.simulate', 'perm': perm, 'r': ratios_json(order), 'order': order, 'nsteps': n_steps, 'n': n,
             'time': rat(Fraction(time)), 'omit': omit} for (perm, order, n_steps, n, time, ctl, omit) in cases]
    answers = ctx.driver.run(reqs)
    ham = of.DiagonalCoulombHamiltonian(np.zeros((1, 1), dtype=complex), np.zeros((1, 1)))
    for (perm, order, n_steps, n, time, ctl, omit), mo in zip(cases, answers):
        case = {'perm': perm, 'order': order, 'n_steps': n_steps, 'n': n, 'time': time, 'controlled': ctl, 'omit': omit}
        st.case(case)
        st.count('order:%d' % order)
        qubits = [cirq.LineQubit(2 * i + 1) for i in range(n)]
        pos = {q: i for i, q in enumerate(qubits)}
        control = cirq.LineQubit(100) if ctl else None
        log = []
        alg = make_recording(of, perm, log)
        ok, _ = safe(st, 'simulate_trotter(recording step)', case, lambda: list(cirq.flatten_op_tree(
            of.simulate_trotter(qubits, ham, time, n_steps=n_steps, order=order, algorithm=alg,
                                control_qubit=control, omit_final_swaps=omit))))
        if not ok:
            continue
        sel = [e for e in log if e[0] == 'select']
        want_sel = ('controlled_' if ctl else '') + ('asymmetric' if order == 0 else 'symmetric')
        if [s[1] for s in sel] != [want_sel]:
            st.violate('_select_trotter_step chose %r, expected %r' % (sel, want_sel), case, {})
        steps = [e for e in log if e[0] == 'step']
        fin = [e for e in log if e[0] == 'finish']
        prep = [e for e in log if e[0] == 'prepare']
        if len(prep) != 1 or [pos[q] for q in prep[0][1]] != list(range(n)) or prep[0][2] != control:
            st.violate('prepare is not called once with the given qubits / control', case, {})
        # ---- correspondence with the Model
        mleaves = mo['leaves']
        if len(steps) != len(mleaves):
            st.disagree('number of trotter_step calls', case, len(steps), len(mleaves))
        else:
            for i, (s_, ml) in enumerate(zip(steps, mleaves)):
                tm = float(frac(ml[0]))
                st.float_comparisons += 1
                if not abs(s_[2] - tm) <= 1e-12 * max(1.0, abs(tm)):
                    st.disagree('time of leaf call %d' % i, case, s_[2], tm)
                    break
                if [pos[q] for q in s_[1]] != ml[1]:
                    st.disagree('qubit list of leaf call %d' % i, case, [pos[q] for q in s_[1]], ml[1])
                    break
        if len(fin) != 1:
            st.violate('finish is not called exactly once', case, {'calls': len(fin)})
            continue
        if [pos[q] for q in fin[0][1]] != mo['final']:
            st.disagree('qubit list handed to finish', case, [pos[q] for q in fin[0][1]], mo['final'])
        # ---- Spec oracle on the real log
        leaves_per_step = 1 if order == 0 else 5 ** (order - 1)
        if len(steps) != n_steps * leaves_per_step:
            st.violate('number of leaf steps is not n_steps * 5^(order-1)', case, {'got': len(steps)})
            continue
        step_time = time / n_steps
        cur = list(range(n))
        for i, s_ in enumerate(steps):
            if [pos[q] for q in s_[1]] != cur:
                st.violate('leaf call %d does not receive the true current qubit order' % i, case,
                           {'got': [pos[q] for q in s_[1]], 'true': cur})
                break
            if s_[3] != control:
                st.violate('leaf call %d does not receive the control qubit' % i, case, {})
                break
            if perm == 'reversal':
                cur = cur[::-1]
        if [pos[q] for q in fin[0][1]] != cur:
            st.violate('finish does not receive the true final qubit order', case,
                       {'got': [pos[q] for q in fin[0][1]], 'true': cur})
        if fin[0][2] != n_steps or fin[0][3] != control or fin[0][4] != omit:
            st.violate('finish arguments (n_steps, control, omit_final_swaps) not passed through', case, {})
        for k in range(n_steps):
            ts = [s_[2] for s_ in steps[k * leaves_per_step:(k + 1) * leaves_per_step]]
            st.float_comparisons += 2
            if not abs(math.fsum(ts) - step_time) <= 1e-12 * max(1.0, abs(step_time)) * len(ts):
                st.violate('leaf times of outer step %d do not add up to time / n_steps' % k, case,
                           {'sum': math.fsum(ts), 'step_time': step_time})
                break
            if any(abs(a - b) > 1e-12 * max(1.0, abs(a)) for a, b in zip(ts, ts[::-1])):
                st.violate('leaf times of outer step %d are not a palindrome' % k, case, {'times': ts[:10]})
                break
        if order >= 2:
            # Suzuki cancellation 4 s^m + (1 - 4 s)^m = 0 for the top-level ratio, read off the real times
            m = 2 * order - 1
            s_top = math.fsum(s_[2] for s_ in steps[:leaves_per_step // 5]) / step_time
            st.float_comparisons += 1
            if not abs(4 * s_top ** m + (1 - 4 * s_top) ** m) <= 1e-9:
                st.violate('Suzuki cancellation condition fails for the top-level split ratio', case,
                           {'ratio': s_top, 'm': m})
    # the documented errors
    for what, kw, exc in (('negative order', dict(order=-1), ValueError),):
        case = {'error_case': what}
        st.case(case)
        try:
            list(cirq.flatten_op_tree(of.simulate_trotter([cirq.LineQubit(0)], ham, 1.0, **kw)))
            st.violate('no %s raised for %s' % (exc.__name__, what), case, {})
        except exc:
            pass
        except Exception as e:  # noqa: BLE001
            st.violate('%s raised instead of %s for %s' % (type(e).__name__, exc.__name__, what), case, {})
    return st


# ------------------------------------------------------------------ Hamiltonians and references

def rand_dch(of, rng, n, commuting=False, real=False, dense=False):
    T = np.zeros((n, n), dtype=complex)
    for p in range(n):
        T[p, p] = rng.randint(-4, 4) / 4
        for q in range(p):
            if commuting:
                continue
            c = complex(rng.randint(-4, 4) / 4, 0 if real else rng.randint(-4, 4) / 4)
            if dense:
                c = complex(rng.choice([-1, -0.75, -0.5, 0.5, 0.75, 1]), 0 if real else rng.choice([-0.75, -0.25, 0.5, 1]))
            T[p, q], T[q, p] = c, c.conjugate()
    V = np.zeros((n, n))
    for p in range(n):
        for q in range(p):
            V[p, q] = V[q, p] = rng.choice([-1, -0.5, 0.25, 0.75, 1]) if dense else rng.randint(-4, 4) / 4
    if not commuting and n >= 2 and not np.any(T - np.diag(np.diag(T))):
        T[0, 1] = T[1, 0] = 0.5
    const = rng.choice([0.0, 0.75, -1.5])
    return of.DiagonalCoulombHamiltonian(T, V, const)


def eightfold(of, rng, ns, commuting=False):
    from openfermion.chem.molecular_data import spinorb_from_spatial
    h = np.zeros((ns, ns))
    g = np.zeros((ns,) * 4)
    for p in range(ns):
        for q in range(p + 1):
            if commuting and p != q:
                continue
            h[p, q] = h[q, p] = rng.randint(-4, 4) / 4
    for p, q, r_, s_ in itertools.product(range(ns), repeat=4):
        if commuting and not (p == q and r_ == s_):
            continue
        if g[p, q, r_, s_] == 0:
            v = rng.randint(-4, 4) / 8
            for a, b, c, d in [(p, q, r_, s_), (q, p, r_, s_), (p, q, s_, r_), (q, p, s_, r_),
                               (r_, s_, p, q), (s_, r_, p, q), (r_, s_, q, p), (s_, r_, q, p)]:
                g[a, b, c, d] = v
    ofint = np.asarray(g.transpose(0, 2, 3, 1), order='C')
    one, two = spinorb_from_spatial(h, ofint)
    return of.InteractionOperator(rng.choice([0.0, 0.25, -0.5]), one, 0.5 * two)


def one_body_matrix(lad, n, M):
    out = np.zeros((2 ** n, 2 ** n), dtype=complex)
    for p in range(n):
        for q in range(n):
            if M[p, q] != 0:
                out = out + M[p, q] * lad.get(n, p, 1) @ lad.get(n, q, 0)
    return out


def number(lad, n, p):
    return lad.get(n, p, 1) @ lad.get(n, p, 0)


def dch_parts(lad, ham, n):
    """(T, V) many-body matrices of a DiagonalCoulombHamiltonian from the Spec ladders (docstring formula)"""
    T = one_body_matrix(lad, n, ham.one_body)
    V = np.zeros((2 ** n, 2 ** n), dtype=complex)
    for p in range(n):
        for q in range(n):
            if ham.two_body[p, q] != 0:
                V = V + ham.two_body[p, q] * number(lad, n, p) @ number(lad, n, q)
    return T, V


def interaction_matrix(lad, op, n):
    H = one_body_matrix(lad, n, op.one_body_tensor)
    for p, q, r_, s_ in zip(*np.nonzero(op.two_body_tensor)):
        H = H + op.two_body_tensor[p, q, r_, s_] * (lad.get(n, p, 1) @ lad.get(n, q, 1)
                                                     @ lad.get(n, r_, 0) @ lad.get(n, s_, 0))
    return H


def qubit_reversal(n):
    P = np.zeros((2 ** n, 2 ** n))
    for i in range(2 ** n):
        j = int(format(i, '0%db' % n)[::-1], 2) if n else 0
        P[j, i] = 1
    return P


def fermionic_reversal(lad, n):
    """R with R a^_p R^-1 = a^_{n-1-p}, R|vac> = |vac>, from the Spec ladder matrices"""
    R = np.zeros((2 ** n, 2 ** n), dtype=complex)
    vac = np.zeros(2 ** n, dtype=complex)
    vac[0] = 1
    for i in range(2 ** n):
        occ = [j for j in range(n) if (i >> (n - 1 - j)) & 1]
        src, dst = vac, vac
        for p in reversed(occ):
            src = lad.get(n, p, 1) @ src
            dst = lad.get(n, n - 1 - p, 1) @ dst
        R = R + np.outer(dst, src.conj())
    return R


def expm_h(H, tau):
    import scipy.linalg as la
    return la.expm(-1j * tau * H)


class Reference:
    """expected one-leaf unitary S(tau) of an algorithm, exact (no global phase dropped)"""

    def __init__(self, ctx, lad, alg_name, ham, n):
        lr_kwargs = {}
        if isinstance(alg_name, tuple):
            alg_name, lr_kwargs = alg_name
        self.ctx, self.lad, self.alg, self.ham, self.n = ctx, lad, alg_name, ham, n
        of = ctx.of
        if alg_name in ('LSN', 'SO'):
            self.T, self.V = dch_parts(lad, ham, n)
            self.H = self.T + self.V
            self.const = ham.constant
            self.final_perm = 'fermionic' if alg_name == 'LSN' else 'qubit'
        else:
            from openfermion.circuits import low_rank_two_body_decomposition
            self.H = interaction_matrix(lad, ham, n)
            self.const = ham.constant
            ev, obs, corr, _ = low_rank_two_body_decomposition(
                ham.two_body_tensor, truncation_threshold=lr_kwargs.get('truncation_threshold', 1e-8),
                final_rank=lr_kwargs.get('final_rank'), spin_basis=True)
            self.lr_T = one_body_matrix(lad, n, ham.one_body_tensor + corr)
            self.lr_terms = []
            for j in range(len(ev)):
                O = one_body_matrix(lad, n, obs[j])
                self.lr_terms.append(ev[j] * O @ O)
            self.rank = len(ev)
            self.final_perm = 'qubit'
        self.lsn_entries = {}

    def lsn_generators(self, sym):
        if sym not in self.lsn_entries:
            T, V = self.ham.one_body, self.ham.two_body
            n = self.n
            req = {'op': 'c15.lsn', 'sym': sym, 'n': n,
                   'Tre': [[rat(Fraction(float(T[p, q].real))) for q in range(n)] for p in range(n)],
                   'Tim': [[rat(Fraction(float(T[p, q].imag))) for q in range(n)] for p in range(n)],
                   'V': [[rat(Fraction(float(V[p, q]))) for q in range(n)] for p in range(n)]}
            self.lsn_entries[sym] = self.ctx.driver.one(req)
        return self.lsn_entries[sym]

    def leaf(self, tau, sym):
        lad, n = self.lad, self.n
        if self.alg == 'LSN':
            S = np.eye(2 ** n, dtype=complex)
            for kind, p, q, a, c in self.lsn_generators(sym):
                c = float(frac(c))
                if kind == 0:
                    G = lad.get(n, p, 1) @ lad.get(n, q, 0) + lad.get(n, q, 1) @ lad.get(n, p, 0)
                elif kind == 1:
                    G = 1j * (lad.get(n, p, 1) @ lad.get(n, q, 0) - lad.get(n, q, 1) @ lad.get(n, p, 0))
                elif kind == 2:
                    G = number(lad, n, p) @ number(lad, n, q)
                else:
                    G = number(lad, n, p)
                if c != 0:
                    S = expm_h(G, tau * c) @ S
            return S
        if self.alg == 'SO':
            if sym:
                return expm_h(self.T, tau / 2) @ expm_h(self.V, tau) @ expm_h(self.T, tau / 2)
            return expm_h(self.T, tau) @ expm_h(self.V, tau)
        S = expm_h(self.lr_T, tau)
        for term in self.lr_terms:
            S = expm_h(term, tau) @ S
        return S

    def step_reverses(self, sym):
        if self.alg == 'LSN':
            return not sym
        if self.alg == 'SO':
            return True
        return self.rank % 2 == 1

    def reversal_matrix(self):
        return fermionic_reversal(self.lad, self.n) if self.final_perm == 'fermionic' else qubit_reversal(self.n)


def algorithm(of, name):
    from openfermion.circuits import trotter
    if isinstance(name, tuple):
        from openfermion.circuits.trotter.algorithms.low_rank import LowRankTrotterAlgorithm
        return LowRankTrotterAlgorithm(**name[1])
    return {'LSN': trotter.LINEAR_SWAP_NETWORK, 'SO': trotter.SPLIT_OPERATOR, 'LR': trotter.LOW_RANK}[name]


def real_unitary(ctx, st, case, alg_name, ham, n, time, n_steps, order, controlled, omit):
    import cirq
    of = ctx.of
    qubits = cirq.LineQubit.range(n)
    control = cirq.LineQubit(-1) if controlled else None
    order_q = ([control] if controlled else []) + list(qubits)
    return safe(st, 'simulate_trotter', case, lambda: circuit_unitary(
        cirq, of.simulate_trotter(qubits, ham, time, n_steps=n_steps, order=order, algorithm=algorithm(of, alg_name),
                                  control_qubit=control, omit_final_swaps=omit), order_q))


def expected_unitary(ctx, ref, time, n_steps, order, omit):
    """product of the leaf unitaries with the Model's leaf times (+ the documented final reversal)"""
    sym = order >= 1
    req = {'op': 'c15.simulate', 'perm': 'reversal' if ref.step_reverses(sym) else 'identity',
           'r': ratios_json(order), 'order': order, 'nsteps': n_steps, 'n': ref.n,
           'time': rat(Fraction(time)), 'omit': omit}
    cache = ctx.__dict__.setdefault('_c15_sim_cache', {})
    key = repr(req)
    if key not in cache:
        cache[key] = ctx.driver.one(req)
    mo = cache[key]
    E = np.eye(2 ** ref.n, dtype=complex)
    cache = {}
    for tj, _ in mo['leaves']:
        tau = float(frac(tj))
        if tau not in cache:
            cache[tau] = ref.leaf(tau, sym)
        E = cache[tau] @ E
    reversed_at_end = (mo['final'] != list(range(ref.n))) and not mo['finish_swaps']
    return E, len(mo['leaves']), (ref.reversal_matrix() if reversed_at_end else None)


def compare(st, case, what, U, E, const, time, controlled, R=None, tol=TOL):
    """uncontrolled: R E up to a global phase; controlled: (1 x R)(|0><0| x 1 + |1><1| x e^{-i const t} E) up to one
    phase (the final swap networks are not controlled: an omitted reversal shows in both control sectors)"""
    st.float_comparisons += 1
    st.count('oracle:' + what.split(':')[0])
    d = E.shape[0]
    Rm = np.eye(d) if R is None else R
    if controlled:
        full = np.zeros((2 * d, 2 * d), dtype=complex)
        full[:d, :d] = Rm
        full[d:, d:] = np.exp(-1j * const * time) * (Rm @ E)
        dist = phase_diff(U, full)
    else:
        dist = phase_diff(U, Rm @ E)
    if not dist <= tol:
        st.violate(what, case, {'distance_up_to_global_phase': float(dist)})
        return False
    return True


def formula_stream(ctx, lad):
    st = Stream('product-formula', 'cirq unitary of simulate_trotter for LINEAR_SWAP_NETWORK / SPLIT_OPERATOR '
                '(DiagonalCoulombHamiltonians with complex hopping, 2-4 modes) and LOW_RANK (eight-fold symmetric '
                'InteractionOperators, 4 spin orbitals), orders 0-2, n_steps 1-3, controlled or not, omit_final_swaps or not, '
                'vs the product over the Model\'s leaf times of exp(-i tau coeff G) of the step generators (LSN: the Model '
                'generator list; SO / LR: documented split) built from Spec ladder matrices, times the documented final '
                'reversal; abs 1e-8 up to the global phase; distinct = (algorithm, hamiltonian, order, n_steps, flags)')
    rng = rng_for(ctx.seed, 'c15-formula')
    lad.prefetch([1, 2, 3, 4])
    nham = budget(ctx.tier, 2, 6)
    if ctx.drift:
        nham = max(nham, 3)
    todo = []
    for alg in ('LSN', 'SO'):
        for k in range(nham):
            n = rng.choice([2, 3, 3, 4]) if ctx.tier == 'thorough' else rng.choice([2, 3, 3])
            ham = rand_dch(ctx.of, rng, n, real=(k % 3 == 2))
            todo.append((alg, ham, n))
    for k in range(max(1, nham // 2)):
        todo.append(('LR', eightfold(ctx.of, rng, 2), 4))
    for alg, ham, n in todo:
        ok, ref = safe(st, 'building the reference (decompositions of the library)', {'algorithm': alg,
                       'hamiltonian': ham_json(alg, ham)}, lambda: Reference(ctx, lad, alg, ham, n))
        if not ok:
            continue
        orders = [0] if alg == 'LR' else [0, 1, 2]
        for order in orders:
            for n_steps in ([1, 2, 3] if order < 2 else [1, 2]):
                flags = [(False, False), (True, False), (False, True), (True, True)]
                if ctx.tier == 'quick' and not ctx.drift:
                    flags = [flags[0]] + [rng.choice(flags[1:])] + ([flags[2]] if n_steps % 2 else [])
                for controlled, omit in dict.fromkeys(flags):
                    time = rng.choice([0.5, 0.75, -0.5, 1.0])
                    case = {'algorithm': alg, 'n': n, 'order': order, 'n_steps': n_steps, 'time': time,
                            'controlled': controlled, 'omit_final_swaps': omit,
                            'hamiltonian': ham_json(alg, ham)}
                    st.case(case)
                    st.count('alg:%s order:%d' % (alg, order))
                    st.count('controlled' if controlled else 'uncontrolled')
                    ok, U = real_unitary(ctx, st, case, alg, ham, n, time, n_steps, order, controlled, omit)
                    if not ok:
                        continue
                    E, nleaves, R = expected_unitary(ctx, ref, time, n_steps, order, omit)
                    st.count('final:reversed' if R is not None else 'final:identity')
                    compare(st, case, 'formula: circuit = product of exponentials of the step generators (%s)' % alg,
                            U, E, ref.const, time, controlled, R)
    return st


def ham_json(alg, ham):
    if alg == 'LR':
        return {'constant': ham.constant, 'one_body': ham.one_body_tensor,
                'two_body_nonzero': int(np.count_nonzero(ham.two_body_tensor))}
    return {'constant': ham.constant, 'one_body': ham.one_body, 'two_body': ham.two_body}


def symmetric_step_stream(ctx, lad):
    """one symmetric step on even and odd registers: the mirrored order of the second swap network matters only
    for non-commuting terms and shows only when the two networks are compared generator by generator"""
    st = Stream('symmetric-step-order', 'ONE symmetric (order 1) step of LINEAR_SWAP_NETWORK and SPLIT_OPERATOR on registers '
                'of even and odd size (4; with source drift / thorough also 5 and 6 modes), dense non-commuting '
                'DiagonalCoulombHamiltonians, uncontrolled and controlled: circuit unitary vs the product of exponentials in '
                'the mirrored order of the Model generator list lsnSymStep (1e-8); oracle: the one-step unitary is a '
                'palindrome, U(t) U(-t) = 1 (time-reversal symmetry of a symmetric formula), and its error against exp(-iHt) '
                'falls at least 5-fold when t is halved (3rd-order local error: asymptotically 8; a first-order step gives 4); '
                'distinct = (algorithm, n, hamiltonian, controlled)')
    rng = rng_for(ctx.seed, 'c15-symstep')
    big = ctx.tier == 'thorough' or ctx.drift
    sizes = [4, 5, 6] if big else [4]
    lad.prefetch(sizes)
    for n in sizes:
        for alg in ('LSN', 'SO'):
            if alg == 'SO' and n == 6 and ctx.tier != 'thorough':
                continue
            ham = rand_dch(ctx.of, rng, n, dense=True, real=(n == 5))
            ok, ref = safe(st, 'building the reference (decompositions of the library)', {'algorithm': alg,
                           'hamiltonian': ham_json(alg, ham)}, lambda: Reference(ctx, lad, alg, ham, n))
            if not ok:
                continue
            time = 0.5
            for controlled in ((False, True) if n <= 5 else (False,)):
                case = {'algorithm': alg, 'n': n, 'order': 1, 'n_steps': 1, 'time': time, 'controlled': controlled,
                        'hamiltonian': ham_json(alg, ham)}
                st.case(case)
                st.count('alg:%s n:%d' % (alg, n))
                ok, U = real_unitary(ctx, st, case, alg, ham, n, time, 1, 1, controlled, False)
                if not ok:
                    continue
                E, _, R = expected_unitary(ctx, ref, time, 1, 1, False)
                compare(st, case, 'formula: one symmetric step = mirrored product of the Model generator list (%s)' % alg,
                        U, E, ref.const, time, controlled, R)
                if controlled:
                    continue
                # Spec oracle, independent of the Model
                ok, Um = real_unitary(ctx, st, case, alg, ham, n, -time, 1, 1, False, False)
                if ok:
                    st.float_comparisons += 1
                    st.count('oracle:time-reversal')
                    d = phase_diff(U @ Um, np.eye(2 ** n))
                    if not d <= TOL:
                        st.violate('symmetric step is not time-reversal symmetric: U(t) U(-t) != 1 (%s)' % alg, case,
                                   {'distance_up_to_global_phase': float(d)})
                errs = []
                for tt in (0.2, 0.1):
                    ok, Ut = real_unitary(ctx, st, case, alg, ham, n, tt, 1, 1, False, False)
                    if ok:
                        errs.append(phase_diff(Ut, expm_h(ref.H, tt)))
                if len(errs) == 2 and errs[0] >= 1e-7:
                    st.float_comparisons += 1
                    st.count('oracle:local-error-order')
                    if not errs[1] * 5.0 <= errs[0]:
                        st.violate('local error of one symmetric step does not fall 5-fold when the time is halved (%s)'
                                   % alg, case, {'error_t': errs[0], 'error_t_half': errs[1]})
    return st


def exactness_stream(ctx, lad):
    st = Stream('exactness-and-convergence', 'commuting Hamiltonians (diagonal hopping matrix / density-density interaction '
                'operators): circuit = exp(-iHt) (H from Spec ladders) for every algorithm, order 0-3, n_steps 1-3, controlled '
                'variants incl. the phase of the constant, omit_final_swaps = documented reversal; non-commuting: the error '
                'falls under step doubling by at least 1.4 / 2.8 / 9 for order 0 / 1 / 2 (asymptotically 2 / 4 / 16; a test with '
                'generous margins, not a proof); distinct = distinct configurations')
    rng = rng_for(ctx.seed, 'c15-exact')
    lad.prefetch([1, 2, 3, 4])
    reps = budget(ctx.tier, 1, 4)
    for rep in range(reps):
        configs = [('LSN', rand_dch(ctx.of, rng, 3, commuting=True), 3),
                   ('SO', rand_dch(ctx.of, rng, 3, commuting=True), 3),
                   ('LR', eightfold(ctx.of, rng, 2, commuting=True), 4)]
        for alg, ham, n in configs:
            ok, ref = safe(st, 'building the reference (decompositions of the library)', {'algorithm': alg,
                           'hamiltonian': ham_json(alg, ham)}, lambda: Reference(ctx, lad, alg, ham, n))
            if not ok:
                continue
            exact = lambda t: expm_h(ref.H, t)  # noqa: E731
            for order in ([0] if alg == 'LR' else [0, 1, 2, 3]):
                for n_steps in ([1, 2, 3] if order < 3 else [1]):
                    for controlled, omit in ((False, False), (True, False), (False, True), (True, True)):
                        if ctx.tier == 'quick' and not ctx.drift and rng.random() < 0.5 and (controlled or omit):
                            continue
                        time = rng.choice([0.5, 1.25, -0.75])
                        case = {'algorithm': alg, 'commuting': True, 'n': n, 'order': order, 'n_steps': n_steps,
                                'time': time, 'controlled': controlled, 'omit_final_swaps': omit,
                                'hamiltonian': ham_json(alg, ham)}
                        st.case(case)
                        st.count('commuting:%s' % alg)
                        ok, U = real_unitary(ctx, st, case, alg, ham, n, time, n_steps, order, controlled, omit)
                        if not ok:
                            continue
                        E = exact(time)
                        sym = order >= 1
                        odd = (n_steps % 2 == 1) and ref.step_reverses(sym)
                        R = ref.reversal_matrix() if (omit and odd) else None
                        compare(st, case, 'exact: commuting pieces give exp(-iHt) (%s)' % alg, U, E, ref.const, time,
                                controlled, R)
    # convergence under step doubling
    margins = {0: 1.4, 1: 2.8, 2: 9.0}
    for rep in range(reps):
        configs = [('LSN', rand_dch(ctx.of, rng, 3), 3), ('SO', rand_dch(ctx.of, rng, 3), 3),
                   ('LR', eightfold(ctx.of, rng, 2), 4),
                   ('LSN', rand_dch(ctx.of, rng, 4, dense=True), 4), ('SO', rand_dch(ctx.of, rng, 4, dense=True), 4)]
        for alg, ham, n in configs:
            ok, ref = safe(st, 'building the reference (decompositions of the library)', {'algorithm': alg,
                           'hamiltonian': ham_json(alg, ham)}, lambda: Reference(ctx, lad, alg, ham, n))
            if not ok:
                continue
            time = 0.5
            E = expm_h(ref.H, time)
            for order in ([0] if alg == 'LR' else [0, 1, 2]):
                case = {'algorithm': alg, 'convergence': True, 'n': n, 'order': order, 'time': time,
                        'hamiltonian': ham_json(alg, ham)}
                st.case(case)
                st.count('convergence:%s n %d order %d' % (alg, n, order))
                errs = []
                for n_steps in (2, 4):
                    ok, U = real_unitary(ctx, st, case, alg, ham, n, time, n_steps, order, False, False)
                    if not ok:
                        break
                    errs.append(phase_diff(U, E))
                if len(errs) != 2:
                    continue
                st.float_comparisons += 1
                if errs[0] < 1e-7:
                    st.count('convergence:skipped-too-accurate')
                    continue
                if not errs[1] * margins[order] <= errs[0]:
                    st.violate('convergence: error does not fall by the factor expected for order %d under step doubling'
                               % order, case, {'error_n2': errs[0], 'error_n4': errs[1], 'required_ratio': margins[order]})
    return st


# ------------------------------------------------------------------ hardening: asymmetry, bands, state, types

def patterned_dch(of, rng, n, pattern):
    """DiagonalCoulombHamiltonians with structured hopping matrices"""
    T = np.zeros((n, n), dtype=complex)
    V = np.zeros((n, n))
    for p in range(n):
        T[p, p] = rng.choice([-0.75, -0.25, 0.5, 1.0])
    pairs = [(p, q) for p in range(n) for q in range(p)]
    for k, (p, q) in enumerate(pairs):
        if pattern == 'imaginary':
            c = complex(0, rng.choice([-1.0, -0.5, 0.25, 0.75]))
        elif pattern == 'peierls-ring':
            c = complex(0, 0.75) if (p - q == 1 or (p == n - 1 and q == 0)) else 0j
        elif pattern == 'mixed':
            c = [complex(rng.choice([-1, 0.5]), 0), complex(0, rng.choice([-0.75, 0.5])), 0j,
                 complex(rng.choice([-0.5, 1]), rng.choice([-1, 0.25]))][k % 4]
        elif pattern == 'tiny':
            c = [complex(1e-4, 0), complex(0, -1e-5), complex(0.5, 1e-6), complex(1e-6, 0.75)][k % 4]
        else:
            c = complex(rng.choice([-1, 0.5, 0.75]), 0)
        T[p, q], T[q, p] = c, c.conjugate()
        V[p, q] = V[q, p] = (rng.choice([1e-4, -1e-5, 0.5]) if pattern == 'tiny' else rng.choice([-1, -0.5, 0.25, 0.75]))
    return of.DiagonalCoulombHamiltonian(T, V, rng.choice([0.0, 0.75, -1.5]))


def hardening_stream(ctx, lad):
    import cirq
    of = ctx.of
    st = Stream('asymmetry-bands-state-types', '(A) hopping matrices with purely imaginary / purely real / zero / complex '
                'off-diagonal entries (incl. a ring with a pi/2 Peierls phase), (B) entries 1e-4..1e-6 next to O(1) and a '
                'short evolution time: circuit unitary of LINEAR_SWAP_NETWORK and SPLIT_OPERATOR (orders 0 and 1, controlled '
                'or not) vs the product of exponentials of the Model generator lists (1e-8); (S) the Hamiltonian object is '
                'not modified, a second simulate_trotter on the same object gives the same unitary, after an in-place `ham *= 2` '
                'the circuit follows the NEW content; (T) time / n_steps / order as numpy scalars and ints, one_body as float64 / '
                'float32 / complex64 / Fortran arrays, qubits as tuple: result = result for the canonical types '
                '(1e-9; 1e-6 for 32-bit); distinct = distinct cases')
    rng = rng_for(ctx.seed, 'c15-hard')
    big = ctx.tier == 'thorough' or ctx.drift
    lad.prefetch([3, 4])

    def dist(U, V_):
        st.float_comparisons += 1
        return phase_diff(U, V_)

    patterns = ['imaginary', 'peierls-ring', 'mixed', 'tiny', 'real']
    for pattern in patterns:
        for alg in ('LSN', 'SO'):
            n = 4 if (pattern == 'peierls-ring' or (big and pattern in ('imaginary', 'mixed'))) else 3
            ham = patterned_dch(of, rng, n, pattern)
            ok, ref = safe(st, 'building the reference', {'algorithm': alg, 'pattern': pattern},
                           lambda: Reference(ctx, lad, alg, ham, n))
            if not ok:
                continue
            configs = [(0, 1, False), (1, 1, False), (0, 2, True), (1, 1, True)]
            if big:
                configs += [(0, 3, False), (1, 2, True), (2, 1, False)]
            for order, n_steps, controlled in configs:
                time = 0.5 if pattern != 'tiny' else rng.choice([0.5, 1e-3])
                case = {'family': 'A/B', 'pattern': pattern, 'algorithm': alg, 'n': n, 'order': order, 'n_steps': n_steps,
                        'time': time, 'controlled': controlled, 'hamiltonian': ham_json(alg, ham)}
                st.case(case)
                st.count('%s:%s' % (pattern, alg))
                ok, U = real_unitary(ctx, st, case, alg, ham, n, time, n_steps, order, controlled, False)
                if not ok:
                    continue
                E, _, R = expected_unitary(ctx, ref, time, n_steps, order, False)
                compare(st, case, 'formula: circuit = product of exponentials of the step generators (%s hopping, %s)'
                        % (pattern, alg), U, E, ref.const, time, controlled, R)
    # ---- (S) state
    for alg in ('LSN', 'SO', 'LR'):
        n = 3 if alg != 'LR' else 4
        ham = patterned_dch(of, rng, n, 'mixed') if alg != 'LR' else eightfold(of, rng, 2)
        order = 0 if alg == 'LR' else rng.choice([0, 1])
        case = {'family': 'S', 'algorithm': alg, 'order': order, 'hamiltonian': ham_json(alg, ham)}
        st.case(case)
        st.count('S:%s' % alg)

        def arrays(h):
            if alg == 'LR':
                return [np.array(h.one_body_tensor), np.array(h.two_body_tensor), np.array(h.constant)]
            return [np.array(h.one_body), np.array(h.two_body), np.array(h.constant)]
        snap = [a.copy() for a in arrays(ham)]
        ok, U1 = real_unitary(ctx, st, case, alg, ham, n, 0.5, 2, order, False, False)
        if not ok:
            continue
        if any(maxdiff(a, b) != 0 for a, b in zip(arrays(ham), snap)):
            st.violate('S: simulate_trotter modifies the Hamiltonian object', case, {})
        ok, U2 = real_unitary(ctx, st, case, alg, ham, n, 0.5, 2, order, False, False)
        if ok and not dist(U2, U1) <= 1e-12:
            st.violate('S: second simulate_trotter on the same Hamiltonian object differs from the first', case,
                       {'distance': float(phase_diff(U2, U1))})
        if alg != 'LR':
            ham *= 2
            ok, ref = safe(st, 'building the reference', case, lambda: Reference(ctx, lad, alg, ham, n))
            ok2, U3 = real_unitary(ctx, st, case, alg, ham, n, 0.5, 2, order, True, False)
            if ok and ok2:
                E, _, R = expected_unitary(ctx, ref, 0.5, 2, order, False)
                compare(st, case, 'S: after the in-place `ham *= 2` the circuit follows the new Hamiltonian (%s)' % alg,
                        U3, E, ref.const, 0.5, True, R)
    # ---- (S) repeated calls on the same step / algorithm objects, side effects on the qubit lists
    from openfermion.circuits.trotter.algorithms import linear_swap_network as lsn_mod
    from openfermion.circuits.trotter.algorithms import split_operator as so_mod
    from openfermion.circuits.trotter.algorithms import low_rank as lr_mod
    from openfermion.circuits import trotter as trotter_mod
    step_classes = [
        ('LSN', lsn_mod.AsymmetricLinearSwapNetworkTrotterStep, False), ('LSN', lsn_mod.SymmetricLinearSwapNetworkTrotterStep, False),
        ('LSN', lsn_mod.ControlledAsymmetricLinearSwapNetworkTrotterStep, True),
        ('LSN', lsn_mod.ControlledSymmetricLinearSwapNetworkTrotterStep, True),
        ('SO', so_mod.AsymmetricSplitOperatorTrotterStep, False), ('SO', so_mod.SymmetricSplitOperatorTrotterStep, False),
        ('SO', so_mod.ControlledAsymmetricSplitOperatorTrotterStep, True),
        ('SO', so_mod.ControlledSymmetricSplitOperatorTrotterStep, True),
        ('LR', lr_mod.AsymmetricLowRankTrotterStep, False), ('LR', lr_mod.ControlledAsymmetricLowRankTrotterStep, True)]
    for alg, cls, ctl in step_classes:
        n = 3 if alg != 'LR' else 4
        ham = patterned_dch(of, rng, n, 'mixed') if alg != 'LR' else eightfold(of, rng, 2)
        qubits = [cirq.LineQubit(3 * i) for i in range(n)]
        qsnap = list(qubits)
        control = cirq.LineQubit(77) if ctl else None
        case = {'family': 'S', 'step_class': cls.__name__, 'hamiltonian': ham_json(alg, ham)}
        st.case(case)
        st.count('S:step-object')
        try:
            ta, tb = 0.5, -0.25

            def ops_of(stp, t):
                return list(cirq.flatten_op_tree([stp.prepare(qubits, control), stp.trotter_step(qubits, t, control),
                                                  stp.finish(stp.step_qubit_permutation(qubits, control)[0], 1,
                                                             control, False)]))
            stp = cls(ham)
            first_a = ops_of(stp, ta)
            first_b = ops_of(stp, tb)
            again_a = ops_of(stp, ta)
            fresh_a = ops_of(cls(ham), ta)
            fresh_b = ops_of(cls(ham), tb)
            order_q = ([control] if ctl else []) + qubits
            ua, ub = circuit_unitary(cirq, fresh_a, order_q), circuit_unitary(cirq, fresh_b, order_q)
            st.float_comparisons += 3
            if not maxdiff(circuit_unitary(cirq, again_a, order_q), ua) <= 1e-12:
                st.violate('S: repeated trotter_step on the same step object differs from the first call', case, {})
            if not maxdiff(circuit_unitary(cirq, first_a, order_q), ua) <= 1e-12 or \
                    not maxdiff(circuit_unitary(cirq, first_b, order_q), ub) <= 1e-12:
                st.violate('S: trotter_step with a second time on the same step object differs from a fresh step object',
                           case, {})
            if qubits != qsnap:
                st.violate('S: prepare / trotter_step / step_qubit_permutation / finish modify the caller\'s qubit list',
                           case, {'now': [str(q) for q in qubits]})
            for nst in (1, 2):
                for om in (True, False):
                    fl = list(qsnap)
                    list(cirq.flatten_op_tree(stp.finish(fl, nst, control, om)))
                    if fl != qsnap:
                        st.violate('S: finish modifies the qubit list it is given', case,
                                   {'n_steps': nst, 'omit_final_swaps': om})
            pl = list(qsnap)
            list(cirq.flatten_op_tree(stp.prepare(pl, control)))
            list(cirq.flatten_op_tree(stp.trotter_step(pl, ta, control)))
            if pl != qsnap:
                st.violate('S: prepare / trotter_step modify the qubit list they are given', case, {})
            perm_q, perm_c = stp.step_qubit_permutation(qubits, control)
            if perm_q is qubits and list(perm_q) != qsnap:
                st.violate('S: step_qubit_permutation reverses the caller\'s list in place', case, {})
        except Exception as e:  # noqa: BLE001
            st.violate('S: repeated step calls raised %s' % type(e).__name__, case, {'exception': repr(e)[:200]})
    # the module-level algorithm singletons, used for hamiltonian A, then B, then A again; qubit list untouched
    for alg in ('LSN', 'SO', 'LR'):
        n = 3 if alg != 'LR' else 4
        hA = patterned_dch(of, rng, n, 'mixed') if alg != 'LR' else eightfold(of, rng, 2)
        hB = patterned_dch(of, rng, n, 'imaginary') if alg != 'LR' else eightfold(of, rng, 2)
        case = {'family': 'S', 'algorithm_singleton': alg}
        st.case(case)
        st.count('S:algorithm-object')
        order = 0 if alg == 'LR' else 1
        qubits = list(cirq.LineQubit.range(n))
        qsnap = list(qubits)

        def sim(h, omit):
            return circuit_unitary(cirq, of.simulate_trotter(qubits, h, 0.5, n_steps=3, order=order,
                                                             algorithm=algorithm(of, alg), omit_final_swaps=omit), qsnap)
        try:
            u1 = sim(hA, False)
            u1o = sim(hA, True)
            _ = sim(hB, True)
            u3 = sim(hA, False)
            u3o = sim(hA, True)
            st.float_comparisons += 2
            if not (maxdiff(u3, u1) <= 1e-12 and maxdiff(u3o, u1o) <= 1e-12):
                st.violate('S: simulate_trotter with a shared algorithm object depends on earlier calls', case, {})
            if qubits != qsnap:
                st.violate('S: simulate_trotter (finish / omit_final_swaps) modifies the caller\'s qubit list', case, {})
        except Exception as e:  # noqa: BLE001
            st.violate('S: repeated simulate_trotter raised %s' % type(e).__name__, case, {'exception': repr(e)[:200]})
    # ---- (S) the SAME Hamiltonian object used twice around an in-place modification (caches keyed on the object)
    def ops_close(a, b):
        if len(a) != len(b):
            return False
        for x, y in zip(a, b):
            if x == y:
                continue
            if x.qubits != y.qubits or type(x.gate) is not type(y.gate):
                return False
            if not cirq.approx_eq(x, y, atol=1e-12):
                return False
        return True

    def fresh_copy(h):
        if isinstance(h, of.DiagonalCoulombHamiltonian):
            return of.DiagonalCoulombHamiltonian(np.array(h.one_body, dtype=complex).copy(),
                                                 np.array(h.two_body, dtype=np.float64).copy(), h.constant)
        return of.InteractionOperator(h.constant, np.array(h.one_body_tensor).copy(), np.array(h.two_body_tensor).copy())

    def mutate(h, kind):
        if isinstance(h, of.DiagonalCoulombHamiltonian):
            n_ = h.one_body.shape[0]
            if kind == 0:
                h.one_body[1, 1] += 0.375
                h.one_body[0, n_ - 1] += 0.25 + 0.5j
                h.one_body[n_ - 1, 0] += 0.25 - 0.5j
            elif kind == 1:
                h.two_body[0, 1] += 0.625
                h.two_body[1, 0] += 0.625
                h.constant += 0.5
            else:
                h *= 1.5
        else:
            if kind == 0:
                for sp in (0, 1):
                    h.one_body_tensor[2 * 1 + sp, 2 * 1 + sp] += 0.375     # spatial orbital 1, both spins
                h.constant += 0.5
            elif kind == 1:
                h.two_body_tensor *= 0.5
            else:
                h += eightfold(of, rng, 2)

    same_cases = [('LSN', 'dch'), ('SO', 'dch'), (None, 'dch'), ('LR', 'io'), (None, 'io')]
    for alg, hk in same_cases:
        for kind in (0, 1, 2):
            n = 3 if hk == 'dch' else 4
            H = patterned_dch(of, rng, n, 'mixed') if hk == 'dch' else eightfold(of, rng, 2)
            orders = [0] if hk == 'io' else [rng.choice([0, 1])]
            qubits = list(cirq.LineQubit.range(n))
            control = cirq.LineQubit(-1)
            algo = None if alg is None else algorithm(of, alg)
            aobj = algo if algo is not None else (algorithm(of, 'LSN') if hk == 'dch' else algorithm(of, 'LR'))
            case = {'family': 'S', 'same_object': True, 'algorithm': alg or 'default', 'hamiltonian': hk, 'mutation': kind}
            st.case(case)
            st.count('S:same-object-mutated')
            try:
                for order in orders:
                    def circ(h, ctl):
                        return list(cirq.flatten_op_tree(of.simulate_trotter(
                            qubits, h, 0.5, n_steps=2, order=order, algorithm=algo,
                            control_qubit=control if ctl else None)))

                    def steps(h):
                        out = []
                        for getter, ctl in (('asymmetric', False), ('symmetric', False), ('controlled_asymmetric', True),
                                            ('controlled_symmetric', True)):
                            stp = getattr(aobj, getter)(h)
                            if stp is not None:
                                out.append((getter, list(cirq.flatten_op_tree(
                                    stp.trotter_step(qubits, 0.25, control if ctl else None)))))
                        return out
                    before = {ctl: circ(H, ctl) for ctl in (False, True)}
                    steps_before = steps(H)
                    mutate(H, kind)
                    F = fresh_copy(H)
                    for ctl in (False, True):
                        oq = ([control] if ctl else []) + qubits
                        again, fresh = circ(H, ctl), circ(F, ctl)
                        st.float_comparisons += 2
                        if not ops_close(again, fresh):
                            st.violate('S: simulate_trotter on an in-place modified Hamiltonian object differs gate by gate '
                                       'from a freshly constructed Hamiltonian with the same values', dict(case, controlled=ctl),
                                       {'n_ops': [len(again), len(fresh)]})
                        ua, uf = circuit_unitary(cirq, again, oq), circuit_unitary(cirq, fresh, oq)
                        if not maxdiff(ua, uf) <= 1e-10:
                            st.violate('S: simulate_trotter on an in-place modified Hamiltonian object: unitary differs from '
                                       'that of a freshly constructed Hamiltonian with the same values', dict(case, controlled=ctl),
                                       {'max_abs_difference': maxdiff(ua, uf)})
                        if maxdiff(circuit_unitary(cirq, before[ctl], oq), uf) <= 1e-9:
                            st.count('S:mutation-without-effect')
                    for (g1, o1), (g2, o2) in zip(steps(H), steps(F)):
                        if not ops_close(o1, o2):
                            st.violate('S: step object requested again after an in-place modification of the Hamiltonian '
                                       'differs from the step of a fresh Hamiltonian (%s)' % g1, case, {})
                    del steps_before
            except Exception as e:  # noqa: BLE001
                st.violate('S: same-object simulate_trotter raised %s' % type(e).__name__, case, {'exception': repr(e)[:200]})
    # ---- (T) integer and other dtypes of InteractionOperator tensors (LOW_RANK)
    hI = eightfold(of, rng, 2)
    one_i, two_i = np.round(hI.one_body_tensor * 8), np.round(hI.two_body_tensor * 16)
    q4 = cirq.LineQubit.range(4)

    def run_lr(one, two, const):
        h = of.InteractionOperator(const, one, two)
        return circuit_unitary(cirq, of.simulate_trotter(q4, h, 0.03125, n_steps=2, order=0,
                                                         algorithm=trotter_mod.LOW_RANK), list(q4))
    ok, canon_lr = safe(st, 'simulate_trotter LOW_RANK (float64 tensors)', {'family': 'T'},
                        lambda: run_lr(one_i.astype(np.float64), two_i.astype(np.float64), 1.0))
    if ok:
        for tn, dt, tol in (('int64', np.int64, TOL), ('int32', np.int32, TOL), ('float32', np.float32, 1e-5),
                            ('complex128', np.complex128, TOL), ('complex64', np.complex64, 1e-5)):
            case = {'family': 'T', 'algorithm': 'LR', 'variant': 'InteractionOperator tensors ' + tn}
            st.case(case)
            st.count('T:interaction-tensor-dtype')
            ok, U = safe(st, 'T: simulate_trotter LOW_RANK (%s tensors)' % tn, case,
                         lambda: run_lr(one_i.astype(dt), two_i.astype(dt), 1))
            if ok and not dist(U, canon_lr) <= tol:
                st.violate('T: simulate_trotter LOW_RANK with %s tensors differs from float64 tensors' % tn, case,
                           {'distance_up_to_global_phase': float(phase_diff(U, canon_lr))})
        case = {'family': 'T', 'algorithm': 'LR', 'variant': 'Fortran-ordered tensors'}
        st.case(case)
        ok, U = safe(st, 'T: simulate_trotter LOW_RANK (Fortran tensors)', case, lambda: run_lr(
            np.asfortranarray(one_i.astype(np.float64)), np.asfortranarray(two_i.astype(np.float64)), 1.0))
        if ok and not dist(U, canon_lr) <= TOL:
            st.violate('T: simulate_trotter LOW_RANK with Fortran-ordered tensors differs', case, {})
    # ---- (T) types
    n = 3
    q3 = cirq.LineQubit.range(n)
    base = patterned_dch(of, rng, n, 'mixed')
    Treal = patterned_dch(of, rng, n, 'real')

    def run(alg, one_body, two_body, const, time=0.5, n_steps=2, order=1, qubits=q3):
        h = of.DiagonalCoulombHamiltonian(one_body, np.array(two_body, dtype=np.float64), const)
        return circuit_unitary(cirq, of.simulate_trotter(qubits, h, time, n_steps=n_steps, order=order,
                                                         algorithm=algorithm(of, alg)), list(q3))
    ctlq = cirq.LineQubit(-1)

    def run2(alg, one_body, two_body, const, order, ctl, time=0.5, n_steps=2, qubits=q3):
        h = of.DiagonalCoulombHamiltonian(one_body, np.array(two_body, dtype=np.float64), const)
        oq = ([ctlq] if ctl else []) + list(q3)
        return circuit_unitary(cirq, of.simulate_trotter(qubits, h, time, n_steps=n_steps, order=order,
                                                         algorithm=algorithm(of, alg),
                                                         control_qubit=ctlq if ctl else None), oq)
    # dtypes of DiagonalCoulombHamiltonian.one_body accepted by the unmodified tree (probed when the check was built):
    # LINEAR_SWAP_NETWORK: complex64, clongdouble, float32, longdouble, float16, Fortran order; SPLIT_OPERATOR: complex64,
    # float32 (eigh in single precision: 1e-6), Fortran order; two_body must be float64 (constructor).  All generated
    # values are multiples of 1/4, exactly representable in every one of these types.
    dtype_variants = {
        'LSN': [('complex64', lambda M: M.astype(np.complex64), False, 1e-10),
                ('clongdouble', lambda M: M.astype(np.clongdouble), False, 1e-10),
                ('complex128 Fortran', lambda M: np.asfortranarray(M.copy()), False, 1e-10),
                ('float32', lambda M: M.real.astype(np.float32), True, 1e-10),
                ('longdouble', lambda M: M.real.astype(np.longdouble), True, 1e-10),
                ('float16', lambda M: M.real.astype(np.float16), True, 1e-10)],
        # single-precision one_body: numpy.linalg.eigh and the Givens decomposition of its eigenvectors run in
        # single precision (eps = 6e-8); angles near 0 / pi lose half the digits (arccos), so the circuit agrees with
        # the double-precision one to about sqrt(eps) = 2.4e-4 only — compared at 5e-3 (a dropped or altered
        # entry of the given magnitudes, multiples of 1/4, changes the unitary by >= 1e-1)
        'SO': [('complex64', lambda M: M.astype(np.complex64), False, 5e-3),
               ('complex128 Fortran', lambda M: np.asfortranarray(M.copy()), False, 1e-10),
               ('float32', lambda M: M.real.astype(np.float32), True, 5e-3)],
    }
    for alg in ('LSN', 'SO'):
        for tn, conv, real_only, tol in dtype_variants[alg]:
            src = Treal if real_only else base
            if not real_only and not np.any(np.abs(src.one_body.imag) > 0):
                src.one_body[0, 1] += 0.5j
                src.one_body[1, 0] -= 0.5j
            for order in (0, 1, 2):
                for ctl in (False, True):
                    case = {'family': 'T', 'algorithm': alg, 'variant': 'one_body ' + tn, 'order': order, 'controlled': ctl,
                            'hamiltonian': ham_json(alg, src)}
                    st.case(case)
                    st.count('T:one_body-dtype')
                    ok, want = safe(st, 'T: simulate_trotter (complex128 one_body)', case, lambda: run2(
                        alg, np.array(src.one_body, dtype=complex), src.two_body, src.constant, order, ctl))
                    if not ok:
                        continue
                    ok, U = safe(st, 'T: simulate_trotter (one_body %s)' % tn, case, lambda: run2(
                        alg, conv(np.array(src.one_body)), src.two_body, src.constant, order, ctl))
                    st.float_comparisons += 1
                    if ok and not maxdiff(U, want) <= tol:
                        st.violate('T: simulate_trotter with a %s one_body differs from the same values as complex128 (%s)'
                                   % (tn, alg), case, {'max_abs_difference': maxdiff(U, want)})
    for alg in ('LSN', 'SO'):
        canon = run(alg, base.one_body.copy(), base.two_body, base.constant)
        canon_t1 = run(alg, base.one_body.copy(), base.two_body, base.constant, time=1.0)
        variants = [
            ('two_body Fortran order', lambda: run(alg, base.one_body.copy(), np.asfortranarray(base.two_body),
                                                   base.constant), canon, TOL),
            ('constant int', lambda: run(alg, base.one_body.copy(), base.two_body, 1), canon, TOL),
            ('time int', lambda: run(alg, base.one_body.copy(), base.two_body, base.constant, time=1), canon_t1, TOL),
            ('time numpy.int64', lambda: run(alg, base.one_body.copy(), base.two_body, base.constant, time=np.int64(1)),
             canon_t1, TOL),
            ('time numpy.float64', lambda: run(alg, base.one_body.copy(), base.two_body, base.constant,
                                               time=np.float64(0.5)), canon, TOL),
            ('time numpy.float32', lambda: run(alg, base.one_body.copy(), base.two_body, base.constant,
                                               time=np.float32(0.5)), canon, TOL),
            ('n_steps numpy.int64', lambda: run(alg, base.one_body.copy(), base.two_body, base.constant,
                                                n_steps=np.int64(2)), canon, TOL),
            ('n_steps numpy.int32', lambda: run(alg, base.one_body.copy(), base.two_body, base.constant,
                                                n_steps=np.int32(2)), canon, TOL),
            ('order numpy.int64', lambda: run(alg, base.one_body.copy(), base.two_body, base.constant,
                                              order=np.int64(1)), canon, TOL),
            ('qubits tuple', lambda: run(alg, base.one_body.copy(), base.two_body, base.constant, qubits=tuple(q3)),
             canon, TOL),
        ]
        for tn, f, want, tol in variants:
            case = {'family': 'T', 'algorithm': alg, 'variant': tn}
            st.case(case)
            st.count('T:%s' % tn.split()[0])
            ok, U = safe(st, 'T: simulate_trotter (%s)' % tn, case, f)
            if ok and not dist(U, want) <= tol:
                st.violate('T: simulate_trotter with %s differs from the canonical types (%s)' % (tn, alg), case,
                           {'distance_up_to_global_phase': float(phase_diff(U, want))})
    return st


# ------------------------------------------------------------------ generator lists vs the emitted operations

def parse_step_ops(cirq, of, ops, pos, control, time):
    """real operations of one trotter_step -> [(kind, position of the first system qubit, coefficient)] for the
    generator gates; swaps are counted; everything else (basis changes) is returned as 'other'"""
    out, nswaps, other, bad = [], 0, 0, []
    for op in ops:
        g, qs = op.gate, list(op.qubits)
        ctl = False
        if isinstance(g, cirq.ControlledGate):
            if qs[0] != control:
                bad.append('controlled gate not controlled on the control qubit: %s' % (op,))
            g, qs, ctl = g.sub_gate, qs[1:], True
        if g == of.FSWAP or g == cirq.SWAP:
            nswaps += 1
        elif isinstance(g, cirq.ISwapPowGate):
            out.append((0, pos[qs[0]], (-g.exponent * math.pi / 2) / time, ctl))
        elif isinstance(g, cirq.PhasedISwapPowGate) and control is not None and ctl or \
                (isinstance(g, cirq.PhasedISwapPowGate) and control is None):
            out.append((1, pos[qs[0]], (g.exponent * math.pi / 2) / time, ctl))
        elif isinstance(g, cirq.CCZPowGate):
            if qs[0] != control:
                bad.append('CCZ not on the control qubit: %s' % (op,))
            out.append((2, pos[qs[1]], (-g.exponent * math.pi) / time, True))
        elif isinstance(g, cirq.CZPowGate):
            if control is not None and control in qs:
                q = [x for x in qs if x != control][0]
                out.append(('diag', pos[q], (-g.exponent * math.pi) / time, True))
            else:
                out.append((2, pos[qs[0]], (-g.exponent * math.pi) / time, False))
        elif isinstance(g, cirq.Rz):
            if control is not None and qs[0] == control:
                out.append((4, 0, (-g.exponent * math.pi) / time, True))
            else:
                out.append(('diag', pos[qs[0]], (-g.exponent * math.pi) / time, False))
        else:
            other += 1
    return out, nswaps, other, bad


def ops_stream(ctx):
    import cirq
    of = ctx.of
    from openfermion.circuits.trotter.algorithms import linear_swap_network as lsn
    from openfermion.circuits.trotter.algorithms import split_operator as so
    from openfermion.circuits.trotter.algorithms import low_rank as lr
    st = Stream('step-generators', 'ONE trotter_step of every step class (linear swap network: asymmetric / symmetric / controlled; '
                'split operator: asymmetric / symmetric / controlled; low rank: asymmetric / controlled), operation by operation: gate '
                'kind, position of the qubits, rotation angle / time and (controlled variants) the control qubit of every emitted '
                'gate vs the generator list of the Lean Model (lsnAsymStep, lsnSymStep, …Controlled, soAsymStep, soSymStep, lrStep: '
                'kind, position, coefficient; exact up to 1e-12); for split operator / low rank the density-density network and, in the '
                'controlled variants, the orbital-energy gates are compared, the basis changes only counted; distinct = distinct cases')
    rng = rng_for(ctx.seed, 'c15-ops')
    big = ctx.tier == 'thorough' or ctx.drift
    pending = []     # (request, continuation): the Model is asked once, in one batch, at the end

    def ask(req, cont):
        pending.append((req, cont))

    def cmp_entries(case, real, model, what):
        st.float_comparisons += len(real)
        if len(real) != len(model):
            st.disagree('%s: number of generator gates' % what, case, len(real), len(model))
            return
        for i, (r_, m) in enumerate(zip(real, model)):
            kind_ok = r_[0] == m[0] or (r_[0] == 'diag' and m[0] in (3, 5))
            if not kind_ok or r_[1] != m[3] or not abs(r_[2] - float(frac(m[4]))) <= 1e-12 * max(1.0, abs(r_[2])):
                st.disagree('%s: gate %d (kind, position, coefficient)' % (what, i), case, list(r_[:3]),
                            [m[0], m[3], float(frac(m[4]))])
                return

    def ratm(M, f=lambda x: x):
        return [[rat(Fraction(float(f(M[p, q])))) for q in range(M.shape[1])] for p in range(M.shape[0])]

    sizes = [2, 3, 4, 5] if not big else [1, 2, 3, 4, 5, 6]
    for n in sizes:
        for pattern, narrow in (('mixed', None), ('imaginary', None), ('real', None), ('mixed', np.complex64),
                                ('imaginary', np.clongdouble), ('real', np.float32)):
            ham = patterned_dch(of, rng, n, pattern)
            if narrow is not None:
                # same (dyadic) values in a narrower / wider dtype; SPLIT_OPERATOR needs a LAPACK dtype
                ob = ham.one_body.real if narrow is np.float32 else ham.one_body
                ham = of.DiagonalCoulombHamiltonian(ob.astype(narrow), ham.two_body.copy(), ham.constant)
            time = rng.choice([0.5, -0.75, 1.0])
            qubits = [cirq.LineQubit(2 * i) for i in range(n)]
            pos = {q: i for i, q in enumerate(qubits)}
            control = cirq.LineQubit(99)
            T, V = ham.one_body, ham.two_body
            base = {'n': n, 'Tre': ratm(T, lambda x: x.real), 'Tim': ratm(T, lambda x: x.imag), 'V': ratm(V),
                    'const': rat(Fraction(float(ham.constant)))}
            for kind, cls, ctl in (('lsn-asym', lsn.AsymmetricLinearSwapNetworkTrotterStep, False),
                                   ('lsn-sym', lsn.SymmetricLinearSwapNetworkTrotterStep, False),
                                   ('lsn-asym-controlled', lsn.ControlledAsymmetricLinearSwapNetworkTrotterStep, True),
                                   ('lsn-sym-controlled', lsn.ControlledSymmetricLinearSwapNetworkTrotterStep, True)):
                case = {'step': kind, 'n': n, 'pattern': pattern, 'time': time, 'hamiltonian': ham_json('LSN', ham),
                        'one_body_dtype': str(ham.one_body.dtype)}
                st.case(case)
                st.count('step:' + kind)
                ok, ops = safe(st, '%s.trotter_step' % kind, case, lambda: list(cirq.flatten_op_tree(
                    cls(ham).trotter_step(qubits, time, control if ctl else None))))
                if not ok:
                    continue
                real, nswaps, other, bad = parse_step_ops(cirq, of, ops, pos, control if ctl else None, time)
                for b in bad:
                    st.violate('controlled step: ' + b[:120], case, {})
                if ctl and not all(r_[3] for r_ in real):
                    st.violate('controlled step emits an uncontrolled generator gate', case, {})
                if other:
                    st.violate('linear swap network step emits an unexpected gate', case, {'count': other})
                nets = 1 if 'asym' in kind else 2
                if nswaps != nets * n * (n - 1) // 2:
                    st.violate('number of FSWAPs in the step', case, {'got': nswaps})
                ask(dict(base, op='c15.step', kind=kind),
                    lambda model, case=case, real=real, kind=kind: cmp_entries(case, real, model, kind))
            # split operator
            if narrow is np.clongdouble:
                continue   # numpy.linalg has no extended-precision eigh: rejected by the unmodified tree
            for kind, cls, ctl in (('so-asym', so.AsymmetricSplitOperatorTrotterStep, False),
                                   ('so-sym', so.SymmetricSplitOperatorTrotterStep, False),
                                   ('so-asym', so.ControlledAsymmetricSplitOperatorTrotterStep, True),
                                   ('so-sym', so.ControlledSymmetricSplitOperatorTrotterStep, True)):
                case = {'step': kind + ('-controlled' if ctl else ''), 'n': n, 'pattern': pattern, 'time': time,
                        'hamiltonian': ham_json('SO', ham)}
                st.case(case)
                st.count('step:' + case['step'])
                ok, res = safe(st, '%s.trotter_step' % case['step'], case, lambda: (lambda stp: (stp, list(
                    cirq.flatten_op_tree(stp.trotter_step(qubits, time, control if ctl else None)))))(cls(ham)))
                if not ok:
                    continue
                stp, ops = res
                real, nswaps, other, bad = parse_step_ops(cirq, of, ops, pos, control if ctl else None, time)
                for b in bad:
                    st.violate('controlled step: ' + b[:120], case, {})
                if nswaps != n * (n - 1) // 2:
                    st.violate('number of SWAPs in the step', case, {'got': nswaps})
                def cont(model, case=case, real=real, ctl=ctl, ham=ham):
                    if ctl:
                        real_c = [r_ for r_ in real if r_[0] == 2 or (r_[0] == 'diag' and r_[3])]
                        model_c = [m for m in model if m[0] in (2, 5)]
                        if not all(r_[3] for r_ in real_c):
                            st.violate('controlled step emits an uncontrolled generator gate', case, {})
                        const = [r_ for r_ in real if r_[0] == 4]
                        if len(const) != 1 or abs(const[0][2] - ham.constant) > 1e-12 or real[-1][0] != 4:
                            st.violate('controlled step: phase of the constant term', case, {'got': [c[2] for c in const]})
                        cmp_entries(case, real_c, model_c, case['step'])
                    else:
                        cmp_entries(case, [r_ for r_ in real if r_[0] == 2], [m for m in model if m[0] == 2], case['step'])
                ask({'op': 'c15.step', 'kind': kind, 'n': n, 'V': ratm(V),
                     'E': [rat(Fraction(float(x))) for x in stp.orbital_energies]}, cont)
    # low rank
    for rep in range(budget(ctx.tier, 2, 5)):
        ham = eightfold(of, rng, 2)
        n = 4
        time = rng.choice([0.5, -0.25])
        qubits = [cirq.LineQubit(2 * i) for i in range(n)]
        pos = {q: i for i, q in enumerate(qubits)}
        control = cirq.LineQubit(99)
        for cls, ctl in ((lr.AsymmetricLowRankTrotterStep, False), (lr.ControlledAsymmetricLowRankTrotterStep, True)):
            case = {'step': 'lr' + ('-controlled' if ctl else ''), 'n': n, 'time': time, 'hamiltonian': ham_json('LR', ham)}
            st.case(case)
            st.count('step:' + case['step'])
            ok, res = safe(st, '%s.trotter_step' % case['step'], case, lambda: (lambda stp: (stp, list(
                cirq.flatten_op_tree(stp.trotter_step(qubits, time, control if ctl else None)))))(cls(ham)))
            if not ok:
                continue
            stp, ops = res
            cs = [np.asarray(m) for m in stp.scaled_density_density_matrices]
            # basis-change bookkeeping (theorem lr_basis_changes_telescope): record the matrices and qubit lists handed to
            # bogoliubov_transform by the real trotter_step
            recorded = []
            orig_bt = lr.bogoliubov_transform

            def spy(qs_, M, *a, **k):
                recorded.append(([pos[q] for q in qs_], np.array(M)))
                return orig_bt(qs_, M, *a, **k)
            lr.bogoliubov_transform = spy
            try:
                list(cirq.flatten_op_tree(stp.trotter_step(qubits, time, control if ctl else None)))
            finally:
                lr.bogoliubov_transform = orig_bt
            W1 = np.asarray(stp.one_body_basis_change_matrix)
            Bs = [np.asarray(b) for b in stp.basis_change_matrices]
            expect = [W1.T.conj()]
            prior = W1
            for B in Bs:
                expect.append(prior @ B.T.conj())
                prior = B
            expect.append(prior)
            st.float_comparisons += 2
            if len(recorded) != len(expect) or any(maxdiff(r_[1], e_) > 1e-12 for r_, e_ in zip(recorded, expect)):
                st.disagree('low rank step: matrices handed to bogoliubov_transform (W^-1, prior B_j^-1, ..., B_J)', case,
                            len(recorded), len(expect))
            else:
                prod = np.eye(n, dtype=complex)
                for _, M in recorded:
                    prod = prod @ M
                if not maxdiff(prod, np.eye(n)) <= 1e-9:
                    st.violate('low rank step: the basis changes do not multiply to the identity', case,
                               {'max_abs_difference': maxdiff(prod, np.eye(n))})
                want_q = [list(range(n)) if (j_ == 0 or (j_ - 1) % 2 == 0) else list(range(n))[::-1]
                          for j_ in range(len(recorded))]
                # qubit orientation: call 0 and 1 before any reversal, call j >= 1 after j-1 reversals
                if [r_[0] for r_ in recorded] != want_q:
                    st.disagree('low rank step: qubit lists handed to bogoliubov_transform', case,
                                [r_[0] for r_ in recorded], want_q)
            real, nswaps, other, bad = parse_step_ops(cirq, of, ops, pos, control if ctl else None, time)
            for b in bad:
                st.violate('controlled step: ' + b[:120], case, {})
            if nswaps != len(cs) * n * (n - 1) // 2:
                st.violate('number of SWAPs in the step', case, {'got': nswaps})
            mo = ctx.driver.one({'op': 'c15.step', 'kind': 'lr', 'n': n, 'cs': [ratm(c) for c in cs],
                                 'E': [rat(Fraction(float(x))) for x in stp.one_body_energies]})
            perm = stp.step_qubit_permutation(list(qubits), control if ctl else None)[0]
            if (list(perm) == list(qubits)[::-1]) != (mo['reverses'] and n > 1):
                st.disagree('step_qubit_permutation of the low rank step', case, [pos[q] for q in perm], mo['reverses'])
            if ctl:
                real_c = [r_ for r_ in real if r_[0] == 2 or (r_[0] == 'diag' and r_[3])]
                model_c = [m for m in mo['entries'] if m[0] in (2, 3, 5)]
                if not all(r_[3] for r_ in real_c):
                    st.violate('controlled step emits an uncontrolled generator gate', case, {})
                cmp_entries(case, real_c, model_c, case['step'])
            else:
                cmp_entries(case, [r_ for r_ in real if r_[0] == 2], [m for m in mo['entries'] if m[0] == 2], case['step'])
    for (req, cont), ans in zip(pending, ctx.driver.run([r_ for r_, _ in pending])):
        cont(ans)
    return st


def lowrank_degenerate_stream(ctx, lad):
    """LOW_RANK on Hamiltonians whose decomposition retains vanishing singular components"""
    import cirq
    of = ctx.of
    st = Stream('low-rank-degenerate', 'LOW_RANK (uncontrolled and controlled) on InteractionOperators whose low-rank decomposition '
                'keeps vanishing components or is truncated: identically zero two-body tensor (one zero component is always kept), '
                'LowRankTrotterAlgorithm(final_rank = k) for k below / at / above the true rank, truncation_threshold variants; '
                'n_steps 1, 2, 3, omit_final_swaps False / True, control qubit yes / no: circuit unitary vs the product of '
                'exponentials of the RETAINED components (Spec ladders, leaf bookkeeping and final qubit order from the Lean Model '
                'with the retained component count), exact exp(-iHt) where nothing is truncated and the pieces commute, error ratio '
                'under step doubling where nothing is truncated; step-level: gates of one trotter_step vs the Model lrStep; '
                'distinct = distinct configurations')
    rng = rng_for(ctx.seed, 'c15-lrdeg')
    lad.prefetch([4])
    from openfermion.circuits.trotter.algorithms import low_rank as lr
    base = eightfold(of, rng, 2)
    # final_rank = 3 must not exceed the true rank of the chemist matrix of `base` (see the exclusion below): redraw until
    # the three leading singular components are well away from zero (seed 24 of a multi-seed sweep drew a rank-2 tensor)
    for _ in range(200):
        lam = lr.low_rank_two_body_decomposition(base.two_body_tensor, truncation_threshold=1e-12, spin_basis=True)[0] \
            if hasattr(lr, 'low_rank_two_body_decomposition') else None
        if lam is None:
            from openfermion.circuits import low_rank_two_body_decomposition as _lrd
            lam = _lrd(base.two_body_tensor, truncation_threshold=1e-12, spin_basis=True)[0]
        mags = sorted((abs(x) for x in lam), reverse=True)
        if len(mags) >= 3 and mags[2] > 1e-2:
            break
        st.count('redrawn: generic tensor of rank < 3')
        base = eightfold(of, rng, 2)
    zero2 = of.InteractionOperator(0.25, np.array(base.one_body_tensor).copy(), np.zeros_like(base.two_body_tensor))
    diag1 = of.InteractionOperator(-0.5, np.diag(np.diag(np.array(base.one_body_tensor))).copy(),
                                   np.zeros_like(base.two_body_tensor))
    # excluded because the unmodified tree rejects them (probed when the check was built): final_rank above the true rank of the
    # two-body tensor — also for the zero tensor with final_rank >= 2 — raises ValueError('one_body_matrix is not Hermitian') in
    # prepare_one_body_squared_evolution (the null components come out as arbitrary, non-Hermitian mixtures), final_rank above
    # n_orbitals^2 raises IndexError, spin_basis=False raises ValueError for spin-orbital tensors
    configs = [('zero two-body', zero2, {}, True), ('zero two-body', zero2, {'final_rank': 1}, True),
               ('zero two-body', zero2, {'truncation_threshold': 0.5}, True),
               ('zero two-body, diagonal one-body', diag1, {}, True),
               ('generic', base, {'final_rank': 3}, True), ('generic', base, {'truncation_threshold': 100.0}, False), ('generic', base, {'final_rank': 2}, False),
               ('generic', base, {'final_rank': 1}, False), ('generic', base, {'truncation_threshold': 0.5}, False),
               ('generic', base, {'truncation_threshold': 1e-12}, True)]
    n = 4
    for name, ham, kw, untruncated in configs:
        algn = ('LR', kw)
        ok, ref = safe(st, 'building the reference (decompositions of the library)',
                       {'hamiltonian': name, 'algorithm_args': kw}, lambda: Reference(ctx, lad, algn, ham, n))
        if not ok:
            continue
        st.count('components:%d' % ref.rank)
        for n_steps in (1, 2, 3):
            for controlled, omit in ((False, False), (False, True), (True, False), (True, True)):
                if ctx.tier == 'quick' and not ctx.drift and n_steps == 2 and controlled and omit:
                    continue
                time = rng.choice([0.5, -0.25])
                case = {'hamiltonian': name, 'algorithm_args': kw, 'components': ref.rank, 'n_steps': n_steps, 'time': time,
                        'controlled': controlled, 'omit_final_swaps': omit}
                st.case(case)
                ok, U = real_unitary(ctx, st, case, algn, ham, n, time, n_steps, 0, controlled, omit)
                if not ok:
                    continue
                E, _, R = expected_unitary(ctx, ref, time, n_steps, 0, omit)
                st.count('final:reversed' if R is not None else 'final:identity')
                compare(st, case, 'formula: LOW_RANK circuit = product of exponentials of the retained components, final '
                        'qubit order as documented', U, E, ref.const, time, controlled, R)
                if untruncated and name.startswith('zero'):
                    compare(st, case, 'exact: zero two-body tensor gives exp(-iHt)', U, expm_h(ref.H, time), ref.const, time,
                            controlled, R)
        if untruncated and name == 'generic':
            errs = []
            for n_steps in (2, 4):
                ok, U = real_unitary(ctx, st, {'hamiltonian': name, 'algorithm_args': kw}, algn, ham, n, 0.5, n_steps, 0,
                                     False, False)
                if ok:
                    errs.append(phase_diff(U, expm_h(ref.H, 0.5)))
            st.float_comparisons += 1
            if len(errs) == 2 and errs[0] >= 1e-7 and not errs[1] * 1.4 <= errs[0]:
                st.violate('convergence: LOW_RANK with vanishing retained components does not converge at first order',
                           {'hamiltonian': name, 'algorithm_args': kw}, {'error_n2': errs[0], 'error_n4': errs[1]})
        # one trotter_step, gate by gate, against the Model (density-density network of every retained component)
        qubits = [cirq.LineQubit(2 * i) for i in range(n)]
        pos = {q: i for i, q in enumerate(qubits)}
        control = cirq.LineQubit(99)
        for cls, ctl in ((lr.AsymmetricLowRankTrotterStep, False), (lr.ControlledAsymmetricLowRankTrotterStep, True)):
            case = {'hamiltonian': name, 'algorithm_args': kw, 'step': cls.__name__}
            st.case(case)
            tstep = 0.5
            ok, res = safe(st, '%s.trotter_step' % cls.__name__, case, lambda: (lambda stp: (stp, list(cirq.flatten_op_tree(
                stp.trotter_step(qubits, tstep, control if ctl else None)))))(
                cls(ham, kw.get('truncation_threshold', 1e-8), kw.get('final_rank'), True)))
            if not ok:
                continue
            stp, ops = res
            cs = [np.asarray(m) for m in stp.scaled_density_density_matrices]
            if len(cs) != ref.rank:
                st.violate('step object keeps %d components, the decomposition %d' % (len(cs), ref.rank), case, {})
                continue
            real, nswaps, other, bad = parse_step_ops(cirq, of, ops, pos, control if ctl else None, tstep)
            if nswaps != len(cs) * n * (n - 1) // 2:
                st.violate('number of SWAPs in the step', case, {'got': nswaps, 'components': len(cs)})
            mo = ctx.driver.one({'op': 'c15.step', 'kind': 'lr', 'n': n,
                                 'cs': [[[rat(Fraction(float(c[p, q]))) for q in range(n)] for p in range(n)] for c in cs],
                                 'E': [rat(Fraction(float(x))) for x in stp.one_body_energies]})
            perm = stp.step_qubit_permutation(list(qubits), control if ctl else None)[0]
            if (list(perm) == list(qubits)[::-1]) != bool(mo['reverses']):
                st.disagree('step_qubit_permutation vs the parity of the retained component count', case,
                            [pos[q] for q in perm], mo['reverses'])
            r2 = [r_ for r_ in real if r_[0] == 2]
            m2 = [m for m in mo['entries'] if m[0] == 2]
            st.float_comparisons += len(r2)
            if len(r2) != len(m2) or any(a[1] != b[3] or abs(a[2] - float(frac(b[4]))) > 1e-12 for a, b in zip(r2, m2)):
                st.disagree('density-density network of the step vs the Model lrStep', case, len(r2), len(m2))
            # finish: swaps back exactly when n_steps and the component count are both odd and swaps are not omitted
            for nst in (1, 2):
                for om in (False, True):
                    fin = list(cirq.flatten_op_tree(stp.finish(list(qubits), nst, control if ctl else None, om)))
                    want = (nst % 2 == 1) and (len(cs) % 2 == 1) and not om
                    if bool(fin) != want:
                        st.violate('finish: swap network present iff n_steps odd, component count odd, swaps not omitted', case,
                                   {'n_steps': nst, 'omit_final_swaps': om, 'components': len(cs), 'n_ops': len(fin)})
    return st


def run(ctx):
    lad = Ladders(ctx.driver)
    return [recursion_stream(ctx), formula_stream(ctx, lad), symmetric_step_stream(ctx, lad), exactness_stream(ctx, lad),
            hardening_stream(ctx, lad), ops_stream(ctx), lowrank_degenerate_stream(ctx, lad)]
