"""C17 — chemistry reductions: low rank, spin-orbital expansion, active space, RDMs.

Streams
  chemist   : get_chemist_two_body_coefficients on exact dyadic tensors: Model exact + Spec (shared spec.eq,
              fermion algebra): sum h a+a+aa == sum g a+a a+a (spin summed) + sum corr a+a.
  lowrank   : low_rank_two_body_decomposition on random exact eight-fold symmetric integrals, all ranks and
              several thresholds: full-rank reconstruction against an independently built dense operator
              (1e-9); truncation logic against the Model on the implementation's own weights; Spec: reported
              truncation value == discarded weight, <= threshold, rank minimal.
              prepare_one_body_squared_evolution: (sum h a+a)^2 == sum V n^b n^b with b = R a (dense, 1e-9).
  integrals : spinorb_from_spatial / get_tensors_from_integrals / get_active_space_integrals /
              MolecularData.get_molecular_hamiltonian for all occupied/active partitions: Model exact + Spec:
              matrix elements between all states with core filled / virtuals empty equal those of the full
              Hamiltonian (independent dense construction, exact), agreement with freeze_orbitals.
  rdm       : N-particle states with rational amplitudes on <= 4 spin orbitals: every RDM map, get_interaction_rdm,
              InteractionRDM.expectation (InteractionOperator and QubitOperator) against the Model (1e-9) and
              against directly computed expectation values <psi| . |psi> (oracle).
"""
import itertools
from fractions import Fraction as F

import os
for _v in ('OMP_NUM_THREADS', 'OPENBLAS_NUM_THREADS', 'MKL_NUM_THREADS'):
    os.environ.setdefault(_v, '2')   # small matrices only: BLAS threading is pure overhead here
import numpy as np  # noqa: E402

from common import Stream, budget, rng_for, to_gq, from_gq, show

TOL = 1e-9

TRUSTED = [
    'C17: numpy.linalg.eigh / argsort inside low_rank_two_body_decomposition and prepare_one_body_squared_evolution are '
    'trusted kernels (the Model receives the term weights in the order the implementation sorted them)',
    'C17: numpy dense linear algebra of the oracles (kron, matrix products, vdot)',
]
ASSUMPTIONS = [
    'index-container stream: the set of (function, container) combinations accepted by the unmodified tree is hard-coded '
    '(active_indices / unoccupied as set and freeze_orbitals(occupied=None) are rejected there and not generated)',
    'band entries of the integrals are dyadic values 6e-5 .. 1.2e-7 (more than a decade above EQ_TOLERANCE = 1e-8); float32 inputs of '
    'the robust stream: tolerance 1e-5',
    'integrals are real dyadic rationals (float arithmetic exact); states have rational amplitudes; float comparisons at 1e-9 '
    '(scaled by the total weight for truncation values); thresholds are placed away from the error values by a margin',
]
OPEN_STATEMENTS = [
    'low_rank_reconstruct / one_body_squares_identity / chemist_reorder_identity: PROVED as operator theorems in any algebra with '
    'the CAR over any commutative coefficient ring, with the eigendecomposition contract of numpy.linalg.eigh + reshape as the '
    'hypothesis h_pqrs = sum_l lambda_l g^l_ps g^l_qr (low_rank_reconstruct, one_body_squares_identity, '
    'low_rank_truncation_error_is_discarded_squares), plus the truncation list arithmetic (value == discarded weight, <= threshold, '
    'minimal rank) for all weight lists.  Not proved: that eigh satisfies its contract (numpy is a parameter; oracle: dense '
    'reconstruction).',
    'active_space_sound (sector matrix elements) and agreement with freeze_orbitals: oracle only.  Proved: index arithmetic of '
    'spinorb_from_spatial (which blocks are filled, bijection with (p,q,r,s,sigma,tau)), trivial-partition identity.',
    'Proved at operator level in any algebra with the CAR: chemist_reorder_identity (summed over all indices with arbitrary '
    'coefficients), contraction_identity_summed (sum_r a+_p a+_r a_r a_q = a+_p a_q (N-hat - 1), = (N-1) a+_p a_q on an '
    'N-particle vector), expectation_is_bilinear_pairing (phi(H) = c + sum D o1 + sum Gamma o2 for every linear functional), the '
    'term identities behind the particle-hole and two-hole maps, inverse pairs, and agreement of the two routes to the 1-hole-RDM. '
    'two_hole_map_correct / particle_hole_map_correct: the formulas of map_two_pdm_to_two_hole_dm / ..._particle_hole_dm hold for '
    'the RDMs of every linear functional, and the bridge model_*_is_* : the Model entry functions the driver executes (over GQ, '
    'a commutative ring) applied to the RDMs of any GQ-linear functional on any GQ-algebra with the CAR return its 2-hole / '
    'particle-hole RDM, contracted 1-RDM and expectation value; model_chemist_entries_are_chemist_reordering bridges chemEntry '
    '(spin_basis=False) with its spatial one-body correction.  Not formalised: the spin-orbital form of the bridge (spin_basis=True '
    'block extraction and corrEntry on 2n spin orbitals; covered by spec.eq), N-representability of inputs.',
]

# ----------------------------------------------------------------------------- dense reference algebra

_LADDER = {}


def ladder(n):
    if n not in _LADDER:
        Zm = np.diag([1.0, -1.0])
        I2 = np.eye(2)
        A = np.array([[0, 1], [0, 0]], dtype=complex)
        ops = []
        for j in range(n):
            m = np.array([[1.0 + 0j]])
            for k in range(n):
                m = np.kron(m, Zm if k < j else A if k == j else I2)
            ops.append(m)
        _LADDER[n] = (ops, [x.conj().T for x in ops])
    return _LADDER[n]


_E1 = {}


def e1(n):
    """E1[q, r] = a+_q a_r as an array (n, n, 2^n, 2^n)"""
    if n not in _E1:
        a, ad = ladder(n)
        _E1[n] = np.array([[ad[q] @ a[r] for r in range(n)] for q in range(n)])
    return _E1[n]


def dense_one(h1):
    h1 = np.asarray(h1)
    n = h1.shape[0]
    return np.tensordot(h1.astype(complex), e1(n), axes=([0, 1], [0, 1]))


def dense_two(h2):
    """sum h2[p,q,r,s] a+_p a+_q a_r a_s"""
    h2 = np.asarray(h2)
    n = h2.shape[0]
    a, ad = ladder(n)
    E = e1(n)
    H = np.zeros((2 ** n, 2 ** n), dtype=complex)
    for p in range(n):
        for s in range(n):
            blk = h2[p, :, :, s]
            if blk.any():
                H += ad[p] @ np.tensordot(blk.astype(complex), E, axes=([0, 1], [0, 1])) @ a[s]
    return H


def molecular_dense(const, one, two):
    """const + sum_{pq,s} one[p,q] a+_{ps} a_{qs} + 1/2 sum_{pqrs,st} two[p,q,r,s] a+_{ps} a+_{qt} a_{rt} a_{ss}
    (spatial integrals, spin orbital 2p+s) — the definition of the molecular Hamiltonian"""
    one = np.asarray(one)
    two = np.asarray(two)
    n = one.shape[0]
    o = np.zeros((2 * n, 2 * n))
    t = np.zeros((2 * n,) * 4)
    for sg in range(2):
        o[sg::2, sg::2] = one
        for tt in range(2):
            # [2p+sg, 2q+tt, 2r+tt, 2s+sg]
            t[sg::2, tt::2, tt::2, sg::2] = 0.5 * two
    return const * np.eye(4 ** n, dtype=complex) + dense_one(o) + dense_two(t)


def err(x):
    x = np.asarray(x)
    return float(np.abs(x).max()) if x.size else 0.0


# ----------------------------------------------------------------------------- generators


BAND = [2.0 ** -14, 2.0 ** -17, 2.0 ** -20, 2.0 ** -23]   # 6e-5 .. 1.2e-7: above EQ_TOLERANCE by more than a decade


def dy(rng, zero_p=0.2, band_p=0.0):
    if rng.random() < zero_p:
        return 0.0
    if band_p and rng.random() < band_p:
        return rng.choice(BAND) * rng.choice([1, -1, 3])
    return rng.choice([-2, -1.5, -1, -0.75, -0.5, -0.25, 0.25, 0.5, 0.75, 1, 1.5, 2])


def sym8(rng, n, zero_p=0.2, band_p=0.0):
    """random real dyadic two_body_integrals[p,q,r,s] = (ps|qr) with the eight-fold symmetry of (ab|cd)"""
    chem = np.zeros((n, n, n, n))
    done = np.zeros((n, n, n, n), dtype=bool)
    for a, b, c, d in itertools.product(range(n), repeat=4):
        if not done[a, b, c, d]:
            v = dy(rng, zero_p, band_p)
            for x in [(a, b, c, d), (b, a, c, d), (a, b, d, c), (b, a, d, c), (c, d, a, b), (d, c, a, b), (c, d, b, a),
                      (d, c, b, a)]:
                chem[x] = v
                done[x] = True
    h = np.zeros_like(chem)
    for p, q, r, s in itertools.product(range(n), repeat=4):
        h[p, q, r, s] = chem[p, s, q, r]
    return h


def sym2(rng, n, band_p=0.0):
    m = np.zeros((n, n))
    for i in range(n):
        for j in range(i, n):
            m[i, j] = m[j, i] = dy(rng, 0.2, band_p)
    return m


def rj(x):
    f = F(float(x))
    return [f.numerator, f.denominator]


def t2j(t):
    return [[rj(x) for x in r] for r in np.asarray(t)]


def t4j(t):
    t = np.asarray(t)
    return [[[[rj(x) for x in c] for c in b] for b in a] for a in t]


def g2j(t):
    return [[to_gq(x) for x in r] for r in np.asarray(t)]


def g4j(t):
    t = np.asarray(t)
    return [[[[to_gq(x) for x in c] for c in b] for b in a] for a in t]


def from_t(j):
    return np.array(jmap(j, lambda x: x[0] / x[1]), dtype=float)


def from_g(j):
    return np.array(jmap(j, lambda x: complex(x[0] / x[1], x[2] / x[3])), dtype=complex)


def jmap(j, f):
    if isinstance(j, list) and j and isinstance(j[0], int):
        return f(j)
    return [jmap(x, f) for x in j]


def exact_equal(a, b):
    a, b = np.asarray(a), np.asarray(b)
    return a.shape == b.shape and bool(np.all(a == b))


# ----------------------------------------------------------------------------- chemist


def leaf(terms):
    return ['leaf', [[[[i, a] for i, a in t], to_gq(c)] for t, c in terms]]


def stream_chemist(ctx):
    s = Stream('chemist', 'get_chemist_two_body_coefficients on dyadic tensors (spin-symmetric spin-orbital tensors from '
               'eight-fold symmetric or arbitrary spatial tensors, spin_basis True/False, n_spatial <= 3): Model exact; '
               'Spec (n_spatial <= 2): operator identity in the fermion algebra; distinct = distinct inputs')
    of = ctx.of
    from openfermion.circuits import low_rank
    from openfermion.chem.molecular_data import spinorb_from_spatial
    rng = rng_for(ctx.seed, 'c17-chemist')
    N = budget(ctx.tier, 60, 1500)
    if ctx.drift:
        N = max(N, 200)
    reqs, keep = [], []
    for t in range(N):
        n = rng.choice([1, 2, 2, 2, 3])
        spin = rng.random() < 0.6
        symm = rng.random() < 0.6
        two = sym8(rng, n) if symm else np.array([[[[dy(rng) for _ in range(n)] for _ in range(n)] for _ in range(n)]
                                                  for _ in range(n)])
        scale = rng.choice([0.5, 1.0])
        if spin:
            h = scale * spinorb_from_spatial(np.zeros((n, n)), two)[1]
        else:
            h = scale * two
        c = {'n_spatial': n, 'spin_basis': spin, 'eightfold': symm, 'scale': scale, 'two_body_integrals': two.tolist()}
        s.case(c)
        s.count('spin_basis:%s' % spin)
        try:
            corr, chem = low_rank.get_chemist_two_body_coefficients(h.copy(), spin_basis=spin)
        except Exception as e:
            s.violate('get_chemist_two_body_coefficients raised %s: %s' % (type(e).__name__, e), c, {})
            continue
        reqs.append({'op': 'c17.chemist', 'two': t4j(h), 'spin_basis': spin})
        keep.append((c, h, scale * two, corr, chem, n, spin))
    ans = ctx.driver.run(reqs)
    oracle = []
    for (c, h, hs, corr, chem, n, spin), a in zip(keep, ans):
        if not (exact_equal(np.real(corr), from_t(a['correction'])) and err(np.imag(corr)) == 0
                and exact_equal(chem, from_t(a['chemist']))):
            s.disagree('one-body correction / chemist tensor', c, {'correction': np.real(corr).tolist(), 'chemist': chem.tolist()},
                       {'correction': from_t(a['correction']).tolist(), 'chemist': from_t(a['chemist']).tolist()})
        if n <= 2:
            # Spec: the physicist-ordered operator equals chemist form + correction
            lhs = []
            for p, q, r, s_ in itertools.product(range(n), repeat=4):
                if hs[p, q, r, s_] != 0:
                    for sg in range(2):
                        for t in range(2):
                            lhs.append((((2 * p + sg, 1), (2 * q + t, 1), (2 * r + t, 0), (2 * s_ + sg, 0)), hs[p, q, r, s_]))
            rhs = []
            for p, q, r, s_ in itertools.product(range(n), repeat=4):
                if chem[p, q, r, s_] != 0:
                    for sg in range(2):
                        for t in range(2):
                            rhs.append((((2 * p + sg, 1), (2 * q + sg, 0), (2 * r + t, 1), (2 * s_ + t, 0)), chem[p, q, r, s_]))
            for P, S in itertools.product(range(2 * n), repeat=2):
                if corr[P, S] != 0:
                    rhs.append((((P, 1), (S, 0)), corr[P, S]))
            oracle.append((c, {'op': 'spec.eq', 'alg': 'fermion', 'n': 2 * n, 'd': 0, 'lhs': leaf(lhs), 'rhs': leaf(rhs)},
                           corr, chem))
    if oracle:
        ans = ctx.driver.run([r for _, r, _, _ in oracle])
        for (c, _, corr, chem), a in zip(oracle, ans):
            s.count('oracle:operator-identity')
            if not a['eq']:
                s.violate('sum h a+a+aa != chemist form + one-body correction (basis state %s)' % a['state'], c,
                          {'correction': np.real(corr).tolist(), 'chemist': chem.tolist()})
    return s


# ----------------------------------------------------------------------------- low rank


def stream_lowrank(ctx):
    s = Stream('lowrank', 'low_rank_two_body_decomposition on eight-fold symmetric dyadic integrals (n_spatial <= 3), every '
               'final_rank 0..n^2 and thresholds between / at / beyond the error values: dense full-rank reconstruction '
               '(1e-9), truncation logic == Model on the implementation\'s weights, Spec: value == discarded weight <= '
               'threshold with minimal rank; prepare_one_body_squared_evolution dense identity; distinct = distinct inputs')
    of = ctx.of
    from openfermion.circuits import low_rank
    from openfermion.chem.molecular_data import spinorb_from_spatial
    rng = rng_for(ctx.seed, 'c17-lowrank')
    N = budget(ctx.tier, 40, 900)
    if ctx.drift:
        N = max(N, 120)
    reqs, keep = [], []
    for t in range(N):
        n = rng.choice([1, 2, 2, 2, 3])
        two = sym8(rng, n, zero_p=rng.choice([0.1, 0.5, 0.8]))
        spin = rng.random() < 0.7
        h = 0.5 * spinorb_from_spatial(np.zeros((n, n)), two)[1] if spin else 0.5 * two
        base = {'n_spatial': n, 'spin_basis': spin, 'two_body_integrals': two.tolist()}
        full = n * n
        try:
            lam, sq, corr, tv = low_rank.low_rank_two_body_decomposition(h.copy(), final_rank=full, spin_basis=spin)
        except Exception as e:
            s.case(base)
            s.violate('low_rank_two_body_decomposition raised %s: %s' % (type(e).__name__, e), base, {})
            continue
        # ---- full-rank reconstruction (independent dense operators)
        c = dict(base, final_rank=full)
        s.case(c)
        if n <= 2 or t % 4 == 0:
            if spin:
                Href = dense_two(h)
            else:
                Href = molecular_dense(0.0, np.zeros((n, n)), 2 * h)   # sum_{st} h a+_{ps} a+_{qt} a_{rt} a_{ss}
            R = dense_one(corr)
            for l in range(len(lam)):
                O = dense_one(sq[l])
                R = R + lam[l] * O @ O
            s.count('oracle:full-rank-reconstruction')
            s.float_comparisons += 1
            if err(Href - R) > TOL * max(1.0, err(Href)):
                s.violate('full-rank decomposition does not reconstruct the two-body operator (max deviation %.3g)'
                          % err(Href - R), c, {'eigenvalues': np.asarray(lam).tolist()})
        if abs(tv) > TOL:
            s.violate('truncation value at full rank is %.3g, nothing is discarded' % tv, c, {})
        # ---- weights in the implementation's order
        ws = [abs(lam[l]) * np.sum(np.absolute(sq[l])) ** 2 for l in range(full)]
        total = float(sum(ws))
        tail = [float(sum(ws[L:])) for L in range(full + 1)]
        trials = [('rank', r) for r in range(0, full + 1)]
        ths = {1e-8, 0.0, total + 1.0}
        for L in range(1, full):
            if tail[L] - tail[L + 1] > 1e-6:
                ths.add((tail[L] + tail[L + 1]) / 2)
        for th in sorted(ths):
            if all(abs(th - x) > 1e-7 or x == 0.0 for x in tail) or th in (0.0, 1e-8):
                if th in (0.0, 1e-8) and any(0 < x < 1e-6 for x in tail):
                    continue
                trials.append(('thr', th))
        for kind, v in trials:
            cc = dict(base, **({'final_rank': v} if kind == 'rank' else {'truncation_threshold': v}))
            s.case(cc)
            s.count('mode:' + kind)
            try:
                if kind == 'rank':
                    lam2, sq2, corr2, tv2 = low_rank.low_rank_two_body_decomposition(h.copy(), final_rank=v, spin_basis=spin)
                else:
                    lam2, sq2, corr2, tv2 = low_rank.low_rank_two_body_decomposition(h.copy(), truncation_threshold=v,
                                                                                      spin_basis=spin)
            except Exception as e:
                s.violate('low_rank_two_body_decomposition raised %s: %s' % (type(e).__name__, e), cc, {})
                continue
            reqs.append({'op': 'c17.truncate', 'weights': [rj(w) for w in ws], 'threshold': rj(v if kind == 'thr' else 0.0),
                         'final_rank': v if kind == 'rank' else None})
            keep.append((cc, kind, v, len(lam2), float(tv2), total, lam2, lam))
    ans = ctx.driver.run(reqs)
    for (cc, kind, v, L, tv, total, lam2, lam), a in zip(keep, ans):
        scale = TOL * max(1.0, total)
        s.float_comparisons += 2
        ret = {'rank': L, 'truncation_value': tv}
        # Model
        if a['max_rank'] != L or a['value'] == 'IndexError' or abs(a['value'][0] / a['value'][1] - tv) > scale:
            s.disagree('rank / truncation value', cc, ret, {'rank': a['max_rank'], 'value': a['value']})
        if L > 0 and err(np.asarray(lam2) - np.asarray(lam)[:L]) > TOL:
            s.violate('the returned terms are not the first %d terms of the full-rank decomposition' % L, cc, ret)
    # Spec pass (separate request: discarded weight for the implementation's rank)
    spec_reqs = [{'op': 'c17.truncate', 'weights': r['weights'], 'threshold': r['threshold'], 'final_rank': k[3]}
                 for r, k in zip(reqs, keep)]
    ans2 = ctx.driver.run(spec_reqs)
    for (cc, kind, v, L, tv, total, lam2, lam), a in zip(keep, ans2):
        scale = TOL * max(1.0, total)
        ret = {'rank': L, 'truncation_value': tv}
        disc = a['discarded'][0] / a['discarded'][1]
        s.count('oracle:discarded-weight')
        cc2 = dict(cc)
        if abs(disc - tv) > scale:
            s.violate('reported truncation value %.6g is not the discarded weight %.6g' % (tv, disc), cc2, ret)
        elif kind == 'thr' and v >= 0:
            if tv > v + scale:
                s.violate('truncation value %.6g exceeds the threshold %.6g' % (tv, v), cc2, ret)
            elif not a['minimal']:
                s.violate('rank %d is not the smallest rank >= 1 within the threshold' % L, cc2, ret)
    # ---- prepare_one_body_squared_evolution
    M = budget(ctx.tier, 40, 900)
    for t in range(M):
        n = rng.choice([1, 2, 2, 3])
        spin = rng.random() < 0.6
        h = sym2(rng, n).astype(complex)
        if rng.random() < 0.4 and n > 1:
            i, j = rng.sample(range(n), 2)
            v = rng.choice([0.5, 1, -0.25])
            h[i, j] += 1j * v
            h[j, i] -= 1j * v
        hs = np.kron(h, np.eye(2)) if spin else h
        c = {'fn': 'prepare_one_body_squared_evolution', 'spin_basis': spin, 'one_body_matrix': [[[x.real, x.imag] for x in r] for r in hs]}
        s.case(c)
        try:
            V, R = low_rank.prepare_one_body_squared_evolution(hs.copy(), spin_basis=spin)
        except Exception as e:
            s.violate('prepare_one_body_squared_evolution raised %s: %s' % (type(e).__name__, e), c, {})
            continue
        m = hs.shape[0]
        a_, ad_ = ladder(m)
        H1 = dense_one(hs)
        b = [sum(R[p, q] * a_[q] for q in range(m)) for p in range(m)]
        nb = [x.conj().T @ x for x in b]
        rhs = sum(V[p, q] * nb[p] @ nb[q] for p in range(m) for q in range(m))
        s.float_comparisons += 2
        if err(R @ R.conj().T - np.eye(m)) > TOL:
            s.violate('basis transformation matrix is not unitary', c, {})
        elif err(H1 @ H1 - rhs) > TOL * max(1.0, err(H1 @ H1)):
            s.violate('(sum h a+a)^2 != sum V n n in the rotated basis (max deviation %.3g)' % err(H1 @ H1 - rhs), c, {})
    return s


# ----------------------------------------------------------------------------- integrals / active space


def sector_embed(n, occ, act):
    """(indices, signs): for every state of the active spin orbitals (active spin orbital 2a+s = spin orbital
    2*act[a]+s) the full 2n-spin-orbital basis state with the core filled and the virtuals empty, and the
    fermionic sign of reordering the active creation operators into increasing spin-orbital order (only != 1 when
    `act` is not increasing; core orbitals are filled in pairs and contribute no sign)"""
    N = 2 * n
    m = 2 * len(act)
    idx, sgn = [], []
    for st in range(2 ** m):
        bits = [0] * N
        for i in occ:
            bits[2 * i] = bits[2 * i + 1] = 1
        phys = []
        for a_, orb in enumerate(act):
            for sg in range(2):
                b = (st >> (m - 1 - (2 * a_ + sg))) & 1
                bits[2 * orb + sg] = b
                if b:
                    phys.append(2 * orb + sg)
        inv = sum(1 for x in range(len(phys)) for y in range(x + 1, len(phys)) if phys[x] > phys[y])
        idx.append(int(''.join(map(str, bits)), 2))
        sgn.append(-1.0 if inv % 2 else 1.0)
    return idx, np.array(sgn)


def stream_integrals(ctx):
    s = Stream('integrals', 'dyadic eight-fold symmetric integrals on n <= 3 spatial orbitals: spinorb_from_spatial, '
               'get_tensors_from_integrals (Model exact), every (occupied, active) partition: get_active_space_integrals '
               '(Model exact), MolecularData.get_molecular_hamiltonian; Spec: sector matrix elements == full Hamiltonian '
               '(independent dense construction), agreement with freeze_orbitals; distinct = distinct (integrals, partition)')
    of = ctx.of
    from openfermion.chem.molecular_data import spinorb_from_spatial
    from openfermion.ops.representations import interaction_operator as io
    from openfermion.transforms import freeze_orbitals, get_fermion_operator, normal_ordered
    rng = rng_for(ctx.seed, 'c17-integrals')
    N = budget(ctx.tier, 30, 600)
    if ctx.drift:
        N = max(N, 80)
    reqs, keep = [], []
    tol = rj(1e-8)
    for t in range(N):
        n = rng.choice([1, 2, 2, 3, 3])
        # (B) band entries 1e-7 .. 1e-4 next to O(1) ones: bare and core-dressed one-body integrals, two-body integrals
        band = rng.choice([0.0, 0.0, 0.3, 0.6])
        one = sym2(rng, n, band)
        two = sym8(rng, n, 0.2, band / 2)
        s.count('band-entries:%s' % bool(band))
        if rng.random() < 0.15:
            one[0, 0] = 2.0 ** -30      # below EQ_TOLERANCE: truncated
        nuc = rng.choice([0.0, 0.25, -1.5])
        base = {'n_spatial': n, 'one_body_integrals': one.tolist(), 'two_body_integrals': two.tolist(), 'nuclear_repulsion': nuc}
        # --- spin-orbital expansion
        for fn, scale in (('spinorb_from_spatial', 1.0), ('get_tensors_from_integrals', 0.5)):
            c = dict(base, fn=fn)
            s.case(c)
            try:
                o, tw = (spinorb_from_spatial if scale == 1.0 else io.get_tensors_from_integrals)(one.copy(), two.copy())
            except Exception as e:
                s.violate('%s raised %s: %s' % (fn, type(e).__name__, e), c, {})
                continue
            reqs.append({'op': 'c17.spinorb', 'one': t2j(one), 'two': t4j(two), 'tol': tol, 'scale': rj(scale)})
            keep.append(('spinorb', c, (o, tw)))
        # --- molecule
        mol = of.chem.MolecularData(geometry=[('H', (0, 0, 0)), ('H', (0, 0, 0.7))], basis='sto-3g', multiplicity=1,
                                    charge=0, filename='_c17_never_written')
        # (the entry below EQ_TOLERANCE only exercises the truncation branch of the expansion above)
        one = one.copy()
        one[np.abs(one) < 1e-8] = 0.0
        base = dict(base, one_body_integrals=one.tolist())
        one_t = one
        mol.one_body_integrals = one.copy()
        mol.two_body_integrals = two.copy()
        mol.nuclear_repulsion = nuc
        Hfull = molecular_dense(nuc, one_t, two)
        try:
            full_op = mol.get_molecular_hamiltonian()
            full_fo = get_fermion_operator(full_op)
        except Exception as e:
            s.violate('get_molecular_hamiltonian raised %s: %s' % (type(e).__name__, e), base, {})
            continue
        # full Hamiltonian operator == definition
        a_, ad_ = ladder(2 * n)
        Hlib = full_op.constant * np.eye(4 ** n, dtype=complex) + dense_one(full_op.one_body_tensor) + dense_two(full_op.two_body_tensor)
        if err(Hlib - Hfull) > TOL:
            s.violate('get_molecular_hamiltonian() differs from the molecular Hamiltonian of the integrals', base, {})
        parts = []
        for k in range(0, n):
            for occ in itertools.combinations(range(n), k):
                rest = [x for x in range(n) if x not in occ]
                for ka in range(1, len(rest) + 1):
                    for act in itertools.combinations(rest, ka):
                        parts.append((list(occ), list(act)))
        if len(parts) > 8:
            parts = rng.sample(parts, 8)
        for occ, act in parts:
            if rng.random() < 0.3:
                act = list(act)
                rng.shuffle(act)
            c = dict(base, occupied_indices=occ, active_indices=act)
            s.case(c)
            s.count('partition:%d occupied/%d active of %d' % (len(occ), len(act), n))
            try:
                core, o_new, t_new = io.get_active_space_integrals(one.copy(), two.copy(), list(occ), list(act))
                act_op = mol.get_molecular_hamiltonian(list(occ), list(act))
            except Exception as e:
                s.violate('active space reduction raised %s: %s' % (type(e).__name__, e), c, {})
                continue
            reqs.append({'op': 'c17.active', 'one': t2j(one), 'two': t4j(two), 'occupied': occ, 'active': act})
            keep.append(('active', c, (core, o_new, t_new)))
            # Spec: sector matrix elements
            m = len(act)
            idx, sgn = sector_embed(n, occ, act)
            block = Hfull[np.ix_(idx, idx)] * np.outer(sgn, sgn)
            o_new_t = np.array(o_new, dtype=float)
            Hact = molecular_dense(nuc + core, o_new_t, np.array(t_new))
            s.count('oracle:sector-matrix-elements')
            s.float_comparisons += 2
            ret = {'core_constant': float(core), 'one_body': np.asarray(o_new).tolist()}
            if err(block - Hact) > TOL:
                s.violate('active-space integrals do not reproduce the matrix elements of the full Hamiltonian between '
                          'states with the core filled and the virtuals empty (max deviation %.3g)' % err(block - Hact), c, ret)
            Hop = act_op.constant * np.eye(4 ** m, dtype=complex) + dense_one(act_op.one_body_tensor) + dense_two(act_op.two_body_tensor)
            if err(block - Hop) > 1e-7:
                # (tolerance 1e-7: get_molecular_hamiltonian truncates coefficients below EQ_TOLERANCE after the reduction)
                s.violate('get_molecular_hamiltonian(occupied, active) does not reproduce the sector matrix elements '
                          '(max deviation %.3g)' % err(block - Hop), c, ret)
            # agreement with freeze_orbitals (exact dyadic arithmetic)
            try:
                virt = [x for x in range(n) if x not in occ and x not in act]
                fr = freeze_orbitals(full_fo, [2 * i + sg for i in occ for sg in range(2)],
                                     [2 * i + sg for i in virt for sg in range(2)])
                # freeze_orbitals renumbers the remaining orbitals in increasing order
                order = sorted(act)
                perm = [order.index(x) for x in act]
                act_fo = get_fermion_operator(act_op)
                relabel = of.FermionOperator()
                for term, coef in act_fo.terms.items():
                    relabel += of.FermionOperator(tuple((2 * order.index(act[i // 2]) + i % 2, a) for i, a in term), coef)
                d = normal_ordered(fr) - normal_ordered(relabel)
                dev = max([abs(v) for v in d.terms.values()] + [0.0])
                s.count('oracle:freeze_orbitals')
                if dev > 1e-7:
                    s.violate('active-space Hamiltonian disagrees with freeze_orbitals (max coefficient deviation %.3g)' % dev,
                              c, ret)
            except Exception as e:
                s.violate('freeze_orbitals comparison raised %s: %s' % (type(e).__name__, e), c, ret)
    ans = ctx.driver.run(reqs)
    for (kind, c, val), a in zip(keep, ans):
        if kind == 'spinorb':
            o, tw = val
            if not (exact_equal(o, from_t(a['one'])) and exact_equal(tw, from_t(a['two']))):
                s.disagree('spin-orbital coefficients', c, {'one': np.asarray(o).tolist()}, {'one': from_t(a['one']).tolist()})
        else:
            core, o_new, t_new = val
            if 'error' in a:
                s.disagree('error', c, 'ok', a['error'])
            elif not (F(float(core)) == F(a['core'][0], a['core'][1]) and exact_equal(o_new, from_t(a['one']))
                      and exact_equal(t_new, from_t(a['two']))):
                s.disagree('active-space integrals', c, {'core': float(core), 'one': np.asarray(o_new).tolist()},
                           {'core': a['core'], 'one': from_t(a['one']).tolist()})
    return s


# ----------------------------------------------------------------------------- RDMs


AMPS = [[F(1)], [F(3, 5), F(4, 5)], [F(1, 3), F(2, 3), F(2, 3)], [F(2, 7), F(3, 7), F(6, 7)], [F(1, 2)] * 4,
        [F(1, 5), F(2, 5), F(2, 5), F(4, 5)], [F(5, 13), F(12, 13)]]
PH = [1, -1, 1j, -1j]


def rand_state(rng, n, N, real):
    basis = [i for i in range(2 ** n) if bin(i).count('1') == N]
    amps = rng.choice([a for a in AMPS if len(a) <= len(basis)])
    where = rng.sample(basis, len(amps))
    psi = np.zeros(2 ** n, dtype=complex)
    for i, a in zip(where, amps):
        psi[i] = float(a) * (rng.choice([1, -1]) if real else rng.choice(PH))
    return psi


def direct_rdms(psi, n):
    a, ad = ladder(n)

    def ev(op):
        return np.vdot(psi, op @ psi)
    r = {'opdm': np.zeros((n, n), dtype=complex), 'oqdm': np.zeros((n, n), dtype=complex)}
    for k in ('tpdm', 'tqdm', 'phdm'):
        r[k] = np.zeros((n,) * 4, dtype=complex)
    for p, q in itertools.product(range(n), repeat=2):
        r['opdm'][p, q] = ev(ad[p] @ a[q])
        r['oqdm'][p, q] = ev(a[p] @ ad[q])
    for p, q in itertools.product(range(n), repeat=2):
        dd, aa, da = ad[p] @ ad[q], a[p] @ a[q], ad[p] @ a[q]
        for r_, s_ in itertools.product(range(n), repeat=2):
            r['tpdm'][p, q, r_, s_] = ev(dd @ a[r_] @ a[s_])
            r['tqdm'][p, q, r_, s_] = ev(aa @ ad[r_] @ ad[s_])
            r['phdm'][p, q, r_, s_] = ev(da @ ad[r_] @ a[s_])
    return r


PAULI = {'I': np.eye(2, dtype=complex), 'X': np.array([[0, 1], [1, 0]], dtype=complex),
         'Y': np.array([[0, -1j], [1j, 0]]), 'Z': np.diag([1.0 + 0j, -1.0])}


def stream_rdm(ctx):
    s = Stream('rdm', 'normalised N-particle states with rational amplitudes (real and complex phases) on n <= 4 spin orbitals, '
               'every N: the nine RDM maps, get_interaction_rdm, InteractionRDM.expectation(InteractionOperator / '
               'QubitOperator): Model (1e-9) and direct expectation values <psi|.|psi> (oracle); distinct = distinct states')
    of = ctx.of
    from openfermion.utils import rdm_mapping_functions as Rm
    from openfermion.measurements import get_interaction_rdm
    rng = rng_for(ctx.seed, 'c17-rdm')
    N_ = budget(ctx.tier, 40, 900)
    if ctx.drift:
        N_ = max(N_, 120)
    reqs, keep = [], []
    # fixed complex states with a non-symmetric 1-RDM (the input class of the repaired transposition defect)
    fixed = []
    for n_, bits in ((2, ('10', '01')), (3, ('100', '010')), (3, ('110', '011')), (4, ('1100', '0110'))):
        v = np.zeros(2 ** n_, dtype=complex)
        v[int(bits[0], 2)] = 0.6
        v[int(bits[1], 2)] = 0.8j
        fixed.append((n_, bits[0].count('1'), v))
    for t in range(N_ + len(fixed)):
        if t < len(fixed):
            n, Np, psi = fixed[t]
            real = False
        else:
            n = rng.choice([2, 3, 3, 4, 4])
            Np = rng.randint(0, n)
            real = rng.random() < 0.4
            psi = rand_state(rng, n, Np, real)
        c = {'n': n, 'N': Np, 'real': real, 'state': {format(i, '0%db' % n): [psi[i].real, psi[i].imag] for i in np.nonzero(psi)[0]}}
        s.case(c)
        s.count('n=%d,N=%d' % (n, Np))
        s.count('real:%s' % real)
        d = direct_rdms(psi, n)
        holes = n - Np
        maps = [
            ('two_pdm_to_one_pdm', lambda: Rm.map_two_pdm_to_one_pdm(d['tpdm'], Np), 'opdm', {'t4': 'tpdm', 'd': Np - 1}, Np - 1 != 0),
            ('two_pdm_to_two_hole', lambda: Rm.map_two_pdm_to_two_hole_dm(d['tpdm'], d['opdm']), 'tqdm', {'t4': 'tpdm', 't2': 'opdm'}, True),
            ('two_hole_to_two_pdm', lambda: Rm.map_two_hole_dm_to_two_pdm(d['tqdm'], d['opdm']), 'tpdm', {'t4': 'tqdm', 't2': 'opdm'}, True),
            ('two_hole_to_one_hole', lambda: Rm.map_two_hole_dm_to_one_hole_dm(d['tqdm'], holes), 'oqdm', {'t4': 'tqdm', 'd': holes - 1}, holes - 1 != 0),
            ('one_pdm_to_one_hole', lambda: Rm.map_one_pdm_to_one_hole_dm(d['opdm']), 'oqdm', {'t2': 'opdm'}, True),
            ('one_hole_to_one_pdm', lambda: Rm.map_one_hole_dm_to_one_pdm(d['oqdm']), 'opdm', {'t2': 'oqdm'}, True),
            ('two_pdm_to_ph', lambda: Rm.map_two_pdm_to_particle_hole_dm(d['tpdm'], d['opdm']), 'phdm', {'t4': 'tpdm', 't2': 'opdm'}, True),
            ('ph_to_two_pdm', lambda: Rm.map_particle_hole_dm_to_two_pdm(d['phdm'], d['opdm']), 'tpdm', {'t4': 'phdm', 't2': 'opdm'}, True),
            ('ph_to_one_pdm', lambda: Rm.map_particle_hole_dm_to_one_pdm(d['phdm'], Np, n), 'opdm', {'t4': 'phdm', 'd': n - Np + 1}, True),
        ]
        for name, call, target, args, admissible in maps:
            if not admissible:
                continue
            cc = dict(c, map=name)
            try:
                with np.errstate(all='ignore'):
                    out = np.asarray(call())
            except Exception as e:
                s.violate('map_%s raised %s: %s' % (name, type(e).__name__, e), cc, {})
                continue
            s.count('map:' + name)
            s.float_comparisons += 2
            if err(out - d[target]) > TOL:
                s.violate('map_%s: result differs from the directly computed %s (max deviation %.3g)'
                          % (name, target, err(out - d[target])), cc, {})
            rq = {'op': 'c17.rdm', 'fn': name, 'n': n}
            if 't4' in args:
                rq['t4'] = g4j(d[args['t4']])
            if 't2' in args:
                rq['t2'] = g2j(d[args['t2']])
            if 'd' in args:
                rq['d'] = [int(args['d']), 1]
            reqs.append(rq)
            keep.append(('map', cc, out))
        # --- the two routes to the 1-hole-RDM agree (contraction of the 2-hole-RDM vs. direct map), complex states included
        s.count('opdm:%s' % ('symmetric' if err(d['opdm'] - d['opdm'].T) <= TOL else 'non-symmetric'))
        if holes - 1 != 0:
            try:
                via2 = Rm.map_two_hole_dm_to_one_hole_dm(Rm.map_two_pdm_to_two_hole_dm(d['tpdm'], d['opdm']), holes)
                via1 = Rm.map_one_pdm_to_one_hole_dm(d['opdm'])
                s.count('oracle:one-hole-routes-agree')
                if err(np.asarray(via2) - np.asarray(via1)) > TOL:
                    s.violate('map_one_pdm_to_one_hole_dm disagrees with the contraction of map_two_pdm_to_two_hole_dm', dict(c, map='one_hole_routes'), {})
            except Exception as e:
                s.violate('one-hole routes raised %s: %s' % (type(e).__name__, e), dict(c, map='one_hole_routes'), {})
        # --- get_interaction_rdm from measured Pauli expectations
        if n <= 3 or t % 3 == 0:
            qop = of.QubitOperator()
            for word in itertools.product('IXYZ', repeat=n):
                Mx = np.array([[1.0 + 0j]])
                for ch in word:
                    Mx = np.kron(Mx, PAULI[ch])
                val = np.vdot(psi, Mx @ psi)
                term = tuple((i, ch) for i, ch in enumerate(word) if ch != 'I')
                qop += of.QubitOperator(term, val)
            try:
                rdm = get_interaction_rdm(qop, n)
                s.count('oracle:get_interaction_rdm')
                s.float_comparisons += 2
                if err(rdm.one_body_tensor - d['opdm']) > TOL or err(rdm.two_body_tensor - d['tpdm']) > TOL:
                    s.violate('get_interaction_rdm: RDMs differ from <psi|a+a|psi>, <psi|a+a+aa|psi>', dict(c, fn='get_interaction_rdm'), {})
            except Exception as e:
                s.violate('get_interaction_rdm raised %s: %s' % (type(e).__name__, e), dict(c, fn='get_interaction_rdm'), {})
        # --- expectation values
        const = rng.choice([0.0, 0.5, -1.25])
        o1 = np.array([[dy(rng) for _ in range(n)] for _ in range(n)])
        o2 = np.array([[[[dy(rng, 0.6) for _ in range(n)] for _ in range(n)] for _ in range(n)] for _ in range(n)])
        if rng.random() < 0.5:
            o1 = (o1 + o1.T) / 2
            o2 = (o2 + o2.transpose(3, 2, 1, 0)) / 2
        cc = dict(c, fn='expectation', constant=const, one_body=o1.tolist(), two_body=o2.tolist())
        try:
            op = of.InteractionOperator(const, o1.copy(), o2.copy())
            irdm = of.InteractionRDM(d['opdm'].copy(), d['tpdm'].copy())
            e1 = complex(irdm.expectation(op))
            Hd = const * np.eye(2 ** n, dtype=complex) + dense_one(o1) + dense_two(o2)
            ref = np.vdot(psi, Hd @ psi)
            s.count('oracle:expectation')
            s.float_comparisons += 2
            if abs(e1 - ref) > TOL * max(1.0, abs(ref)):
                s.violate('InteractionRDM.expectation(InteractionOperator) = %r, <psi|H|psi> = %r' % (e1, complex(ref)), cc, {})
            reqs.append({'op': 'c17.expectation', 'n': n, 'const': to_gq(const), 'o1': g2j(o1), 'o2': g4j(o2),
                         'r1': g2j(d['opdm']), 'r2': g4j(d['tpdm'])})
            keep.append(('expect', cc, e1))
            if n <= 3:
                herm = of.InteractionOperator(const, (o1 + o1.T) / 2, (o2 + o2.transpose(3, 2, 1, 0)) / 2)
                qh = of.jordan_wigner(herm)
                e2 = complex(irdm.expectation(qh))
                Hh = const * np.eye(2 ** n, dtype=complex) + dense_one((o1 + o1.T) / 2) + dense_two((o2 + o2.transpose(3, 2, 1, 0)) / 2)
                ref2 = np.vdot(psi, Hh @ psi)
                s.count('oracle:qubit-expectation')
                if abs(e2 - ref2) > TOL * max(1.0, abs(ref2)):
                    s.violate('InteractionRDM.expectation(QubitOperator) = %r, <psi|H|psi> = %r' % (e2, complex(ref2)), cc, {})
        except Exception as e:
            s.violate('InteractionRDM.expectation raised %s: %s' % (type(e).__name__, e), cc, {})
    ans = ctx.driver.run(reqs)
    for (kind, cc, out), a in zip(keep, ans):
        if kind == 'map':
            if isinstance(a, dict):
                s.disagree('error', cc, 'ok', a)
            elif err(out - from_g(a)) > TOL:
                s.disagree('map result', cc, np.round(out, 10).tolist(), np.round(from_g(a), 10).tolist())
        else:
            m = complex(a[0] / a[1], a[2] / a[3])
            if abs(out - m) > TOL * max(1.0, abs(m)):
                s.disagree('expectation', cc, out, m)
    return s


# ----------------------------------------------------------------------------- (S) / (T) / (A) robustness

ARRAY_KINDS = ['int64', 'int32', 'float32', 'float64', 'fortran', 'noncontiguous']
SINGLE_TOL = 1e-5


def typed_real(A, kind):
    """the same exactly representable real values as another array type (None if they do not fit)"""
    A = np.asarray(A, dtype=float)
    if kind in ('int64', 'int32'):
        if np.abs(A - np.round(A)).max() != 0:
            return None
        return A.astype(kind)
    if kind in ('float32', 'float64'):
        return A.astype(kind)
    if kind == 'fortran':
        return np.asfortranarray(A)
    if kind == 'noncontiguous':
        big = np.zeros(tuple(2 * d for d in A.shape))
        sl = tuple(slice(None, None, 2) for _ in A.shape)
        big[sl] = A
        return big[sl]
    raise AssertionError(kind)


def same(a, b, tol=0.0):
    a, b = np.asarray(a), np.asarray(b)
    return a.shape == b.shape and (err(a.astype(complex) - b.astype(complex)) <= tol)


def stream_robust(ctx):
    s = Stream('robust', '(T) integrals / tensors as int64, int32, float32, float64, Fortran-ordered and non-contiguous arrays, index '
               'lists as list / tuple / numpy array / range, particle numbers as Python and numpy scalars (types rejected on a probe '
               'input are excluded for the run): results equal those of the float64 reference; (S) array arguments are not '
               'modified, a second call after overwriting the first result returns the same values; (A) complex constants and '
               'complex non-Hermitian tensors in InteractionRDM.expectation, non-symmetric one-body integrals; '
               'distinct = distinct (function, values, types)')
    of = ctx.of
    from openfermion.circuits import low_rank
    from openfermion.chem.molecular_data import spinorb_from_spatial
    from openfermion.ops.representations import interaction_operator as io
    from openfermion.utils import rdm_mapping_functions as Rm
    rng = rng_for(ctx.seed, 'c17-robust')
    N = budget(ctx.tier, 40, 300)
    if ctx.drift:
        N = max(N, 150)

    def intvals(shape):
        return np.array([rng.choice([-2, -1, 0, 1, 2, 3]) for _ in range(int(np.prod(shape)))], dtype=float).reshape(shape)

    def sym8int(n):
        t = np.round(4 * sym8(rng, n))
        return t

    # ---- probes
    acc = {}
    fns = {
        'spinorb_from_spatial': lambda o, t: spinorb_from_spatial(o, t),
        'get_tensors_from_integrals': lambda o, t: io.get_tensors_from_integrals(o, t),
        'get_active_space_integrals': lambda o, t: io.get_active_space_integrals(o, t, [0], [1]),
        'get_chemist_two_body_coefficients': lambda o, t: low_rank.get_chemist_two_body_coefficients(t, spin_basis=False),
        'low_rank_two_body_decomposition': lambda o, t: low_rank.low_rank_two_body_decomposition(t, final_rank=1, spin_basis=False),
    }
    o0, t0 = np.array([[1.0, 0.0], [0.0, 2.0]]), np.zeros((2, 2, 2, 2))
    t0[0, 0, 0, 0] = t0[1, 1, 1, 1] = 1.0
    for name, f in fns.items():
        acc[name] = []
        for k in ARRAY_KINDS:
            try:
                f(typed_real(o0, k), typed_real(t0, k))
                acc[name].append(k)
            except Exception:
                s.count('type-rejected:%s:%s' % (name, k))

    def flat(res):
        out = []
        for x in (res if isinstance(res, tuple) else (res,)):
            out.append(np.array(x, dtype=complex, copy=True))
        return out

    for t in range(N):
        n = rng.choice([2, 2, 3])
        one = intvals((n, n))
        if rng.random() < 0.5:
            one = (one + one.T)        # symmetric or (A) non-symmetric
        two = sym8int(n)
        occ_act = [([0], [1]), ([], [0, 1]), ([1], [0])] if n == 2 else [([0], [1, 2]), ([0, 1], [2]), ([2], [0]), ([], [2, 0, 1])]
        occ, act = rng.choice(occ_act)
        idx_kind = rng.choice(['list', 'tuple', 'ndarray', 'range'])

        def conv(l):
            if idx_kind == 'tuple':
                return tuple(l)
            if idx_kind == 'ndarray':
                return np.array(l, dtype=int)
            if idx_kind == 'range' and l == list(range(len(l))) and l:
                return range(len(l))
            return list(l)
        calls = {
            'spinorb_from_spatial': lambda o, tt: spinorb_from_spatial(o, tt),
            'get_tensors_from_integrals': lambda o, tt: io.get_tensors_from_integrals(o, tt),
            'get_active_space_integrals': lambda o, tt: io.get_active_space_integrals(o, tt, conv(occ), conv(act)),
            'get_chemist_two_body_coefficients': lambda o, tt: low_rank.get_chemist_two_body_coefficients(tt, spin_basis=False),
            'low_rank_two_body_decomposition': lambda o, tt: low_rank.low_rank_two_body_decomposition(tt, final_rank=n * n, spin_basis=False)[2:],
        }
        name = rng.choice(list(calls))
        if not acc[name]:
            continue
        k = rng.choice(acc[name])
        ot, tt = typed_real(one, k), typed_real(two, k)
        if ot is None or tt is None:
            continue
        c = {'fn': name, 'type': k, 'index_type': idx_kind, 'n_spatial': n, 'one_body_integrals': one.tolist(),
             'two_body_integrals': two.tolist(), 'occupied_indices': occ, 'active_indices': act}
        s.case(c)
        s.count('fn:' + name)
        s.count('type:' + k)
        o0_, t0_ = ot.copy(), tt.copy()
        try:
            ref = flat(calls[name](one.copy(), two.copy()))
            res1 = calls[name](ot, tt)
            got = flat(res1)
        except Exception as e:
            s.violate('%s(%s arrays, %s indices) raised %s: %s' % (name, k, idx_kind, type(e).__name__, e), c, {})
            continue
        tol = SINGLE_TOL if k == 'float32' else TOL
        s.float_comparisons += len(ref)
        if len(ref) != len(got) or not all(same(a, b, tol) for a, b in zip(ref, got)):
            s.violate('%s: result for %s arrays differs from the float64 reference' % (name, k), c, {})
        if not (np.array_equal(ot, o0_) and np.array_equal(tt, t0_) and ot.dtype == o0_.dtype and tt.dtype == t0_.dtype):
            s.violate('%s modified its array arguments' % name, c, {})
        # (S) overwrite the first result, call again
        try:
            for x in (res1 if isinstance(res1, tuple) else (res1,)):
                if isinstance(x, np.ndarray) and x.flags.writeable and not np.shares_memory(x, ot) and not np.shares_memory(x, tt):
                    x[...] = 9
            got2 = flat(calls[name](ot, tt))
            if not all(same(a, b, 0.0) for a, b in zip(got, got2)) and np.array_equal(ot, o0_) and np.array_equal(tt, t0_):
                s.violate('%s returns different values after its first result was overwritten in place' % name, c, {})
        except Exception as e:
            s.violate('%s: second call raised %s: %s' % (name, type(e).__name__, e), c, {})

    # ---- (T) typed inputs under the DENSE reconstruction oracles (eigenvectors must survive the input's dtype)
    acc_lr, acc_ob = [], []
    for k in ARRAY_KINDS:
        try:
            low_rank.low_rank_two_body_decomposition(typed_real(t0, k), final_rank=4, spin_basis=False)
            acc_lr.append(k)
        except Exception:
            s.count('type-rejected:low_rank(full):%s' % k)
        try:
            low_rank.prepare_one_body_squared_evolution(typed_real(o0, k), spin_basis=False)
            acc_ob.append(k)
        except Exception:
            s.count('type-rejected:prepare_one_body_squared_evolution:%s' % k)
    for t in range(N):
        n = rng.choice([2, 2, 3])
        spin = rng.random() < 0.5
        two = sym8int(n)                          # integer-valued, eight-fold symmetric, generically non-diagonal
        if not two.any():
            continue
        h = spinorb_from_spatial(np.zeros((n, n)), two)[1] if spin else two
        if acc_lr:
            k = rng.choice(acc_lr)
            ht = typed_real(h, k)
            c = {'fn': 'low_rank_two_body_decomposition(dense oracle)', 'type': k, 'spin_basis': spin, 'n_spatial': n,
                 'two_body_integrals': two.tolist()}
            s.case(c)
            s.count('dense:low_rank:' + k)
            h0 = ht.copy()
            try:
                lam, sq, corr, tv = low_rank.low_rank_two_body_decomposition(ht, final_rank=n * n, spin_basis=spin)
                Href = dense_two(h) if spin else molecular_dense(0.0, np.zeros((n, n)), 2 * h)
                R = dense_one_c(corr)
                for l in range(len(lam)):
                    O = dense_one_c(sq[l])
                    R = R + lam[l] * O @ O
                tol = (SINGLE_TOL if k == 'float32' else TOL) * max(1.0, err(Href))
                s.float_comparisons += 2
                if err(Href - R) > tol:
                    s.violate('low_rank_two_body_decomposition(%s tensor): full-rank terms + correction do not reconstruct the '
                              'two-body operator (max deviation %.3g)' % (k, err(Href - R)), c, {})
                corr2, chem = low_rank.get_chemist_two_body_coefficients(ht, spin_basis=spin)
                # chemist form as an operator: sum g a+_{p s} a_{q s} a+_{r t} a_{s t} + correction
                a_, ad_ = ladder(2 * n)
                E = e1(2 * n)
                Rc = dense_one_c(corr2)
                for p_, q_, r_, s_ in itertools.product(range(n), repeat=4):
                    g = chem[p_, q_, r_, s_]
                    if g != 0:
                        for sg in range(2):
                            for tt_ in range(2):
                                Rc = Rc + g * E[2 * p_ + sg, 2 * q_ + sg] @ E[2 * r_ + tt_, 2 * s_ + tt_]
                if err(Href - Rc) > tol:
                    s.violate('get_chemist_two_body_coefficients(%s tensor): chemist form + correction is not the two-body '
                              'operator (max deviation %.3g)' % (k, err(Href - Rc)), c, {})
                if not np.array_equal(ht, h0) or ht.dtype != h0.dtype:
                    s.violate('low_rank / chemist routines modified their tensor argument', c, {})
            except Exception as e:
                s.violate('low_rank_two_body_decomposition(%s tensor) raised %s: %s' % (k, type(e).__name__, e), c, {})
        if acc_ob:
            k = rng.choice(acc_ob)
            m = rng.choice([2, 3])
            hm = intvals((m, m))
            hm = hm + hm.T
            hm[0, m - 1] = hm[m - 1, 0] = rng.choice([1, 2, -1])        # never diagonal: non-trivial eigenvectors
            spin1 = rng.random() < 0.5
            hs = np.kron(hm, np.eye(2)) if spin1 else hm
            hst = typed_real(hs, k)
            c = {'fn': 'prepare_one_body_squared_evolution(dense oracle)', 'type': k, 'spin_basis': spin1,
                 'one_body_matrix': hs.tolist()}
            s.case(c)
            s.count('dense:one_body_squared:' + k)
            try:
                V, Rm_ = low_rank.prepare_one_body_squared_evolution(hst, spin_basis=spin1)
                mm = hs.shape[0]
                a_, ad_ = ladder(mm)
                H1 = dense_one(hs)
                b = [sum(Rm_[p_, q_] * a_[q_] for q_ in range(mm)) for p_ in range(mm)]
                nb = [x.conj().T @ x for x in b]
                rhs = sum(V[p_, q_] * nb[p_] @ nb[q_] for p_ in range(mm) for q_ in range(mm))
                tol = (SINGLE_TOL if k == 'float32' else TOL) * max(1.0, err(H1 @ H1))
                s.float_comparisons += 2
                if err(np.asarray(Rm_) @ np.asarray(Rm_).conj().T - np.eye(mm)) > tol / max(1.0, err(H1 @ H1)) * 10:
                    s.violate('prepare_one_body_squared_evolution(%s matrix): basis transformation is not unitary' % k, c, {})
                elif err(H1 @ H1 - rhs) > tol:
                    s.violate('prepare_one_body_squared_evolution(%s matrix): (sum h a+a)^2 != sum V n n in the rotated basis '
                              '(max deviation %.3g)' % (k, err(H1 @ H1 - rhs)), c, {})
            except Exception as e:
                s.violate('prepare_one_body_squared_evolution(%s matrix) raised %s: %s' % (k, type(e).__name__, e), c, {})

    # ---- RDM maps: argument integrity, numpy scalar particle numbers, complex64 tensors; (A) complex expectation values
    for t in range(N):
        n = rng.choice([2, 3])
        Np = rng.randint(0, n)
        psi = rand_state(rng, n, Np, rng.random() < 0.3)
        d = direct_rdms(psi, n)
        holes = n - Np
        numk = rng.choice(['pyint', 'pyfloat', 'np.int64', 'np.float64', 'np.int32'])
        num = {'pyint': int, 'pyfloat': float, 'np.int64': np.int64, 'np.float64': np.float64, 'np.int32': np.int32}[numk]
        single = rng.random() < 0.3
        cast = (lambda x: x.astype(np.complex64)) if single else (lambda x: x.copy())
        tol = SINGLE_TOL if single else TOL
        c = {'fn': 'rdm-maps', 'n': n, 'N': Np, 'number_type': numk, 'complex64': single,
             'state': {format(i, '0%db' % n): [psi[i].real, psi[i].imag] for i in np.nonzero(psi)[0]}}
        s.case(c)
        tp, op_, tq, ph, oq = cast(d['tpdm']), cast(d['opdm']), cast(d['tqdm']), cast(d['phdm']), cast(d['oqdm'])
        snap = [x.copy() for x in (tp, op_, tq, ph, oq)]
        jobs = [('two_pdm_to_two_hole', lambda: Rm.map_two_pdm_to_two_hole_dm(tp, op_), 'tqdm', True),
                ('two_hole_to_two_pdm', lambda: Rm.map_two_hole_dm_to_two_pdm(tq, op_), 'tpdm', True),
                ('one_pdm_to_one_hole', lambda: Rm.map_one_pdm_to_one_hole_dm(op_), 'oqdm', True),
                ('one_hole_to_one_pdm', lambda: Rm.map_one_hole_dm_to_one_pdm(oq), 'opdm', True),
                ('two_pdm_to_ph', lambda: Rm.map_two_pdm_to_particle_hole_dm(tp, op_), 'phdm', True),
                ('ph_to_two_pdm', lambda: Rm.map_particle_hole_dm_to_two_pdm(ph, op_), 'tpdm', True),
                ('two_pdm_to_one_pdm', lambda: Rm.map_two_pdm_to_one_pdm(tp, num(Np)), 'opdm', Np - 1 != 0),
                ('two_hole_to_one_hole', lambda: Rm.map_two_hole_dm_to_one_hole_dm(tq, num(holes)), 'oqdm', holes - 1 != 0),
                ('ph_to_one_pdm', lambda: Rm.map_particle_hole_dm_to_one_pdm(ph, num(Np), num(n)), 'opdm', True)]
        for name, call, target, ok in jobs:
            if not ok:
                continue
            try:
                with np.errstate(all='ignore'):
                    out = np.asarray(call())
                s.float_comparisons += 1
                if err(out - d[target]) > tol:
                    s.violate('map_%s (%s particle number, complex64=%s) differs from the directly computed %s'
                              % (name, numk, single, target), dict(c, map=name), {})
                out2 = None
                if out.flags.writeable and not any(np.shares_memory(out, x) for x in (tp, op_, tq, ph, oq)):
                    out[...] = 3
                    with np.errstate(all='ignore'):
                        out2 = np.asarray(call())
                    if err(out2 - d[target]) > tol:
                        s.violate('map_%s returns different values after its first result was overwritten' % name, dict(c, map=name), {})
            except Exception as e:
                s.violate('map_%s raised %s: %s' % (name, type(e).__name__, e), dict(c, map=name), {})
        if not all(np.array_equal(a, b) for a, b in zip((tp, op_, tq, ph, oq), snap)):
            s.violate('an RDM mapping function modified its arguments', c, {})
        # (A) complex constant, complex non-Hermitian tensors
        const = complex(rng.choice([0.5, -1.0, 0.0]), rng.choice([0.0, 1.0, -0.25]))
        o1 = np.array([[complex(dy(rng), dy(rng, 0.5)) for _ in range(n)] for _ in range(n)])
        o2 = np.array([[[[complex(dy(rng, 0.6), dy(rng, 0.8)) for _ in range(n)] for _ in range(n)] for _ in range(n)] for _ in range(n)])
        cc = dict(c, fn='expectation-complex', constant=[const.real, const.imag])
        try:
            op = of.InteractionOperator(const, o1.copy(), o2.copy())
            irdm = of.InteractionRDM(d['opdm'].copy(), d['tpdm'].copy())
            o1s, o2s, r1s, r2s = o1.copy(), o2.copy(), irdm.one_body_tensor.copy(), irdm.two_body_tensor.copy()
            ev1 = complex(irdm.expectation(op))
            Hd = const * np.eye(2 ** n, dtype=complex) + dense_one_c(o1) + dense_two_c(o2)
            ref = np.vdot(psi, Hd @ psi)
            s.float_comparisons += 1
            if abs(ev1 - ref) > TOL * max(1.0, abs(ref)):
                s.violate('InteractionRDM.expectation with complex constant / non-Hermitian tensors = %r, <psi|H|psi> = %r'
                          % (ev1, complex(ref)), cc, {})
            if not (np.array_equal(op.one_body_tensor, o1s) and np.array_equal(op.two_body_tensor, o2s)
                    and np.array_equal(irdm.one_body_tensor, r1s) and np.array_equal(irdm.two_body_tensor, r2s)
                    and op.constant == const):
                s.violate('InteractionRDM.expectation modified the operator or the RDM', cc, {})
        except Exception as e:
            s.violate('InteractionRDM.expectation (complex) raised %s: %s' % (type(e).__name__, e), cc, {})
    return s


def dense_one_c(h1):
    return np.tensordot(np.asarray(h1, dtype=complex), e1(np.asarray(h1).shape[0]), axes=([0, 1], [0, 1]))


def dense_two_c(h2):
    h2 = np.asarray(h2, dtype=complex)
    n = h2.shape[0]
    a, ad = ladder(n)
    E = e1(n)
    H = np.zeros((2 ** n, 2 ** n), dtype=complex)
    for p in range(n):
        for q in range(n):
            blk = h2[p, :, :, q]
            if blk.any():
                H += ad[p] @ np.tensordot(blk, E, axes=([0, 1], [0, 1])) @ a[q]
    return H


# ----------------------------------------------------------------------------- (T) containers of the index arguments

INDEX_KINDS = ['list', 'tuple', 'range', 'int64', 'int32', 'uint8', 'where', 'arange', 'npints', 'set', 'none']
# accepted on the unmodified tree (probed once, hard-coded on purpose: a run-time probe would adapt to a modified tree):
#   occupied_indices : every kind (None only when empty; not None for freeze_orbitals)
#   active_indices   : every kind except set (numpy.ix_ rejects sets) and None
#   unoccupied (freeze_orbitals) : every kind except set; None when empty
OCC_KINDS = ['list', 'tuple', 'range', 'int64', 'int32', 'uint8', 'where', 'arange', 'npints', 'set', 'none']
ACT_KINDS = ['list', 'tuple', 'range', 'int64', 'int32', 'uint8', 'where', 'arange', 'npints']
FRZ_OCC_KINDS = ['list', 'tuple', 'range', 'int64', 'int32', 'uint8', 'where', 'arange', 'npints', 'set']
FRZ_UNOCC_KINDS = ['list', 'tuple', 'range', 'int64', 'int32', 'uint8', 'where', 'arange', 'npints', 'none']


def as_container(kind, l, universe):
    """the index list `l` (increasing) as another container; None if that container cannot hold it"""
    l = list(l)
    contiguous = bool(l) and l == list(range(l[0], l[-1] + 1))
    if kind == 'list':
        return list(l)
    if kind == 'tuple':
        return tuple(l)
    if kind == 'range':
        return range(l[0], l[-1] + 1) if contiguous else (range(0) if not l else None)
    if kind in ('int64', 'int32', 'uint8'):
        return np.array(l, dtype=kind)
    if kind == 'where':
        return np.where(np.isin(np.arange(universe), l))[0]
    if kind == 'arange':
        return np.arange(l[0], l[-1] + 1) if contiguous else (np.arange(0) if not l else None)
    if kind == 'npints':
        return [np.int64(x) for x in l]
    if kind == 'set':
        return set(l)
    if kind == 'none':
        return 'NONE' if not l else None
    raise AssertionError(kind)


def stream_indices(ctx):
    s = Stream('index-containers', '(T) occupied / active / unoccupied index arguments of get_active_space_integrals (function and '
               'MolecularData method), get_molecular_hamiltonian and freeze_orbitals as list, tuple, range, numpy int64 / int32 / '
               'uint8 arrays, numpy.where(..)[0], numpy.arange, lists of numpy integers, sets, empty containers and None (the '
               'combinations the unmodified tree accepts are hard-coded), single-element cases [0] / array([0]) included: the '
               'result must equal the list form exactly and pass the sector-matrix-element oracle; distinct = distinct '
               '(integrals, partition, function, containers)')
    of = ctx.of
    from openfermion.ops.representations import interaction_operator as io
    from openfermion.transforms import freeze_orbitals, get_fermion_operator, normal_ordered
    rng = rng_for(ctx.seed, 'c17-indices')
    N = budget(ctx.tier, 25, 200)
    if ctx.drift:
        N = max(N, 90)

    def unwrap(x):
        return None if isinstance(x, str) else x
    for t in range(N):
        n = rng.choice([2, 3, 3, 4])
        one = sym2(rng, n)
        two = sym8(rng, n)
        nuc = rng.choice([0.0, 0.25])
        mol = of.chem.MolecularData(geometry=[('H', (0, 0, 0)), ('H', (0, 0, 0.7))], basis='sto-3g', multiplicity=1,
                                    charge=0, filename='_c17_never_written')
        mol.one_body_integrals, mol.two_body_integrals, mol.nuclear_repulsion = one.copy(), two.copy(), nuc
        Hfull = molecular_dense(nuc, one, two)
        full_fo = get_fermion_operator(mol.get_molecular_hamiltonian())
        parts = [([0], [1]), ([0], list(range(1, n))), ([], list(range(n))), ([], [0])]
        if n >= 3:
            parts += [([0, 1], [2]), ([1], [0, 2]), ([0, 2], [1]), ([2], [0, 1])]
        for occ, act in rng.sample(parts, min(len(parts), 4)):
            ref = io.get_active_space_integrals(one.copy(), two.copy(), list(occ), list(act))
            ref_op = mol.get_molecular_hamiltonian(list(occ), list(act))
            idx, sgn = sector_embed(n, occ, act)
            block = Hfull[np.ix_(idx, idx)] * np.outer(sgn, sgn)
            occ_so = [2 * i + sg for i in occ for sg in range(2)]
            virt_so = [2 * i + sg for i in range(n) if i not in occ and i not in act for sg in range(2)]
            ref_fr = normal_ordered(freeze_orbitals(full_fo, list(occ_so), list(virt_so)))
            for fn in ('get_active_space_integrals', 'MolecularData.get_active_space_integrals', 'get_molecular_hamiltonian',
                       'freeze_orbitals'):
                frz = fn == 'freeze_orbitals'
                ko = rng.choice(FRZ_OCC_KINDS if frz else OCC_KINDS)
                ka = rng.choice(FRZ_UNOCC_KINDS if frz else ACT_KINDS)
                o = as_container(ko, occ_so if frz else occ, 2 * n)
                a = as_container(ka, virt_so if frz else act, 2 * n)
                if o is None or a is None:
                    continue
                c = {'fn': fn, 'n_spatial': n, 'one_body_integrals': one.tolist(), 'two_body_integrals': two.tolist(),
                     'nuclear_repulsion': nuc, 'occupied_indices': occ, 'active_indices': act,
                     'occupied_container': ko, 'active_container': ka}
                s.case(c)
                s.count('fn:' + fn)
                s.count('occupied:' + ko + ('(empty)' if not occ else '(single)' if len(occ) == 1 else ''))
                s.count('active:' + ka)
                try:
                    if fn == 'get_active_space_integrals':
                        got = io.get_active_space_integrals(one.copy(), two.copy(), unwrap(o), unwrap(a))
                    elif fn == 'MolecularData.get_active_space_integrals':
                        got = mol.get_active_space_integrals(unwrap(o), unwrap(a))
                    elif fn == 'get_molecular_hamiltonian':
                        got = mol.get_molecular_hamiltonian(occupied_indices=unwrap(o), active_indices=unwrap(a))
                    else:
                        got = normal_ordered(freeze_orbitals(full_fo, unwrap(o), unwrap(a)))
                except Exception as e:
                    s.violate('%s(occupied as %s, active/unoccupied as %s) raised %s: %s' % (fn, ko, ka, type(e).__name__, e), c, {})
                    continue
                s.float_comparisons += 1
                if fn in ('get_active_space_integrals', 'MolecularData.get_active_space_integrals'):
                    same_ = (float(got[0]) == float(ref[0]) and exact_equal(got[1], ref[1]) and exact_equal(got[2], ref[2]))
                    Hact = molecular_dense(nuc + float(got[0]), np.array(got[1], dtype=float), np.array(got[2]))
                    orc = err(block - Hact) <= TOL
                elif fn == 'get_molecular_hamiltonian':
                    same_ = (got.constant == ref_op.constant and exact_equal(got.one_body_tensor, ref_op.one_body_tensor)
                             and exact_equal(got.two_body_tensor, ref_op.two_body_tensor))
                    m_ = len(act)
                    Hop = got.constant * np.eye(4 ** m_, dtype=complex) + dense_one(got.one_body_tensor) + dense_two(got.two_body_tensor)
                    orc = err(block - Hop) <= 1e-7
                else:
                    d_ = got - ref_fr
                    same_ = max([abs(v) for v in d_.terms.values()] + [0.0]) == 0.0
                    orc = True
                if not same_:
                    s.violate('%s: result for occupied as %s / active (unoccupied) as %s differs from the result for plain lists'
                              % (fn, ko, ka), c, {})
                elif not orc:
                    s.violate('%s (%s / %s containers): sector matrix elements differ from the full Hamiltonian' % (fn, ko, ka), c, {})
    return s


# ----------------------------------------------------------------------------- entry points


def replay(ctx, payload):
    """re-run the oracle of a recorded violation; True = the recorded input no longer fails"""
    v = payload.get('violation')
    if not v:
        return None
    inp = v['input']
    of = ctx.of
    try:
        if 'occupied_container' in inp:
            from openfermion.ops.representations import interaction_operator as io
            from openfermion.transforms import freeze_orbitals, get_fermion_operator, normal_ordered
            n, occ, act, nuc = inp['n_spatial'], inp['occupied_indices'], inp['active_indices'], inp['nuclear_repulsion']
            one, two = np.array(inp['one_body_integrals']), np.array(inp['two_body_integrals'])
            mol = of.chem.MolecularData(geometry=[('H', (0, 0, 0)), ('H', (0, 0, 0.7))], basis='sto-3g', multiplicity=1,
                                        charge=0, filename='_c17_never_written')
            mol.one_body_integrals, mol.two_body_integrals, mol.nuclear_repulsion = one.copy(), two.copy(), nuc
            fn, frz = inp['fn'], inp['fn'] == 'freeze_orbitals'
            occ_so = [2 * i + sg for i in occ for sg in range(2)]
            virt_so = [2 * i + sg for i in range(n) if i not in occ and i not in act for sg in range(2)]
            o = as_container(inp['occupied_container'], occ_so if frz else occ, 2 * n)
            a = as_container(inp['active_container'], virt_so if frz else act, 2 * n)
            o = None if isinstance(o, str) else o
            a = None if isinstance(a, str) else a
            idx, sgn = sector_embed(n, occ, act)
            block = molecular_dense(nuc, one, two)[np.ix_(idx, idx)] * np.outer(sgn, sgn)
            if fn in ('get_active_space_integrals', 'MolecularData.get_active_space_integrals'):
                ref = io.get_active_space_integrals(one.copy(), two.copy(), list(occ), list(act))
                got = (io.get_active_space_integrals(one.copy(), two.copy(), o, a) if fn == 'get_active_space_integrals'
                       else mol.get_active_space_integrals(o, a))
                Hact = molecular_dense(nuc + float(got[0]), np.array(got[1], dtype=float), np.array(got[2]))
                return bool(float(got[0]) == float(ref[0]) and exact_equal(got[1], ref[1]) and exact_equal(got[2], ref[2])
                            and err(block - Hact) <= TOL)
            if fn == 'get_molecular_hamiltonian':
                ref = mol.get_molecular_hamiltonian(list(occ), list(act))
                got = mol.get_molecular_hamiltonian(occupied_indices=o, active_indices=a)
                Hop = got.constant * np.eye(4 ** len(act), dtype=complex) + dense_one(got.one_body_tensor) + dense_two(got.two_body_tensor)
                return bool(got.constant == ref.constant and exact_equal(got.one_body_tensor, ref.one_body_tensor)
                            and exact_equal(got.two_body_tensor, ref.two_body_tensor) and err(block - Hop) <= 1e-7)
            fo = get_fermion_operator(mol.get_molecular_hamiltonian())
            d_ = normal_ordered(freeze_orbitals(fo, o, a)) - normal_ordered(freeze_orbitals(fo, list(occ_so), list(virt_so)))
            return bool(max([abs(x) for x in d_.terms.values()] + [0.0]) == 0.0)
        if str(inp.get('fn', '')).endswith('(dense oracle)'):
            from openfermion.circuits import low_rank
            from openfermion.chem.molecular_data import spinorb_from_spatial
            k = inp['type']
            tolk = SINGLE_TOL if k == 'float32' else TOL
            if 'one_body_matrix' in inp:
                hs = np.array(inp['one_body_matrix'], dtype=float)
                V, R_ = low_rank.prepare_one_body_squared_evolution(typed_real(hs, k), spin_basis=inp['spin_basis'])
                mm = hs.shape[0]
                a_, ad_ = ladder(mm)
                H1 = dense_one(hs)
                b = [sum(R_[p_, q_] * a_[q_] for q_ in range(mm)) for p_ in range(mm)]
                nb = [x.conj().T @ x for x in b]
                rhs = sum(V[p_, q_] * nb[p_] @ nb[q_] for p_ in range(mm) for q_ in range(mm))
                return bool(err(H1 @ H1 - rhs) <= tolk * max(1.0, err(H1 @ H1))
                            and err(np.asarray(R_) @ np.asarray(R_).conj().T - np.eye(mm)) <= 10 * tolk)
            n, spin, two = inp['n_spatial'], inp['spin_basis'], np.array(inp['two_body_integrals'], dtype=float)
            h = spinorb_from_spatial(np.zeros((n, n)), two)[1] if spin else two
            ht = typed_real(h, k)
            lam, sq, corr, tv = low_rank.low_rank_two_body_decomposition(ht, final_rank=n * n, spin_basis=spin)
            Href = dense_two(h) if spin else molecular_dense(0.0, np.zeros((n, n)), 2 * h)
            R = dense_one_c(corr)
            for l in range(len(lam)):
                O = dense_one_c(sq[l])
                R = R + lam[l] * O @ O
            corr2, chem = low_rank.get_chemist_two_body_coefficients(ht, spin_basis=spin)
            E = e1(2 * n)
            Rc = dense_one_c(corr2)
            for p_, q_, r_, s_ in itertools.product(range(n), repeat=4):
                if chem[p_, q_, r_, s_] != 0:
                    for sg in range(2):
                        for tt_ in range(2):
                            Rc = Rc + chem[p_, q_, r_, s_] * E[2 * p_ + sg, 2 * q_ + sg] @ E[2 * r_ + tt_, 2 * s_ + tt_]
            tl = tolk * max(1.0, err(Href))
            return bool(err(Href - R) <= tl and err(Href - Rc) <= tl)
        if 'type' in inp and 'index_type' in inp:
            # (T)/(S) record of the robust stream
            from openfermion.circuits import low_rank
            from openfermion.chem.molecular_data import spinorb_from_spatial
            from openfermion.ops.representations import interaction_operator as io
            n = inp['n_spatial']
            one, two = np.array(inp['one_body_integrals'], dtype=float), np.array(inp['two_body_integrals'], dtype=float)
            occ, act, ik = inp['occupied_indices'], inp['active_indices'], inp['index_type']

            def conv(l):
                if ik == 'tuple':
                    return tuple(l)
                if ik == 'ndarray':
                    return np.array(l, dtype=int)
                if ik == 'range' and l == list(range(len(l))) and l:
                    return range(len(l))
                return list(l)
            calls = {
                'spinorb_from_spatial': lambda o, tt: spinorb_from_spatial(o, tt),
                'get_tensors_from_integrals': lambda o, tt: io.get_tensors_from_integrals(o, tt),
                'get_active_space_integrals': lambda o, tt: io.get_active_space_integrals(o, tt, conv(occ), conv(act)),
                'get_chemist_two_body_coefficients': lambda o, tt: low_rank.get_chemist_two_body_coefficients(tt, spin_basis=False),
                'low_rank_two_body_decomposition': lambda o, tt: low_rank.low_rank_two_body_decomposition(tt, final_rank=n * n, spin_basis=False)[2:],
            }
            f = calls[inp['fn']]

            def flat(res):
                return [np.array(x, dtype=complex, copy=True) for x in (res if isinstance(res, tuple) else (res,))]
            ot, tt = typed_real(one, inp['type']), typed_real(two, inp['type'])
            o0_, t0_ = ot.copy(), tt.copy()
            ref = flat(f(one.copy(), two.copy()))
            res1 = f(ot, tt)
            got = flat(res1)
            tol = SINGLE_TOL if inp['type'] == 'float32' else TOL
            ok = len(ref) == len(got) and all(same(a, b, tol) for a, b in zip(ref, got))
            ok = ok and np.array_equal(ot, o0_) and np.array_equal(tt, t0_) and ot.dtype == o0_.dtype
            for x in (res1 if isinstance(res1, tuple) else (res1,)):
                if isinstance(x, np.ndarray) and x.flags.writeable and not np.shares_memory(x, ot) and not np.shares_memory(x, tt):
                    x[...] = 9
            got2 = flat(f(ot, tt))
            return bool(ok and all(same(a, b, 0.0) for a, b in zip(got, got2)))
        if 'state' in inp:
            from openfermion.utils import rdm_mapping_functions as Rm
            n, Np = inp['n'], inp['N']
            psi = np.zeros(2 ** n, dtype=complex)
            for k, (re_, im_) in inp['state'].items():
                psi[int(k, 2)] = complex(re_, im_)
            d = direct_rdms(psi, n)
            holes = n - Np
            table = {
                'two_pdm_to_one_pdm': (lambda: Rm.map_two_pdm_to_one_pdm(d['tpdm'], Np), 'opdm'),
                'two_pdm_to_two_hole': (lambda: Rm.map_two_pdm_to_two_hole_dm(d['tpdm'], d['opdm']), 'tqdm'),
                'two_hole_to_two_pdm': (lambda: Rm.map_two_hole_dm_to_two_pdm(d['tqdm'], d['opdm']), 'tpdm'),
                'two_hole_to_one_hole': (lambda: Rm.map_two_hole_dm_to_one_hole_dm(d['tqdm'], holes), 'oqdm'),
                'one_pdm_to_one_hole': (lambda: Rm.map_one_pdm_to_one_hole_dm(d['opdm']), 'oqdm'),
                'one_hole_to_one_pdm': (lambda: Rm.map_one_hole_dm_to_one_pdm(d['oqdm']), 'opdm'),
                'two_pdm_to_ph': (lambda: Rm.map_two_pdm_to_particle_hole_dm(d['tpdm'], d['opdm']), 'phdm'),
                'ph_to_two_pdm': (lambda: Rm.map_particle_hole_dm_to_two_pdm(d['phdm'], d['opdm']), 'tpdm'),
                'ph_to_one_pdm': (lambda: Rm.map_particle_hole_dm_to_one_pdm(d['phdm'], Np, n), 'opdm'),
            }
            if inp.get('map') == 'one_hole_routes':
                via2 = Rm.map_two_hole_dm_to_one_hole_dm(Rm.map_two_pdm_to_two_hole_dm(d['tpdm'], d['opdm']), holes)
                return bool(err(np.asarray(via2) - np.asarray(Rm.map_one_pdm_to_one_hole_dm(d['opdm']))) <= TOL)
            if 'map' in inp:
                call, target = table[inp['map']]
                return bool(err(np.asarray(call()) - d[target]) <= TOL)
            if inp.get('fn') == 'expectation':
                o1, o2 = np.array(inp['one_body']), np.array(inp['two_body'])
                op = of.InteractionOperator(inp['constant'], o1.copy(), o2.copy())
                ev1 = complex(of.InteractionRDM(d['opdm'].copy(), d['tpdm'].copy()).expectation(op))
                Hd = inp['constant'] * np.eye(2 ** n, dtype=complex) + dense_one(o1) + dense_two(o2)
                ref = np.vdot(psi, Hd @ psi)
                ok = abs(ev1 - ref) <= TOL * max(1.0, abs(ref))
                if n <= 3:
                    herm = of.InteractionOperator(inp['constant'], (o1 + o1.T) / 2, (o2 + o2.transpose(3, 2, 1, 0)) / 2)
                    e2 = complex(of.InteractionRDM(d['opdm'].copy(), d['tpdm'].copy()).expectation(of.jordan_wigner(herm)))
                    Hh = inp['constant'] * np.eye(2 ** n, dtype=complex) + dense_one((o1 + o1.T) / 2) + dense_two((o2 + o2.transpose(3, 2, 1, 0)) / 2)
                    ref2 = np.vdot(psi, Hh @ psi)
                    ok = ok and abs(e2 - ref2) <= TOL * max(1.0, abs(ref2))
                return bool(ok)
            if inp.get('fn') == 'get_interaction_rdm':
                from openfermion.measurements import get_interaction_rdm
                qop = of.QubitOperator()
                for word in itertools.product('IXYZ', repeat=n):
                    Mx = np.array([[1.0 + 0j]])
                    for ch in word:
                        Mx = np.kron(Mx, PAULI[ch])
                    qop += of.QubitOperator(tuple((i, ch) for i, ch in enumerate(word) if ch != 'I'), np.vdot(psi, Mx @ psi))
                rdm = get_interaction_rdm(qop, n)
                return bool(err(rdm.one_body_tensor - d['opdm']) <= TOL and err(rdm.two_body_tensor - d['tpdm']) <= TOL)
            return None
        if 'occupied_indices' in inp:
            from openfermion.ops.representations import interaction_operator as io
            one, two = np.array(inp['one_body_integrals']), np.array(inp['two_body_integrals'])
            n, occ, act, nuc = inp['n_spatial'], inp['occupied_indices'], inp['active_indices'], inp['nuclear_repulsion']
            core, o_new, t_new = io.get_active_space_integrals(one.copy(), two.copy(), list(occ), list(act))
            idx, sgn = sector_embed(n, occ, act)
            block = molecular_dense(nuc, one, two)[np.ix_(idx, idx)] * np.outer(sgn, sgn)
            if err(block - molecular_dense(nuc + core, np.array(o_new, dtype=float), np.array(t_new))) > TOL:
                return False
            mol = of.chem.MolecularData(geometry=[('H', (0, 0, 0)), ('H', (0, 0, 0.7))], basis='sto-3g', multiplicity=1,
                                        charge=0, filename='_c17_never_written')
            mol.one_body_integrals, mol.two_body_integrals, mol.nuclear_repulsion = one.copy(), two.copy(), nuc
            act_op = mol.get_molecular_hamiltonian(list(occ), list(act))
            m = len(act)
            Hop = act_op.constant * np.eye(4 ** m, dtype=complex) + dense_one(act_op.one_body_tensor) + dense_two(act_op.two_body_tensor)
            return bool(err(block - Hop) <= 1e-7)
        if 'two_body_integrals' in inp and 'spin_basis' in inp and 'eightfold' not in inp:
            from openfermion.circuits import low_rank
            from openfermion.chem.molecular_data import spinorb_from_spatial
            n, spin, two = inp['n_spatial'], inp['spin_basis'], np.array(inp['two_body_integrals'])
            h = 0.5 * spinorb_from_spatial(np.zeros((n, n)), two)[1] if spin else 0.5 * two
            full = n * n
            lam, sq, corr, tv0 = low_rank.low_rank_two_body_decomposition(h.copy(), final_rank=full, spin_basis=spin)
            ws = [abs(lam[l]) * np.sum(np.absolute(sq[l])) ** 2 for l in range(full)]
            total = float(sum(ws))
            if 'final_rank' not in inp and 'truncation_threshold' not in inp:
                return True   # the recorded failure was an exception of the full-rank call, which now returned
            if 'final_rank' in inp:
                lam2, sq2, _, tv = low_rank.low_rank_two_body_decomposition(h.copy(), final_rank=inp['final_rank'], spin_basis=spin)
            else:
                lam2, sq2, _, tv = low_rank.low_rank_two_body_decomposition(h.copy(), truncation_threshold=inp['truncation_threshold'],
                                                                           spin_basis=spin)
            L = len(lam2)
            scale = TOL * max(1.0, total)
            ok = abs(float(sum(ws[L:])) - tv) <= scale
            if 'truncation_threshold' in inp and inp['truncation_threshold'] >= 0:
                th = inp['truncation_threshold']
                ok = ok and tv <= th + scale and L >= 1 and all(float(sum(ws[k:])) > th for k in range(1, L))
            if inp.get('final_rank') == full:
                Href = dense_two(h) if spin else molecular_dense(0.0, np.zeros((n, n)), 2 * h)
                R = dense_one(corr)
                for l in range(len(lam)):
                    O = dense_one(sq[l])
                    R = R + lam[l] * O @ O
                ok = ok and err(Href - R) <= TOL * max(1.0, err(Href))
            return bool(ok)
    except Exception:
        return False
    return None


def run(ctx):
    # freeze_orbitals is anchored by C16 and C17 alike: its Model correspondence and Spec oracle
    # (unsorted / repeated orbital lists, prune, signs) live in harness/c16.py and run here as well
    import c16
    return [stream_chemist(ctx), stream_lowrank(ctx), stream_integrals(ctx), stream_rdm(ctx), stream_robust(ctx), stream_indices(ctx),
            c16.stream_freeze(ctx)]
