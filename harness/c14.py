"""C14 — circuit primitives and gates.

Streams
  swap-network      real `swap_network` (recording callback, both offsets, both swap kinds) vs the
                    Lean Model `swapNetwork` (exact) + Spec contract `swapOk` on the real log
  gates             cirq.unitary(real gate) vs Model matrices over GQ at rational points of the
                    unit circle (1e-9) + oracle: exp(-i t G) with G built from Jordan-Wigner
                    ladder matrices exported by the Lean Spec (scipy expm), decompositions,
                    FSWAP-conjugation of weights, gates from an InteractionOperator
  primitives-glue   initial-state decoding, bit flips, op order / placement, ffft recursion vs Model
  primitives        oracle: U a^dagger_p U^-1 = sum_q W_pq a^dagger_q (+ W_p,N+q a_q), prepared states,
                    ffft, optimal_givens_decomposition, on <= 5 qubits, all initial basis states
"""
import itertools
import math
from fractions import Fraction

import os

# small dense matrices only: BLAS threads cost more than they give and oversubscribe a shared machine
for _v in ('OPENBLAS_NUM_THREADS', 'OMP_NUM_THREADS', 'MKL_NUM_THREADS'):
    os.environ.setdefault(_v, '1')

import numpy as np  # noqa: E402

from common import Stream, budget, rng_for, to_gq, from_gq

TOL = 1e-9

OPEN_STATEMENTS = [
    'gate theorems are about the Model matrices (exact, rational points of the unit circle); that cirq.unitary '
    'of the real gate equals the Model matrix is a 1e-9 float comparison (correspondence), not a theorem',
    'CubicFermionicSimulationGate with general weights: proved are generator = JW image of the extracted components and the '
    'characteristic equation of the 3x3 block (cubic_generator_is_jw, cubic_block_characteristic); the eigenvalues themselves '
    '(numpy.linalg.eigh, irrational) and hence the unitary are covered by the oracle exp(-i t G) only',
    'DoubleExcitationGate: generator, eigen-components and spectral form are proved (double_excitation_spectral); quartic gate: '
    'generator = JW image (quartic_generator_is_jw); the 16x16 product of its three rotations is not proved',
    'QuarticFermionicSimulationGate._decompose_ (numerical matrix square root of a product of expm) and '
    'DoubleExcitationGate._decompose_ (Z**(1/8): entries in Q(zeta_16), outside the Gaussian rationals the Model computes with) '
    'cannot be stated as matrix identities over GQ at rational points; oracle decomposition == gate only',
    'slater_circuit_structure (adjacent qubits, parallel layers) is proved for descriptions drawn from the C11 schedule; that the real '
    'givens_decomposition_square output is such a description is checked on generated matrices (correspondence)',
    'bogoliubov_transform / prepare_* / optimal_givens_decomposition / ffft: the conjugation identity and the prepared '
    'states are checked numerically (oracle, <= 5 resp. 8 qubits); the Givens decompositions themselves belong to C11; '
    'ffft: ffft_is_dft proves for EVERY size n that the emitted op list implements the DFT on the one-particle sector, given the '
    'single-gate actions of F0 / _TwiddleGate / _permute / the prime blocks (prime blocks are bogoliubov_transform circuits whose '
    'DFT action is their specification: C11 + gate-action oracle); conjugation_determines_fock_action lifts one-particle statements '
    'to Fock space abstractly; that the real gates have these single-gate actions and the normalisation n^{-1/2} are the oracle',
]
ASSUMPTIONS = [
    'cirq.unitary / cirq.Circuit.unitary, scipy.linalg.expm and numpy are trusted numerical kernels (abs. tol. 1e-9)',
    'float angles atan2(s, c) of rational points (c, s) are accurate to 1 ulp',
]
TRUSTED = ['C14: openfermion.linalg Givens decompositions are inputs of the primitives Model (property C11); '
           'get_fermion_operator is used to read the terms of an InteractionOperator for the gates-from-operator oracle']


# ------------------------------------------------------------------ helpers

def gq_to_c(j):
    a, b = from_gq(j)
    return complex(float(a), float(b))


def mat_from_json(m):
    return np.array([[gq_to_c(x) for x in r] for r in m], dtype=complex)


def rat(fr):
    fr = Fraction(fr)
    return [fr.numerator, fr.denominator]


def gqj(c, s):
    c, s = Fraction(c), Fraction(s)
    return [c.numerator, c.denominator, s.numerator, s.denominator]


def unit_points(rng, k):
    """rational points of the unit circle, incl. the axis points and all quadrants"""
    pts = [(Fraction(1), Fraction(0)), (Fraction(0), Fraction(1)), (Fraction(-1), Fraction(0)),
           (Fraction(0), Fraction(-1)), (Fraction(3, 5), Fraction(4, 5)), (Fraction(-5, 13), Fraction(12, 13))]
    while len(pts) < k:
        p, q = rng.randint(1, 9), rng.randint(1, 9)
        if p == q:
            continue
        c, s = Fraction(p * p - q * q, p * p + q * q), Fraction(2 * p * q, p * p + q * q)
        if rng.random() < 0.5:
            s = -s
        if rng.random() < 0.3:
            c, s = s, c
        pts.append((c, s))
    return pts


def ang(pt):
    return math.atan2(float(pt[1]), float(pt[0]))


class Ladders:
    """Jordan-Wigner ladder matrices from the Lean Spec (`c14.ladder`), cached"""

    def __init__(self, driver):
        self.driver = driver
        self.cache = {}

    def prefetch(self, ns):
        reqs, keys = [], []
        for n in ns:
            for p in range(n):
                for a in (0, 1):
                    if (n, p, a) not in self.cache:
                        reqs.append({'op': 'c14.ladder', 'n': n, 'p': p, 'a': a})
                        keys.append((n, p, a))
        for k, r in zip(keys, self.driver.run(reqs)):
            m = np.zeros((2 ** k[0], 2 ** k[0]), dtype=complex)
            for row, col, sgn in r:
                m[row, col] = sgn
            self.cache[k] = m

    def get(self, n, p, a):
        if (n, p, a) not in self.cache:
            self.prefetch([n])
        return self.cache[(n, p, a)]

    def term(self, n, term):
        m = np.eye(2 ** n, dtype=complex)
        for (i, a) in term:
            m = m @ self.get(n, i, a)
        return m

    def op(self, n, terms):
        """matrix of {term: coeff} (FermionOperator.terms)"""
        m = np.zeros((2 ** n, 2 ** n), dtype=complex)
        for t, c in terms.items():
            m = m + c * self.term(n, t)
        return m


def maxdiff(a, b):
    a, b = np.asarray(a), np.asarray(b)
    if a.shape != b.shape:
        return float('inf')
    return float(np.abs(a - b).max()) if a.size else 0.0


def phase_diff(a, b):
    """distance of two vectors / matrices up to a global phase"""
    a, b = np.asarray(a).ravel(), np.asarray(b).ravel()
    k = int(np.argmax(np.abs(b)))
    if abs(b[k]) < 1e-6 or abs(a[k]) < 1e-6:
        return float(np.abs(a - b).max())
    ph = a[k] / b[k]
    ph = ph / abs(ph)
    return float(np.abs(a - ph * b).max())


def circuit_unitary(cirq, ops, qubits):
    c = cirq.Circuit(ops)
    c.append([cirq.I(q) for q in qubits])
    return c.unitary(qubit_order=qubits)


def safe(stream, what, case, f):
    """run implementation code; an exception on an admissible input is a violation"""
    try:
        return True, f()
    except Exception as e:  # noqa: BLE001
        stream.violate('%s raised %s' % (what, type(e).__name__), case, {'exception': repr(e)[:300]})
        return False, None


# ------------------------------------------------------------------ swap network

def swap_stream(ctx):
    import cirq
    of = ctx.of
    st = Stream('swap-network', 'real swap_network with a recording callback (nested op trees) for every n <= N, '
                'offset in {False, True}, fermionic in {False, True}: callback log (p, q, qubit positions) and emitted '
                'swap gates compared exactly with the Model; Spec contract swapOk (every unordered pair exactly once, '
                'adjacent, order reversed) evaluated by the Lean Spec on the real log; distinct = (n, offset, fermionic)')
    nmax = budget(ctx.tier, 26, 64)
    if ctx.drift:
        nmax = max(nmax, 48)
    rng = rng_for(ctx.seed, 'c14-swap')
    sizes = list(range(0, nmax + 1))
    if ctx.tier == 'quick':
        sizes += [rng.randint(nmax + 1, max(nmax + 1, 44)) for _ in range(2)]
    cases = [(n, off, fer) for n in sizes for off in (False, True) for fer in (False, True)]
    model = ctx.driver.run([{'op': 'c14.swap', 'n': n, 'offset': off} for (n, off, fer) in cases])
    spec_reqs, spec_cases = [], []
    for (n, off, fer), mo in zip(cases, model):
        case = {'n': n, 'offset': off, 'fermionic': fer}
        st.case(case)
        st.count('n<=8' if n <= 8 else 'n<=26' if n <= 26 else 'n>26')
        # qubits deliberately not in index order so that positions and modes cannot be confused
        qubits = [cirq.LineQubit(3 * i + 1) for i in range(n)]
        pos = {q: i for i, q in enumerate(qubits)}
        log = []

        def operation(p, q, a, b, log=log, pos=pos):
            log.append([int(p), int(q), pos[a], pos[b]])
            k = len(log)
            # nested op tree, tagged so that the emitted order can be checked
            return [cirq.CZ(a, b) ** (k / 4096.0), [cirq.Z(a) ** (p / 64.0), (cirq.Z(b) ** (q / 64.0),)]]

        ok, res = safe(st, 'swap_network', case,
                       lambda: of.swap_network(qubits, operation, fermionic=fer, offset=off))
        if not ok:
            continue
        if log != mo['log']:
            st.disagree('callback log', case, log[:40], mo['log'][:40])
        # emitted operations: callback ops of call k, then the swap of the same qubits
        swap_gate = of.FSWAP if fer else cirq.SWAP
        expect = []
        for k, (p, q, a, b) in enumerate(log, 1):
            qa, qb = qubits[a], qubits[b]
            expect += [cirq.CZ(qa, qb) ** (k / 4096.0), cirq.Z(qa) ** (p / 64.0), cirq.Z(qb) ** (q / 64.0),
                       swap_gate(qa, qb)]
        if list(res) != expect:
            st.violate('emitted operations are not [callback ops, swap of the same adjacent qubits] per call',
                       case, {'n_ops': len(res), 'expected': len(expect)})
        # final order, derived from the emitted swap gates alone
        order = list(range(n))
        for op in res:
            if op.gate == swap_gate:
                i, j = pos[op.qubits[0]], pos[op.qubits[1]]
                order[i], order[j] = order[j], order[i]
        if order != mo['order']:
            st.disagree('final order', case, order, mo['order'])
        spec_reqs.append({'op': 'c14.swapspec', 'n': n, 'order': order, 'log': log})
        spec_cases.append(case)
        # default callback and default arguments
        if n <= 6:
            ok, res0 = safe(st, 'swap_network(default operation)', case, lambda: of.swap_network(qubits, offset=off))
            if ok and len(res0) != n * (n - 1) // 2:
                st.violate('default operation: number of swaps', case, {'got': len(res0)})
    for case, a in zip(spec_cases, ctx.driver.run(spec_reqs)):
        st.count('oracle:swapOk')
        if not a['ok']:
            st.violate('swap network contract violated (diag %d: 1 order, 2 adjacency, 3 validity, 4 pair coverage)'
                       % a['diag'], case, {'diag': a['diag']})
    st.exhaustive = False
    return st


# ------------------------------------------------------------------ gates

PAULI = {'I': np.eye(2), 'X': np.array([[0, 1], [1, 0]], dtype=complex),
         'Y': np.array([[0, -1j], [1j, 0]]), 'Z': np.diag([1.0 + 0j, -1.0])}


def kron(*ms):
    out = np.array([[1.0 + 0j]])
    for m in ms:
        out = np.kron(out, m)
    return out


def rot_params(pt, u):
    """(c, s, u) of a two-level rotation: r-list entries and g entry"""
    return [rat(pt[0]), rat(pt[1])], gqj(u[0], u[1])


def gates_stream(ctx, lad):
    import cirq
    import scipy.linalg as la
    of = ctx.of
    st = Stream('gates', 'cirq.unitary of the real gate at float angles atan2(s, c) of rational unit-circle points vs the '
                'Model matrix over GQ (abs 1e-9); oracle: expm(-i t G) with G from the documented fermionic / Pauli '
                'generator built on Jordan-Wigner ladder matrices exported by the Lean Spec; conjugation identities; '
                'decompositions; fswap() weight updates; gates from InteractionOperators; distinct = (gate, parameters)')
    rng = rng_for(ctx.seed, 'c14-gates')
    npts = budget(ctx.tier, 14, 60)
    if ctx.drift:
        npts = max(npts, 30)
    pts = unit_points(rng, npts)
    lad.prefetch([2, 3, 4])
    cr = lambda n, p: lad.get(n, p, 1)  # noqa: E731
    an = lambda n, p: lad.get(n, p, 0)  # noqa: E731
    XX, YY = kron(PAULI['X'], PAULI['X']), kron(PAULI['Y'], PAULI['Y'])
    YX, XY, ZZ = kron(PAULI['Y'], PAULI['X']), kron(PAULI['X'], PAULI['Y']), kron(PAULI['Z'], PAULI['Z'])
    reqs, todo = [], []

    def model(name, r=(), g=(), k=0):
        reqs.append({'op': 'c14.gate', 'name': name, 'r': list(r), 'g': list(g), 'k': k})
        return len(reqs) - 1

    def cmp_later(case, what, U, idx):
        todo.append((case, what, U, idx))

    def oracle(case, what, U, V, up_to_phase=False):
        st.float_comparisons += 1
        st.count('oracle:' + what.split(':')[0])
        d = phase_diff(U, V) if up_to_phase else maxdiff(U, V)
        if not d <= TOL:
            st.violate(what, case, {'max_abs_difference': d})
            return False
        return True

    # ---- one-parameter gates
    for pt in pts:
        th = ang(pt)
        r = [rat(pt[0]), rat(pt[1])]
        two = [
            ('Rxxyy', lambda: of.Rxxyy(th), 'rxxyy', la.expm(-1j * th * (XX + YY) / 2)),
            ('Ryxxy', lambda: of.Ryxxy(th), 'ryxxy', la.expm(-1j * th * (YX - XY) / 2)),
            ('Rzz', lambda: of.Rzz(th), 'rzz', la.expm(-1j * th * ZZ)),
            ('rot11', lambda: of.rot11(th), 'rot11', np.diag([1, 1, 1, np.exp(1j * th)])),
            ('rot111', lambda: of.rot111(th), 'rot111', np.diag([1] * 7 + [np.exp(1j * th)])),
            ('CRxxyy', lambda: of.CRxxyy(th), 'crxxyy',
             la.block_diag(np.eye(4), la.expm(-1j * th * (XX + YY) / 2))),
            ('CRyxxy', lambda: of.CRyxxy(th), 'cryxxy',
             la.block_diag(np.eye(4), la.expm(-1j * th * (YX - XY) / 2))),
        ]
        for name, mk, mname, doc in two:
            case = {'gate': name, 'cos': str(pt[0]), 'sin': str(pt[1])}
            st.case(case)
            st.count('gate:' + name)
            ok, U = safe(st, name, case, lambda: cirq.unitary(mk()))
            if not ok:
                continue
            cmp_later(case, name, U, model(mname, r))
            oracle(case, 'documented matrix: %s' % name, U, doc)
            if name in ('Rxxyy', 'Ryxxy'):
                c, s = float(pt[0]), float(pt[1])
                A0, A1 = cr(2, 0), cr(2, 1)
                if name == 'Ryxxy':
                    e0, e1 = c * A0 - s * A1, s * A0 + c * A1
                else:
                    e0, e1 = c * A0 - 1j * s * A1, -1j * s * A0 + c * A1
                oracle(case, 'conjugation: U a0^ U^-1 for %s' % name, U @ A0 @ U.conj().T, e0)
                oracle(case, 'conjugation: U a1^ U^-1 for %s' % name, U @ A1 @ U.conj().T, e1)
        # FSWAP ** t, t = 2 theta / pi
        case = {'gate': 'FSWAP**t', 'cos': str(pt[0]), 'sin': str(pt[1])}
        st.case(case)
        st.count('gate:FSWAP**t')
        t = 2 * th / math.pi
        ok, U = safe(st, 'FSWAP**t', case, lambda: cirq.unitary(of.FSWAP ** t))
        if ok:
            cmp_later(case, 'FSWAP**t', U, model('fswapPow', r))
            # generator of the fermionic swap: FSWAP = exp(i pi P1)
            n0, n1 = cr(2, 0) @ an(2, 0), cr(2, 1) @ an(2, 1)
            hop = cr(2, 0) @ an(2, 1) + cr(2, 1) @ an(2, 0)
            P1 = 0.5 * (n0 + n1 - hop)   # f_swap = 1 + a0^a1 + a1^a0 - n0 - n1 = 1 - 2 P1
            oracle(case, 'generator: FSWAP**t = exp(i pi t P1)', U, la.expm(1j * math.pi * t * P1))
        # DoubleExcitation, exponent t with pi t = theta
        case = {'gate': 'DoubleExcitation', 'cos': str(pt[0]), 'sin': str(pt[1])}
        st.case(case)
        st.count('gate:DoubleExcitation')
        t = th / math.pi
        ok, U = safe(st, 'DoubleExcitation', case, lambda: cirq.unitary(of.DoubleExcitationGate(exponent=t)))
        if ok:
            cmp_later(case, 'DoubleExcitation', U, model('doubleExcitation', r))
            G = np.zeros((16, 16), dtype=complex)
            G[3, 12] = G[12, 3] = -1
            oracle(case, 'generator: DoubleExcitation = exp(-i pi t (-|0011><1100| - h.c.))', U,
                   la.expm(-1j * math.pi * t * G))
            qs = cirq.LineQubit.range(4)
            ok, D = safe(st, 'DoubleExcitation decomposition', case, lambda: circuit_unitary(
                cirq, cirq.decompose_once(of.DoubleExcitationGate(exponent=t)(*qs)), qs))
            if ok:
                oracle(case, 'decomposition: DoubleExcitation', D, U, up_to_phase=True)
    # DoubleExcitation: Model generator vs the fermionic operator -(a2^ a3^ a1 a0 + h.c.) through the Spec ladders
    case = {'gate': 'DoubleExcitation generator'}
    st.case(case)
    Gx = lad.get(4, 2, 1) @ lad.get(4, 3, 1) @ lad.get(4, 1, 0) @ lad.get(4, 0, 0)
    cmp_later(case, 'DoubleExcitation generator (Model) vs -(a2^ a3^ a1 a0 + h.c.)', -(Gx + Gx.conj().T),
              model('doubleExcitationGenerator'))
    # FSWAP itself
    case = {'gate': 'FSWAP'}
    st.case(case)
    U = cirq.unitary(of.FSWAP)
    cmp_later(case, 'FSWAP', U, model('fswap'))
    oracle(case, 'conjugation: FSWAP a0^ FSWAP^-1 = a1^', U @ cr(2, 0) @ U.conj().T, cr(2, 1))
    oracle(case, 'conjugation: FSWAP a1^ FSWAP^-1 = a0^', U @ cr(2, 1) @ U.conj().T, cr(2, 0))
    v = np.zeros(4, dtype=complex)
    v[1] = 0.6
    v[3] = 0.8
    sim = cirq.Simulator(dtype=np.complex128)
    qs2 = cirq.LineQubit.range(2)
    out = sim.simulate(cirq.Circuit(of.FSWAP(*qs2)), initial_state=v, qubit_order=qs2).final_state_vector
    oracle(case, 'apply_unitary: FSWAP fast path', out, U @ v)

    # ---- fermionic simulation gates
    def fermi_H(n, terms):
        h = lad.op(n, terms)
        return h + h.conj().T

    ngates = budget(ctx.tier, 18, 120)
    if ctx.drift:
        ngates = max(ngates, 60)
    exps = [1.0, 0.5, -0.5, 2.0, 0.25, -1.0, 1.5]
    for it in range(ngates):
        t = rng.choice(exps)
        p0, p1, p2 = rng.choice(pts), rng.choice(pts), rng.choice(pts)
        u0, u1, u2 = rng.choice(pts), rng.choice(pts), rng.choice(pts)

        def weight(p, u):
            # |w| t = theta >= 0 is needed for (c, s) = (cos |w|t, sin |w|t): take theta in [0, 2pi) and t's sign into u
            th = ang(p)
            mag = th / t
            if mag < 0:
                mag = (th - 2 * math.pi * (1 if th > 0 else -1)) / t
            if mag == 0:
                return 0j
            return mag * complex(float(u[0]), float(u[1]))

        # Quadratic
        w0 = weight(p0, u0)
        w1 = ang(p1) / t
        case = {'gate': 'Quadratic', 'exponent': t, 'rot': [str(x) for x in p0], 'phase': [str(x) for x in u0],
                'w1t': [str(x) for x in p1]}
        st.case(case)
        st.count('gate:Quadratic')
        uu = u0 if w0 != 0 else (Fraction(1), Fraction(0))
        pp = p0 if w0 != 0 else (Fraction(1), Fraction(0))
        ok, g = safe(st, 'QuadraticFermionicSimulationGate', case,
                     lambda: of.QuadraticFermionicSimulationGate((w0, w1), exponent=t))
        if ok:
            ok, U = safe(st, 'unitary(Quadratic)', case, lambda: cirq.unitary(g))
        if ok:
            r = [rat(pp[0]), rat(pp[1]), rat(p1[0]), rat(p1[1])]
            cmp_later(case, 'Quadratic', U, model('quadratic', r, [gqj(*uu)]))
            Hgen = fermi_H(2, {((0, 1), (1, 0)): w0}) + w1 * (cr(2, 0) @ an(2, 0) @ cr(2, 1) @ an(2, 1))
            oracle(case, 'generator: Quadratic = exp(-i t JW(w0 a0^ a1 + h.c. + w1 n0 n1))', U, la.expm(-1j * t * Hgen))
            ok2, Hapi = safe(st, 'Quadratic.fermion_generator', case, lambda: lad.op(2, g.fermion_generator.terms))
            if ok2:
                oracle(case, 'generator: Quadratic fermion_generator', U, la.expm(-1j * t * Hapi))
                oracle(case, 'generator: Quadratic qubit_generator_matrix', g.qubit_generator_matrix, Hapi)
            # class docstring: H = (w0 a_i^ a_{i+1} + h.c.) + w1 a_i^ a_{i+1}^ a_i a_{i+1}
            Hdoc = fermi_H(2, {((0, 1), (1, 0)): w0}) + w1 * (cr(2, 0) @ cr(2, 1) @ an(2, 0) @ an(2, 1))
            st.float_comparisons += 1
            if not maxdiff(U, la.expm(-1j * t * Hdoc)) <= TOL:
                flipped = maxdiff(U, la.expm(-1j * t * (2 * fermi_H(2, {((0, 1), (1, 0)): w0}) - Hdoc))) <= TOL
                st.violate('Quadratic gate differs from its class-docstring Hamiltonian', case,
                           {'agrees_with_docstring_after_flipping_sign_of_w1': bool(flipped)})
            qs = cirq.LineQubit.range(2)
            ok3, D = safe(st, 'Quadratic decomposition', case,
                          lambda: circuit_unitary(cirq, cirq.decompose_once(g(*qs)), qs))
            if ok3:
                cmp_later(case, 'Quadratic._decompose_', D, model('quadraticDecomposed', r, [gqj(*uu)]))
                oracle(case, 'decomposition: Quadratic', D, U)
            F = cirq.unitary(of.FSWAP)
            g2 = g.__copy__()
            g2.fswap(0)
            oracle(case, 'fswap: Quadratic.fswap(0)', cirq.unitary(g2), F @ U @ F.conj().T)
        # Quartic
        ws = (weight(p0, u0), weight(p1, u1), weight(p2, u2))
        case = {'gate': 'Quartic', 'exponent': t, 'rots': [[str(x) for x in p] for p in (p0, p1, p2)],
                'phases': [[str(x) for x in u] for u in (u0, u1, u2)]}
        st.case(case)
        st.count('gate:Quartic')
        ok, g = safe(st, 'QuarticFermionicSimulationGate', case,
                     lambda: of.QuarticFermionicSimulationGate(ws, exponent=t))
        if ok:
            ok, U = safe(st, 'unitary(Quartic)', case, lambda: cirq.unitary(g))
        if ok:
            r, gs = [], []
            for w, p, u in zip(ws, (p0, p1, p2), (u0, u1, u2)):
                if w == 0:
                    p, u = (Fraction(1), Fraction(0)), (Fraction(1), Fraction(0))
                r += [rat(p[0]), rat(p[1])]
                gs.append(gqj(*u))
            cmp_later(case, 'Quartic', U, model('quartic', r, gs))
            if all(float(w.real * 1024).is_integer() and float(w.imag * 1024).is_integer() for w in ws):
                cmp_later(case, 'Quartic.qubit_generator_matrix', np.asarray(g.qubit_generator_matrix),
                          model('quarticGenerator', [], [to_gq(w) for w in ws]))
            Hdoc = -(fermi_H(4, {((0, 1), (3, 1), (1, 0), (2, 0)): ws[0]})
                     + fermi_H(4, {((0, 1), (2, 1), (1, 0), (3, 0)): ws[1]})
                     + fermi_H(4, {((0, 1), (1, 1), (2, 0), (3, 0)): ws[2]}))
            oracle(case, 'generator: Quartic = exp(-i t JW(docstring H))', U, la.expm(-1j * t * Hdoc))
            ok2, Hapi = safe(st, 'Quartic.fermion_generator', case, lambda: lad.op(4, g.fermion_generator.terms))
            if ok2:
                oracle(case, 'generator: Quartic fermion_generator', U, la.expm(-1j * t * Hapi))
            qs = cirq.LineQubit.range(4)
            sv = rng_state(rng, 16)
            out = cirq.Simulator(dtype=np.complex128).simulate(cirq.Circuit(g(*qs)), initial_state=sv,
                                                               qubit_order=qs).final_state_vector
            oracle(case, 'apply_unitary: Quartic fast path', out, U @ sv)
            if all(abs(w) > 1e-3 for w in ws) and it % 3 == 0:
                ok3, D = safe(st, 'Quartic decomposition', case,
                              lambda: circuit_unitary(cirq, cirq.decompose_once(g(*qs)), qs))
                if ok3:
                    st.float_comparisons += 1
                    st.count('oracle:decomposition')
                    d = maxdiff(D, U)
                    if not d <= 1e-7:   # numerical eig-based matrix square root inside: looser
                        st.violate('decomposition: Quartic', case, {'max_abs_difference': d})
            for i in range(3):
                g2 = g.__copy__()
                g2.fswap(i)
                Fi = kron(*([np.eye(2)] * i + [cirq.unitary(of.FSWAP)] + [np.eye(2)] * (2 - i)))
                oracle(case, 'fswap: Quartic.fswap(%d)' % i, cirq.unitary(g2), Fi @ U @ Fi.conj().T)
        # Cubic: single weight (Model) and general weights (oracle only)
        k = it % 3
        wk = weight(p0, u0)
        wsc = [0j, 0j, 0j]
        wsc[k] = wk
        for mode, wts in (('single', tuple(wsc)),
                          ('general', tuple(complex(rng.randint(-8, 8) / 4, rng.randint(-8, 8) / 4)
                                            for _ in range(3)))):
            case = {'gate': 'Cubic', 'exponent': t, 'weights': [str(w) for w in wts], 'mode': mode}
            st.case(case)
            st.count('gate:Cubic-' + mode)
            if not any(wts):
                continue
            ok, g = safe(st, 'CubicFermionicSimulationGate', case,
                         lambda: of.CubicFermionicSimulationGate(wts, exponent=t))
            if ok:
                ok, U = safe(st, 'unitary(Cubic)', case, lambda: cirq.unitary(g))
            if not ok:
                continue
            if mode == 'general':
                cmp_later(case, 'Cubic.qubit_generator_matrix (general weights)', np.asarray(g.qubit_generator_matrix),
                          model('cubicGenerator', [], [to_gq(w) for w in wts]))
                okq, gq4 = safe(st, 'QuarticFermionicSimulationGate', case,
                                lambda: of.QuarticFermionicSimulationGate(wts, exponent=t))
                if okq:
                    cmp_later(case, 'Quartic.qubit_generator_matrix (dyadic weights)', np.asarray(gq4.qubit_generator_matrix),
                              model('quarticGenerator', [], [to_gq(w) for w in wts]))
            if mode == 'single' and wk != 0:
                cmp_later(case, 'Cubic(single weight)', U,
                          model('cubicSingle', [rat(p0[0]), rat(p0[1])], [gqj(*u0)], k))
            Hdoc = -(fermi_H(3, {((0, 1), (1, 1), (0, 0), (2, 0)): wts[0]})
                     + fermi_H(3, {((0, 1), (1, 1), (1, 0), (2, 0)): wts[1]})
                     + fermi_H(3, {((0, 1), (2, 1), (1, 0), (2, 0)): wts[2]}))
            oracle(case, 'generator: Cubic = exp(-i t JW(docstring H))', U, la.expm(-1j * t * Hdoc))
            ok2, Hapi = safe(st, 'Cubic.fermion_generator', case, lambda: lad.op(3, g.fermion_generator.terms))
            if ok2:
                oracle(case, 'generator: Cubic fermion_generator', U, la.expm(-1j * t * Hapi))
                oracle(case, 'generator: Cubic qubit_generator_matrix', g.qubit_generator_matrix, Hapi)
            for i in range(2):
                g2 = g.__copy__()
                g2.fswap(i)
                Fi = kron(*([np.eye(2)] * i + [cirq.unitary(of.FSWAP)] + [np.eye(2)] * (1 - i)))
                oracle(case, 'fswap: Cubic.fswap(%d)' % i, cirq.unitary(g2), Fi @ U @ Fi.conj().T)

    # ---- gates from an InteractionOperator:  G_I = exp(+i H_I)
    nops = budget(ctx.tier, 8, 40)
    if ctx.drift:
        nops = max(nops, 20)
    for it in range(nops):
        n = 4
        one = np.zeros((n, n), dtype=complex)
        two = np.zeros((n, n, n, n), dtype=complex)
        for _ in range(rng.randint(1, 4)):
            p, q = rng.randrange(n), rng.randrange(n)
            c = complex(rng.randint(-4, 4) / 4, rng.randint(-4, 4) / 4 if p != q else 0)
            one[p, q] += c
            if p != q:
                one[q, p] += c.conjugate()
        for _ in range(rng.randint(1, 5)):
            p, q, r_, s_ = (rng.randrange(n) for _ in range(4))
            c = complex(rng.randint(-4, 4) / 4, rng.randint(-4, 4) / 4)
            two[p, q, r_, s_] += c
            two[s_, r_, q, p] += c.conjugate()
        # terms on exactly three and exactly four distinct modes, in every index arrangement
        for _ in range(rng.randint(1, 3)):
            idx = list(range(n))
            rng.shuffle(idx)
            c = complex(rng.randint(1, 4) / 4, rng.randint(-4, 4) / 4)
            p, q, r_, s_ = idx
            two[p, q, r_, s_] += c
            two[s_, r_, q, p] += c.conjugate()
        for _ in range(rng.randint(1, 3)):
            a, b, c3 = rng.sample(range(n), 3)
            p, q, r_, s_ = rng.choice([(a, b, a, c3), (a, b, c3, a), (b, a, a, c3), (b, a, c3, a),
                                       (a, b, b, c3), (a, c3, b, c3), (c3, a, c3, b)])
            c = complex(rng.randint(1, 4) / 4, rng.randint(-4, 4) / 4)
            two[p, q, r_, s_] += c
            two[s_, r_, q, p] += c.conjugate()
        const = rng.choice([0.0, 0.5, -1.25])
        case = {'gate': 'from_interaction_operator', 'constant': const, 'one_body': one, 'two_body_nonzero':
                [[list(map(int, k)), two[k]] for k in zip(*np.nonzero(two))]}
        st.case(case)
        st.count('gate:from_interaction_operator')
        op = of.InteractionOperator(const, one.copy(), two.copy())
        ok, gates = safe(st, 'fermionic_simulation_gates_from_interaction_operator', case,
                         lambda: of.fermionic_simulation_gates_from_interaction_operator(op))
        if not ok:
            continue
        fo = of.normal_ordered(of.get_fermion_operator(op))
        groups = {}
        for term, c in fo.terms.items():
            I = tuple(sorted({i for i, _ in term}))
            groups.setdefault(I, {})[term] = c
        for I in set(groups) | set(gates):
            terms = groups.get(I, {})
            gate = gates.get(I)
            m = len(I)
            relabel = {i: k for k, i in enumerate(I)}
            H_I = lad.op(m, {tuple((relabel[i], a) for i, a in term): c for term, c in terms.items()}) \
                if m else np.array([[sum(terms.values())]], dtype=complex)
            if m == 0:
                oracle(case, 'from_operator: constant', np.array([[gate if gate is not None else 0]]), H_I)
                continue
            if gate is None:
                oracle(case, 'from_operator: missing gate for modes %s' % (I,), np.eye(2 ** m), la.expm(1j * H_I))
                continue
            ok, U = safe(st, 'unitary(gate %s)' % (I,), case, lambda: cirq.unitary(gate))
            if ok:
                oracle(case, 'from_operator: gate on modes %s = exp(+i H_I)' % (I,), U, la.expm(1j * H_I))
    # ---- Model comparisons
    ans = ctx.driver.run(reqs)
    for case, what, U, idx in todo:
        st.float_comparisons += 1
        M = mat_from_json(ans[idx])
        d = maxdiff(U, M)
        if not d <= TOL:
            st.disagree('%s: cirq.unitary vs Model matrix (max abs diff %.3g)' % (what, d), case,
                        np.round(U, 6).tolist() if U.size <= 16 else 'matrix %s' % (U.shape,), ans[idx] if U.size <= 16 else '...')
    return st


def rng_state(rng, dim):
    v = np.array([complex(rng.randint(-4, 4), rng.randint(-4, 4)) for _ in range(dim)])
    if not np.any(v):
        v[0] = 1
    return v / np.linalg.norm(v)


# ------------------------------------------------------------------ primitives

def rand_unitary(rs, n, real=False):
    a = rs.randn(n, n) + (0 if real else 1j * rs.randn(n, n))
    q, r = np.linalg.qr(a)
    d = np.diag(r)
    return q * (d / np.abs(d))


def slater_matrices(rs, rng, n):
    """(kind, W) square unitaries: Haar complex / real, permutation with phases, spin-block, identity"""
    out = [('complex', rand_unitary(rs, n)), ('real', rand_unitary(rs, n, True))]
    perm = list(range(n))
    rng.shuffle(perm)
    ph = [rng.choice([1, -1, 1j, -1j, complex(0.6, 0.8)]) for _ in range(n)]
    P = np.zeros((n, n), dtype=complex)
    for i, j in enumerate(perm):
        P[i, j] = ph[i]
    out.append(('permutation', P))
    out.append(('identity', np.eye(n, dtype=complex)))
    if n % 2 == 0 and n >= 2:
        for real in (False, True):
            W = np.zeros((n, n), dtype=complex)
            W[:n // 2, :n // 2] = rand_unitary(rs, n // 2, real)
            W[n // 2:, n // 2:] = rand_unitary(rs, n // 2, real)
            out.append(('spin-block-real' if real else 'spin-block', W))
    if n >= 3:
        # a Givens rotation embedded in the identity: many exact zeros for the decomposition
        W = np.eye(n, dtype=complex)
        W[0, 0], W[0, n - 1], W[n - 1, 0], W[n - 1, n - 1] = 0.6, 0.8, -0.8, 0.6
        out.append(('sparse', W))
    return out


def gaussian_matrices(of, rs, rng, n, seed):
    """(kind, W) with W of shape N x 2N, a valid Bogoliubov transformation"""
    out = []
    for real in (False, True):
        H = of.random_quadratic_hamiltonian(n, conserves_particle_number=False, real=real, seed=seed + real)
        _, W, _ = H.diagonalizing_bogoliubov_transform()
        out.append(('gaussian-real' if real else 'gaussian', np.asarray(W, dtype=complex)))
    # number conserving, written in N x 2N form
    U = rand_unitary(rs, n)
    out.append(('gaussian-number-conserving', np.hstack([U, np.zeros((n, n))]).astype(complex)))
    # particle-hole transformation of a subset of modes, then a permutation
    W = np.zeros((n, 2 * n), dtype=complex)
    perm = list(range(n))
    rng.shuffle(perm)
    for p in range(n):
        if rng.random() < 0.5:
            W[p, perm[p]] = 1
        else:
            W[p, n + perm[p]] = 1
    out.append(('gaussian-particle-hole', W))
    if n % 2 == 0:
        # spin-up modes: number conserving; spin-down modes: particle-hole transformed (zero off-diagonal spin blocks)
        h = n // 2
        W = np.zeros((n, 2 * n), dtype=complex)
        W[:h, :h] = rand_unitary(rs, h)
        W[h:, n + h:] = rand_unitary(rs, h)
        out.append(('gaussian-spin-block', W))
        if h >= 2:
            # spin-down modes: a generic Bogoliubov transformation among themselves
            Hd = of.random_quadratic_hamiltonian(h, conserves_particle_number=False, seed=seed + 7)
            Wd = np.asarray(Hd.diagonalizing_bogoliubov_transform()[1], dtype=complex)
            if Wd.shape == (h, 2 * h):
                W = np.zeros((n, 2 * n), dtype=complex)
                W[:h, :h] = rand_unitary(rs, h)
                W[h:, h:n] = Wd[:, :h]
                W[h:, n + h:] = Wd[:, h:]
                out.append(('gaussian-spin-block-generic', W))
    return out


def is_gauss_spin_block(W):
    n = W.shape[0]
    return (W.shape[1] == 2 * n and n % 2 == 0 and n > 0
            and np.abs(W[:n // 2, n // 2:]).max() < 1e-9 and np.abs(W[n // 2:, :n // 2]).max() < 1e-9)


def bogoliubov_rhs(lad, W, n, p):
    m = sum(W[p, q] * lad.get(n, q, 1) for q in range(n))
    if W.shape[1] == 2 * n:
        m = m + sum(W[p, n + q] * lad.get(n, q, 0) for q in range(n))
    return m


def flatten_desc(desc):
    """circuit description -> protocol form + the list of (theta, phi)"""
    out, params = [], []
    for layer in desc:
        lo = []
        for op in layer:
            if isinstance(op, str):
                lo.append('pht')
            else:
                i, j, th, ph = op
                lo.append([int(i), int(j), len(params)])
                params.append((th, ph))
        out.append(lo)
    return out, params


def ops_signature(cirq, of, ops, pos):
    """real operations -> comparable form [kind, qubits..., exponent]"""
    sig = []
    for op in ops:
        g = op.gate
        qs = [pos[q] for q in op.qubits]
        if g == cirq.X:
            sig.append(('X', qs[0]))
        elif isinstance(g, cirq.PhasedISwapPowGate):
            sig.append(('Ryxxy', qs[0], qs[1], float(g.exponent)))
        elif isinstance(g, cirq.ZPowGate):
            sig.append(('Z', qs[0], float(g.exponent)))
        elif isinstance(g, cirq.Rz):
            sig.append(('Rz', qs[0], float(g.exponent)))
        else:
            sig.append(('other', str(g)) + tuple(qs))
    return sig


def model_signature(mops, params):
    sig = []
    for m in mops:
        if m[0] == 'X':
            sig.append(('X', m[1]))
        elif m[0] == 'Ryxxy':
            sig.append(('Ryxxy', m[1], m[2], float(2 * params[m[3]][0] / np.pi)))
        else:
            sig.append(('Z', m[1], float(params[m[2]][1] / np.pi)))
    return sig


def sig_equal(a, b):
    if len(a) != len(b):
        return False
    for x, y in zip(a, b):
        if x[0] != y[0] or len(x) != len(y):
            return False
        for u, v in zip(x[1:], y[1:]):
            if isinstance(u, float) or isinstance(v, float):
                if not abs(u - v) <= 1e-12:
                    return False
            elif u != v:
                return False
    return True


def glue_stream(ctx):
    import cirq
    of = ctx.of
    import importlib
    bt = importlib.import_module('openfermion.circuits.primitives.bogoliubov_transform')
    sp = importlib.import_module('openfermion.circuits.primitives.state_preparation')
    ff = importlib.import_module('openfermion.circuits.primitives.ffft')
    st = Stream('primitives-glue', 'the emitted operations (kinds, qubit placement, order, bit flips, exponents as functions '
                'of the circuit description) of prepare_slater_determinant / prepare_gaussian_state / bogoliubov_transform '
                'with initial states, _occupied_orbitals, and the Cooley-Tukey recursion of ffft (permutations, twiddles, '
                'sub-transforms) vs the Lean Model, exactly; distinct = distinct inputs')
    rng = rng_for(ctx.seed, 'c14-glue')
    rs = np.random.RandomState(rng.randrange(2 ** 31))
    reqs, todo = [], []

    def ask(req, fn):
        reqs.append(req)
        todo.append(fn)

    # _occupied_orbitals (both copies)
    for n in range(0, 8):
        for state in ([0, 2 ** n - 1] + [rng.randrange(2 ** n) for _ in range(6)]):
            case = {'fn': '_occupied_orbitals', 'state': state, 'n': n}
            st.case(case)
            a = sorted(bt._occupied_orbitals(state, n))
            b = sorted(sp._occupied_orbitals(state, n))
            if a != b:
                st.violate('the two _occupied_orbitals disagree', case, {'bogoliubov': a, 'state_preparation': b})
            ask({'op': 'c14.occ', 'state': state, 'n': n},
                lambda r, a=a, case=case: a == r or st.disagree('_occupied_orbitals', case, a, r))
    ncase = budget(ctx.tier, 10, 60)
    for it in range(ncase):
        n = rng.randint(1, 6)
        qubits = [cirq.LineQubit(2 * i + 5) for i in range(n)]
        pos = {q: i for i, q in enumerate(qubits)}
        init = rng.randrange(2 ** n)
        occ = bt._occupied_orbitals(init, n)
        # prepare_slater_determinant
        eta = rng.randint(0, n)
        Q = rand_unitary(rs, n, rng.random() < 0.3)[:eta]
        case = {'fn': 'prepare_slater_determinant', 'n': n, 'eta': eta, 'initial_state': init, 'Q': Q}
        st.case(case)
        st.count('fn:prepare_slater_determinant')
        ok, ops = safe(st, 'prepare_slater_determinant', case, lambda: list(cirq.flatten_op_tree(
            of.prepare_slater_determinant(qubits, Q.copy(), initial_state=rng.choice([init, occ])))))
        if ok:
            desc, params = flatten_desc(of.slater_determinant_preparation_circuit(Q.copy()))
            sig = ops_signature(cirq, of, ops, pos)
            nflip = len([s for s in sig if s[0] == 'X' and True])

            def fin(r, sig=sig, params=params, case=case, desc=desc, n=n):
                flips, gops = r
                want = [('X', j) for j in flips] + model_signature(gops, params)
                if not sig_equal(sig, want):
                    st.disagree('emitted operations', case, sig[:30], want[:30])
            reqs.append({'op': 'c14.flips', 'kind': 'slater', 'n': n, 'nocc': eta, 'occ': occ})
            reqs.append({'op': 'c14.givens', 'n': n, 'desc': desc})
            todo.append(None)
            todo.append(fin)
        # prepare_gaussian_state (generic)
        cons = rng.random() < 0.5
        H = of.random_quadratic_hamiltonian(n, conserves_particle_number=cons, seed=rng.randrange(10 ** 6))
        k = rng.randint(0, n)
        occ_orb = sorted(rng.sample(range(n), k))
        case = {'fn': 'prepare_gaussian_state', 'n': n, 'conserving': cons, 'occupied_orbitals': occ_orb,
                'initial_state': init}
        st.case(case)
        st.count('fn:prepare_gaussian_state')
        ok, ops = safe(st, 'prepare_gaussian_state', case, lambda: list(cirq.flatten_op_tree(
            of.prepare_gaussian_state(qubits, H, occupied_orbitals=occ_orb, initial_state=init))))
        if ok:
            d, start = of.gaussian_state_preparation_circuit(H, occ_orb)
            desc, params = flatten_desc(d)
            sig = ops_signature(cirq, of, ops, pos)

            def fin(r, sig=sig, params=params, case=case):
                flips, gops = r
                want = [('X', j) for j in flips] + model_signature(gops, params)
                if not sig_equal(sig, want):
                    st.disagree('emitted operations', case, sig[:30], want[:30])
            reqs.append({'op': 'c14.flips', 'kind': 'gaussian', 'n': n, 'occ': occ,
                         'start': [int(x) for x in start]})
            reqs.append({'op': 'c14.givens', 'n': n, 'desc': desc})
            todo.append(None)
            todo.append(fin)
        # spin-block orbital split
        case = {'fn': 'bogoliubov_transform spin split', 'n': n, 'occ': occ}
        ask({'op': 'c14.split', 'n': n, 'occ': occ},
            lambda r, n=n, occ=occ, case=case: r == [[i for i in occ if i < n // 2],
                                                    [i - n // 2 for i in occ if i >= n // 2]]
            or st.disagree('spin split', case, None, r))
    # _is_spin_block_diagonal: shape test (Model) + numerical block test (input, decided with margin)
    for it in range(budget(ctx.tier, 24, 120)):
        n = rng.randint(1, 6)
        cols = rng.choice([n, n, 2 * n])
        W = rs.randn(n, cols) + 1j * rs.randn(n, cols)
        offzero = rng.random() < 0.6
        if offzero and n >= 2:
            W[:n // 2, n // 2:] = 0
            W[n // 2:, :n // 2] = 0
        off = bool(n >= 2 and np.abs(W[:n // 2, n // 2:]).max(initial=0) < 1e-12
                   and np.abs(W[n // 2:, :n // 2]).max(initial=0) < 1e-12)
        case = {'fn': '_is_spin_block_diagonal', 'shape': [n, cols], 'off_diagonal_blocks_zero': off}
        st.case(case)
        st.count('fn:_is_spin_block_diagonal')
        ok, real_ans = safe(st, '_is_spin_block_diagonal', case, lambda: bool(bt._is_spin_block_diagonal(W)))
        if ok:
            ask({'op': 'c14.spinblock', 'rows': n, 'cols': cols, 'offzero': off},
                lambda r, real_ans=real_ans, case=case: r == real_ans
                or st.disagree('_is_spin_block_diagonal', case, real_ans, r))
    # hypothesis of slater_circuit_structure on real outputs: every layer of givens_decomposition_square is drawn from one
    # iteration of the C11 schedule (Model: slaterSchedulePairs), iterations in increasing order; and the real circuit of
    # _slater_basis_change has its Ryxxy gates on adjacent qubits, a layer's gates on disjoint pairs
    for n in range(1, budget(ctx.tier, 7, 10)):
        for kind, W in slater_matrices(rs, rng, n):
            case = {'fn': 'givens_decomposition_square / _slater_basis_change', 'n': n, 'kind': kind}
            st.case(case)
            st.count('fn:slater-schedule')
            ok, dec = safe(st, 'givens_decomposition_square', case,
                           lambda: of.givens_decomposition_square(W.copy())[0])
            if not ok:
                continue
            real_layers = [[[int(o[0]), int(o[1])] for o in layer] for layer in dec]

            def fin(r, real_layers=real_layers, case=case):
                k = 0
                for layer in real_layers:
                    while k < len(r) and not all(p in r[k] for p in layer):
                        k += 1
                    if k == len(r):
                        st.disagree('a layer of givens_decomposition_square is not drawn from the C11 schedule', case,
                                    real_layers, r)
                        return
                    k += 1
            ask({'op': 'c14.slaterschedule', 'n': n}, fin)
            qubits = cirq.LineQubit.range(n)
            pos = {q: i for i, q in enumerate(qubits)}
            if kind.startswith('spin-block'):
                continue
            ok, ops = safe(st, 'bogoliubov_transform', case,
                           lambda: list(cirq.flatten_op_tree(of.bogoliubov_transform(qubits, W.copy()))))
            if ok:
                for o in ops:
                    if isinstance(o.gate, cirq.PhasedISwapPowGate):
                        a, b = pos[o.qubits[0]], pos[o.qubits[1]]
                        if b != a + 1:
                            st.violate('_slater_basis_change places a Givens rotation on non-adjacent qubits', case,
                                       {'qubits': [a, b]})
                    elif o.gate == cirq.X:
                        st.violate('_slater_basis_change emits an X gate without initial state', case, {})
    # ffft recursion structure
    nmax = budget(ctx.tier, 16, 36)
    for n in range(1, nmax + 1):
        case = {'fn': 'ffft', 'n': n}
        st.case(case)
        st.count('fn:ffft')
        qubits = [cirq.LineQubit(i) for i in range(n)]
        pos = {q: i for i, q in enumerate(qubits)}
        ok, ops = safe(st, 'ffft', case, lambda: list(cirq.flatten_op_tree(of.ffft(qubits))))
        if not ok:
            continue
        sig = []
        for op in ops:
            g = op.gate
            qs = [pos[q] for q in op.qubits]
            if isinstance(g, ff._F0Gate):
                sig.append(['f0', qs[0]] if qs[1] == qs[0] + 1 else ['f0-bad', qs])
            elif isinstance(g, ff._TwiddleGate):
                sig.append(['tw', int(g.k), int(g.n), qs[0]])
            elif type(g).__name__ == 'LinearPermutationGate':
                sig.append(['perm', qs[0], [int(g.permutation().get(i, i)) for i in range(len(qs))], False,
                            qs == list(range(qs[0], qs[0] + len(qs))) and g.swap_gate == of.FSWAP])
            else:
                # operations of a prime-size bogoliubov_transform: collapse into one block
                if sig and sig[-1][0] == 'prime-block':
                    sig[-1][1].update(qs)
                else:
                    sig.append(['prime-block', set(qs)])
        real = []
        for s_ in sig:
            if s_[0] == 'prime-block':
                real.append(['prime', min(s_[1]), len(s_[1])])
            elif s_[0] == 'perm':
                if not s_[4]:
                    st.violate('ffft permutation gate is not an FSWAP network on consecutive qubits', case, {})
                real.append(s_[:4])
            else:
                real.append(s_)

        def fin(r, real=real, case=case):
            want = []
            for m in r:
                if m[0] == 'perm':
                    perm = m[2]
                    if m[3]:
                        inv = [0] * len(perm)
                        for i, j in enumerate(perm):
                            inv[j] = i
                        perm = inv
                    want.append(['perm', m[1], perm, False])
                else:
                    want.append(m)
            # consecutive prime blocks on adjacent ranges stay separate in the Model; the real ops of two
            # neighbouring bogoliubov blocks are merged by the collapse above only if they touch: normalise both
            if norm_blocks(real) != norm_blocks(want):
                st.disagree('ffft operation structure', case, real[:12], want[:12])
        ask({'op': 'c14.ffft', 'n': n}, fin)
    ans = ctx.driver.run(reqs)
    i = 0
    while i < len(ans):
        if todo[i] is None:
            todo[i + 1]((ans[i], ans[i + 1]))
            i += 2
        else:
            todo[i](ans[i])
            i += 1
    return st


def norm_blocks(seq):
    """merge runs of 'prime' entries into the set of covered qubits (the real op list cannot tell where
    one bogoliubov block ends and the next begins)"""
    out = []
    for m in seq:
        if m[0] == 'prime':
            cover = set(range(m[1], m[1] + m[2]))
            if out and out[-1][0] == 'primes':
                out[-1][1] |= cover
            else:
                out.append(['primes', cover])
        else:
            out.append(m)
    return [[m[0], sorted(m[1])] if m[0] == 'primes' else m for m in out]


def unsorted_forms(rng, occ):
    """unsorted / permuted presentations of a set of occupied indices: descending list, shuffled tuple,
    'high half first' list (an index >= N/2 before one < N/2 whenever both exist)"""
    if len(occ) < 2:
        return []
    forms = [list(occ)[::-1]]
    sh = list(occ)
    rng.shuffle(sh)
    forms.append(tuple(sh))
    hi_first = sorted(occ, key=lambda i: (-i % 2, -i))
    forms.append(hi_first)
    out = []
    for f in forms:
        if list(f) != sorted(f) and all(list(f) != list(g) or type(f) is not type(g) for g in out):
            out.append(f)
    return out


def container_forms(rng, occ, n, k=2):
    """numpy-array and other container presentations of a set of occupied indices, all accepted for `initial_state` by
    the unmodified tree (probed when the check was built; `occupied_orbitals` of prepare_gaussian_state accepts lists of
    Python ints only and is not varied here): the int64 array always, plus `k` random others"""
    occ = list(occ)
    mask = np.isin(np.arange(n), occ)
    forms = [('ndarray int32', np.array(occ, dtype=np.int32)), ('ndarray uint8', np.array(occ, dtype=np.uint8)),
             ('numpy.flatnonzero', np.flatnonzero(mask)), ('numpy.where', np.where(mask)[0]),
             ('list of numpy ints', [np.int64(i) for i in occ]), ('tuple', tuple(occ)), ('set', set(occ)),
             ('ndarray intp reversed', np.array(occ[::-1], dtype=np.intp)),
             ('empty float array' if not occ else 'ndarray int16', np.array(occ, dtype=float if not occ else np.int16))]
    return [('ndarray int64', np.array(occ, dtype=np.int64))] + rng.sample(forms, k)


def primitives_stream(ctx, lad):
    import cirq
    of = ctx.of
    st = Stream('primitives', 'oracle on <= 5 qubits (ffft <= 8): circuit unitary U of bogoliubov_transform satisfies '
                'U a^_p U^-1 = sum_q W_pq a^_q (+ W_p,N+q a_q) with Jordan-Wigner matrices from the Lean Spec; with '
                'initial_state (int and list forms, every basis state) the circuit maps that state like U up to a phase; '
                'prepare_slater_determinant gives b^_1..b^_eta|vac>; prepare_gaussian_state gives the eigenstate with '
                'the orbital-energy sum; ffft equals the Fourier Bogoliubov transform; optimal_givens_decomposition; '
                'matrix classes: Haar complex / real, permutation, identity, spin-block, sparse, Gaussian (N x 2N) '
                'generic / real / number-conserving / particle-hole; abs tol 1e-9; distinct = distinct inputs')
    rng = rng_for(ctx.seed, 'c14-prim')
    rs = np.random.RandomState(rng.randrange(2 ** 31))
    nmax = 5 if (ctx.tier == 'thorough' or ctx.drift) else 4
    reps = budget(ctx.tier, 1, 4)
    lad.prefetch(range(1, 9 if (ctx.tier == 'thorough' or ctx.drift) else 7))

    def check(case, what, d, tol=TOL, extra=None):
        st.float_comparisons += 1
        st.count('oracle:' + what.split(':')[0])
        if not d <= tol:
            st.violate(what, case, dict({'max_abs_difference': float(d)}, **(extra or {})))

    def sing(W, n):
        """is the annihilation block of an N x 2N transformation singular?"""
        if W.shape[1] != 2 * n:
            return {}
        sv = np.linalg.svd(W[:, n:], compute_uv=False)
        return {'gaussian_annihilation_block_singular': bool(sv.min() < 1e-6)}

    for rep in range(reps):
        for n in range(1, nmax + 1):
            qubits = cirq.LineQubit.range(n)
            mats = slater_matrices(rs, rng, n) + gaussian_matrices(of, rs, rng, n, rng.randrange(10 ** 6))
            for kind, W in mats:
                case = {'fn': 'bogoliubov_transform', 'n': n, 'kind': kind, 'W': W}
                st.case(case)
                st.count('matrix:' + kind)
                try:
                    U = circuit_unitary(cirq, of.bogoliubov_transform(qubits, W.copy()), qubits)
                except Exception as e:  # noqa: BLE001
                    st.violate('bogoliubov_transform raised %s' % type(e).__name__, case, {'exception': repr(e)[:200]})
                    continue
                for p in range(n):
                    check(case, 'conjugation: U a^_%d U^-1 (bogoliubov_transform, %s)' % (p, kind),
                          maxdiff(U @ lad.get(n, p, 1) @ U.conj().T, bogoliubov_rhs(lad, W, n, p)),
                          extra=sing(W, n))
                # initial states: the reference is the transformation itself, built from the Spec matrices:
                # U|init> = prod_{p occupied} b^_p U|vac>, and U|vac> is the state annihilated by all b_p
                states = range(2 ** n) if n <= 3 or ctx.tier == 'thorough' else \
                    sorted(set(rng.sample(range(2 ** n), 6)) | {0, 1 << (n - 1), 1})
                B = [bogoliubov_rhs(lad, W, n, p) for p in range(n)]
                ev, evec = np.linalg.eigh(sum(b @ b.conj().T for b in B))
                newvac = evec[:, 0]
                for init in states:
                    occ = [j for j in range(n) if (init >> (n - 1 - j)) & 1]
                    for ini in [init, occ] + unsorted_forms(rng, occ) + [f_ for _, f_ in container_forms(rng, occ, n)]:
                        if isinstance(ini, np.ndarray):
                            st.count('initial_state:ndarray')
                        elif not isinstance(ini, (int, set)) and list(ini) != sorted(ini):
                            st.count('initial_state:unsorted')
                        try:
                            U2 = circuit_unitary(cirq, of.bogoliubov_transform(qubits, W.copy(), initial_state=ini),
                                                 qubits)
                        except Exception as e:  # noqa: BLE001
                            st.violate('bogoliubov_transform(initial_state) raised %s' % type(e).__name__,
                                       dict(case, initial_state=ini), {'exception': repr(e)[:200]})
                            continue
                        ref = newvac
                        for p in reversed(occ):
                            ref = B[p] @ ref
                        check(dict(case, initial_state=ini),
                              'initial_state: bogoliubov_transform maps |init> to prod b^_p |new vacuum> up to a phase',
                              phase_diff(U2[:, init], ref), extra=sing(W, n))
            # optimal_givens_decomposition:  U a^_q U^-1 = sum_p v[p, q] a^_p
            for kind, W in slater_matrices(rs, rng, n)[:4]:
                case = {'fn': 'optimal_givens_decomposition', 'n': n, 'kind': kind, 'unitary': W}
                st.case(case)
                ok, U = safe(st, 'optimal_givens_decomposition', case, lambda: circuit_unitary(
                    cirq, of.optimal_givens_decomposition(qubits, W.copy()), qubits))
                if ok:
                    for q in range(n):
                        check(case, 'conjugation: optimal_givens_decomposition U a^_%d U^-1' % q,
                              maxdiff(U @ lad.get(n, q, 1) @ U.conj().T,
                                      sum(W[p, q] * lad.get(n, p, 1) for p in range(n))))
            # prepare_slater_determinant
            for eta in range(0, n + 1):
                Q = rand_unitary(rs, n, rng.random() < 0.3)[:eta]
                ref = np.zeros(2 ** n, dtype=complex)
                ref[0] = 1
                for j in reversed(range(eta)):
                    ref = sum(Q[j, k] * lad.get(n, k, 1) for k in range(n)) @ ref
                for init in (range(2 ** n) if n <= 3 else rng.sample(range(2 ** n), 4)):
                    occ = [j for j in range(n) if (init >> (n - 1 - j)) & 1]
                    for ini in [rng.choice([init, occ, set(occ)])] + unsorted_forms(rng, occ)[:2] + \
                            [f_ for _, f_ in container_forms(rng, occ, n, 1)]:
                        case = {'fn': 'prepare_slater_determinant', 'n': n, 'eta': eta, 'initial_state': ini, 'Q': Q}
                        st.case(case)
                        ok, U = safe(st, 'prepare_slater_determinant', case, lambda: circuit_unitary(
                            cirq, of.prepare_slater_determinant(qubits, Q.copy(), initial_state=ini), qubits))
                        if ok:
                            check(case, 'state: prepare_slater_determinant = b^_1..b^_eta|vac> up to phase',
                                  phase_diff(U[:, init], ref))
            # prepare_gaussian_state
            if n <= 4:
                for cons in (True, False, 'partial-pairing'):
                    if cons == 'partial-pairing':
                        # pairing only between modes 0 and 1; the other modes are number conserving
                        if n < 3:
                            continue
                        Mh = np.diag([rng.randint(-4, 4) / 4 for _ in range(n)]).astype(complex)
                        Mh[0, 1] = Mh[1, 0] = 0.25
                        Dh = np.zeros((n, n), dtype=complex)
                        Dh[0, 1], Dh[1, 0] = 0.5, -0.5
                        H = of.QuadraticHamiltonian(Mh, Dh)
                    else:
                        H = of.random_quadratic_hamiltonian(n, conserves_particle_number=cons,
                                                            seed=rng.randrange(10 ** 6))
                    if cons is True:
                        sg = {}
                    else:
                        Wd = np.asarray(H.diagonalizing_bogoliubov_transform()[1])
                        sg = sing(Wd, n)
                    M, D = H.combined_hermitian_part, H.antisymmetric_part
                    Hm = H.constant * np.eye(2 ** n, dtype=complex)
                    for p in range(n):
                        for q in range(n):
                            Hm = Hm + M[p, q] * lad.get(n, p, 1) @ lad.get(n, q, 0)
                            t = 0.5 * D[p, q] * lad.get(n, p, 1) @ lad.get(n, q, 1)
                            Hm = Hm + t + t.conj().T
                    energies, const = H.orbital_energies()
                    subsets = [c for k in range(n + 1) for c in itertools.combinations(range(n), k)]
                    for occ_orb in (subsets if n <= 3 else rng.sample(subsets, 5)):
                        E = sum(energies[i] for i in occ_orb) + const
                        init = rng.randrange(2 ** n)
                        iocc = [j for j in range(n) if (init >> (n - 1 - j)) & 1]
                        variants = [(list(occ_orb), init)]
                        for f in unsorted_forms(rng, list(occ_orb))[:1]:
                            variants.append((list(f), init))   # lists only (tuples are rejected by the clean tree)
                        for f in unsorted_forms(rng, iocc)[:1]:
                            variants.append((list(occ_orb), f))
                        for _, f in container_forms(rng, iocc, n, 1):
                            variants.append((list(occ_orb), f))
                        for oo, ini in variants:
                            case = {'fn': 'prepare_gaussian_state', 'n': n, 'conserving': cons,
                                    'occupied_orbitals': oo, 'initial_state': ini, 'H': repr(H)[:300]}
                            st.case(case)
                            if isinstance(ini, np.ndarray):
                                st.count('gaussian:ndarray-initial-state')
                            elif list(oo) != sorted(oo) or (not isinstance(ini, (int, set)) and list(ini) != sorted(ini)):
                                st.count('gaussian:unsorted-sequence')
                            ok, U = safe(st, 'prepare_gaussian_state', case, lambda: circuit_unitary(
                                cirq, of.prepare_gaussian_state(qubits, H, occupied_orbitals=oo,
                                                                initial_state=ini), qubits))
                            if ok:
                                v = U[:, init]
                                check(case, 'state: prepare_gaussian_state is the eigenstate with the orbital-energy sum',
                                      max(maxdiff(Hm @ v, E * v), abs(np.linalg.norm(v) - 1)), 1e-8, extra=sg)
                    case = {'fn': 'prepare_gaussian_state', 'n': n, 'conserving': cons, 'default': True}
                    ok, U = safe(st, 'prepare_gaussian_state(default)', case, lambda: circuit_unitary(
                        cirq, of.prepare_gaussian_state(qubits, H), qubits))
                    if ok:
                        v = U[:, 0]
                        check(case, 'state: prepare_gaussian_state default is the ground state',
                              abs((v.conj() @ Hm @ v).real - np.linalg.eigvalsh(Hm)[0]), 1e-8, extra=sg)
    # prepare_gaussian_state with a spin degree of freedom: occupied_orbitals = (up list, down list), different blocks
    for n in ([4] if not (ctx.tier == 'thorough' or ctx.drift) else [2, 4, 6]):
        h = n // 2
        qubits = cirq.LineQubit.range(n)
        lad.prefetch([n])
        for rep in range(budget(ctx.tier, 2, 5)):
            M = np.zeros((n, n), dtype=complex)
            for blk in (0, 1):
                A = rs.randn(h, h) + 1j * rs.randn(h, h)
                M[blk * h:(blk + 1) * h, blk * h:(blk + 1) * h] = (A + A.conj().T) / 2
            const = rng.choice([0.0, 0.5])
            H = of.QuadraticHamiltonian(M, constant=const)
            Hm = const * np.eye(2 ** n, dtype=complex)
            for p in range(n):
                for q in range(n):
                    if M[p, q] != 0:
                        Hm = Hm + M[p, q] * lad.get(n, p, 1) @ lad.get(n, q, 0)
            e_up = np.linalg.eigvalsh(M[:h, :h])
            e_dn = np.linalg.eigvalsh(M[h:, h:])
            nup, ndn = rng.randint(0, h), rng.randint(0, h)
            up, dn = sorted(rng.sample(range(h), nup)), sorted(rng.sample(range(h), ndn))
            E = sum(e_up[i] for i in up) + sum(e_dn[i] for i in dn) + const
            init = rng.randrange(2 ** n)
            iocc = [j for j in range(n) if (init >> (n - 1 - j)) & 1]
            forms = [((up, dn), init), ((up, dn), iocc)]
            if len(up) >= 2 or len(dn) >= 2:
                forms.append(((up[::-1], dn[::-1]), init))   # lists: tuples of orbital indices are rejected by numpy indexing
            for f in unsorted_forms(rng, iocc):
                forms.append(((up, dn), f))
            if not up and not dn:
                forms = []   # an empty first list is read as "generic"; nothing spin specific to check
            for oo, ini in forms:
                if not oo[0]:
                    continue   # `not occupied_orbitals[0]`-style dispatch needs a non-empty first list
                case = {'fn': 'prepare_gaussian_state(spin)', 'n': n, 'occupied_orbitals': [list(oo[0]), list(oo[1])],
                        'initial_state': ini, 'M': M}
                st.case(case)
                st.count('gaussian:spin-symmetric')
                ok, U = safe(st, 'prepare_gaussian_state(spin)', case, lambda: circuit_unitary(
                    cirq, of.prepare_gaussian_state(qubits, H, occupied_orbitals=oo, initial_state=ini), qubits))
                if ok:
                    v = U[:, init]
                    check(case, 'state: prepare_gaussian_state (spin sectors) is the eigenstate with the sector energy sum',
                          max(maxdiff(Hm @ v, E * v), abs(np.linalg.norm(v) - 1)), 1e-8)
    # single-gate actions assumed by applyFfftOp (hypotheses of ffft_pow2_is_dft) on the real gate classes
    import importlib
    ffm = importlib.import_module('openfermion.circuits.primitives.ffft')
    lad.prefetch([2, 3, 4, 5])
    case = {'fn': 'ffft gate actions'}
    st.case(case)
    ok, UF = safe(st, 'unitary(F0)', case, lambda: cirq.unitary(ffm.F0))
    if ok:
        r2 = 2 ** -0.5
        check(case, 'gate-action: F0 a^_0 F0^-1 = (a^_0 + a^_1)/sqrt 2',
              maxdiff(UF @ lad.get(2, 0, 1) @ UF.conj().T, r2 * (lad.get(2, 0, 1) + lad.get(2, 1, 1))))
        check(case, 'gate-action: F0 a^_1 F0^-1 = (a^_0 - a^_1)/sqrt 2',
              maxdiff(UF @ lad.get(2, 1, 1) @ UF.conj().T, r2 * (lad.get(2, 0, 1) - lad.get(2, 1, 1))))
    for (kk, nn) in ((0, 4), (1, 4), (3, 8), (5, 6), (7, 16)):
        q2 = cirq.LineQubit.range(2)
        ok, UT = safe(st, 'unitary(_TwiddleGate)', case,
                      lambda: circuit_unitary(cirq, [ffm._TwiddleGate(kk, nn).on(q2[1])], q2))
        if ok:
            check(case, 'gate-action: twiddle(k, n) a^_q = e^{-2 pi i k/n} a^_q',
                  maxdiff(UT @ lad.get(2, 1, 1) @ UT.conj().T, np.exp(-2j * np.pi * kk / nn) * lad.get(2, 1, 1)))
            check(case, 'gate-action: twiddle leaves the other mode alone',
                  maxdiff(UT @ lad.get(2, 0, 1) @ UT.conj().T, lad.get(2, 0, 1)))
    for pp in (3, 5):
        qp = cirq.LineQubit.range(pp)
        ok, UPr = safe(st, 'unitary(_ffft_prime)', case, lambda: circuit_unitary(cirq, ffm._ffft_prime(qp), qp))
        if ok:
            for kk in range(pp):
                check(dict(case, prime=pp), 'gate-action: prime block a^_k = p^-1/2 sum_j e^{-2 pi i kj/p} a^_j',
                      maxdiff(UPr @ lad.get(pp, kk, 1) @ UPr.conj().T,
                              sum(np.exp(-2j * np.pi * kk * jj / pp) * lad.get(pp, jj, 1) for jj in range(pp)) / np.sqrt(pp)))
    for npm in (4, 5):
        qp = cirq.LineQubit.range(npm)
        perm = list(range(npm))
        rng.shuffle(perm)
        ok, UP = safe(st, 'unitary(_permute)', case, lambda: circuit_unitary(cirq, ffm._permute(qp, perm), qp))
        if ok:
            for i in range(npm):
                check(dict(case, permutation=perm), 'gate-action: _permute a^_i = a^_{pi(i)}',
                      maxdiff(UP @ lad.get(npm, i, 1) @ UP.conj().T, lad.get(npm, perm[i], 1)))
            ok, UPi = safe(st, 'unitary(inverse(_permute))', case,
                           lambda: circuit_unitary(cirq, cirq.inverse(ffm._permute(qp, perm)), qp))
            if ok:
                for i in range(npm):
                    check(dict(case, permutation=perm), 'gate-action: inverse(_permute) a^_{pi(i)} = a^_i',
                          maxdiff(UPi @ lad.get(npm, perm[i], 1) @ UPi.conj().T, lad.get(npm, i, 1)))
    # ffft
    for n in range(1, (8 if (ctx.tier == 'thorough' or ctx.drift) else 6) + 1):
        qubits = cirq.LineQubit.range(n)
        case = {'fn': 'ffft', 'n': n}
        st.case(case)
        ok, U = safe(st, 'ffft', case, lambda: circuit_unitary(cirq, of.ffft(qubits), qubits))
        if ok:
            F = np.array([[np.exp(-2j * np.pi * k * m / n) for m in range(n)] for k in range(n)]) / np.sqrt(n)
            for k in range(n):
                check(case, 'conjugation: ffft U a^_k U^-1 = n^-1/2 sum_m e^{-2 pi i km/n} a^_m',
                      maxdiff(U @ lad.get(n, k, 1) @ U.conj().T, sum(F[k, m] * lad.get(n, m, 1) for m in range(n))),
                      1e-8)
            # the Model's Cooley-Tukey exponent table (ctExp, theorem ffft_spec_partial) vs the single-particle
            # coefficients of the real circuit:  U a^_k U^-1 |vac> = sum_j C_kj a^_j |vac>
            table = ctx.driver.one({'op': 'c14.ffftexp', 'n': n})
            vac = np.zeros(2 ** n, dtype=complex)
            vac[0] = 1
            C = np.array([[(U @ lad.get(n, k, 1) @ U.conj().T @ vac)[1 << (n - 1 - j)] for j in range(n)]
                          for k in range(n)])
            want = np.array([[np.exp(-2j * np.pi * table[k][j] / n) for j in range(n)] for k in range(n)]) / np.sqrt(n)
            st.float_comparisons += 1
            if not maxdiff(C, want) <= 1e-8:
                st.disagree('ffft single-particle coefficients vs the Model exponent table ctExp', case,
                            np.round(C, 6).tolist(), table)
            if n >= 2:
                # all sizes (theorem ffft_is_dft): the same operation semantics on integer polynomials mod X^n - 1
                simc = ctx.driver.one({'op': 'c14.ffftsimcyc', 'n': n})
                om = np.exp(-2j * np.pi / n)
                Sc = np.array([[sum(c * om ** e for e, c in enumerate(poly)) for poly in row] for row in simc])
                st.float_comparisons += 1
                st.count('ffft:gate-action-simulation-any-size')
                if not maxdiff(np.sqrt(n) * C, Sc) <= 1e-8:
                    st.disagree('ffft single-particle coefficients vs the Model operation semantics runFfft (cyclic)', case,
                                np.round(np.sqrt(n) * C, 6).tolist(), simc)
            if n >= 2 and n & (n - 1) == 0:
                # the operations of the Model (runFfft on integer polynomials in omega_n mod omega^(n/2) = -1, the function
                # of theorem ffft_pow2_is_dft) vs the real circuit: sqrt(n) C_kj = polynomial evaluated at e^{-2 pi i/n}
                sim = ctx.driver.one({'op': 'c14.ffftsim', 'n': n})
                om = np.exp(-2j * np.pi / n)
                S = np.array([[sum(c * om ** e for e, c in enumerate(poly)) for poly in row] for row in sim])
                st.float_comparisons += 1
                st.count('ffft:gate-action-simulation')
                if not maxdiff(np.sqrt(n) * C, S) <= 1e-8:
                    st.disagree('ffft single-particle coefficients vs the Model operation semantics runFfft', case,
                                np.round(np.sqrt(n) * C, 6).tolist(), sim)
    return st


# ------------------------------------------------------------------ hardening: state, types, bands, asymmetry

KNOWN_ABSORB = 'C14-cubic-absorb-exponent-period'


def py_swap_contract(n, log, order):
    """the swap network contract, evaluated in Python (sizes where the Lean Spec evaluation is too slow)"""
    if order != list(range(n))[::-1] or len(log) != n * (n - 1) // 2:
        return False
    seen = set()
    for p, q, a, b in log:
        if b != a + 1 or not (0 <= a and b < n) or p == q or not (0 <= p < n and 0 <= q < n):
            return False
        k = (min(p, q), max(p, q))
        if k in seen:
            return False
        seen.add(k)
    return len(seen) == n * (n - 1) // 2


def hardening_stream(ctx, lad):
    import cirq
    import scipy.linalg as la
    of = ctx.of
    st = Stream('state-types-bands', '(S) one gate instance queried, mutated in place (fswap, absorb_exponent_into_weights, '
                'permute) and queried again: unitary / generator must describe the NEW weights (= a fresh gate, = FSWAP '
                'conjugation of the previous unitary); arguments of the primitives are not modified; repeated calls after '
                'mutating returned containers give fresh equal results. (T) numpy / Python scalar types for angles, exponents, '
                'weights; float32 / complex64 / float64 / int / Fortran-ordered transformation matrices; tuple / set / ndarray / '
                'range initial states (types accepted by the unmodified tree, probed when the check was built): result = result '
                'for the canonical types (1e-9; 1e-6 for 32-bit inputs). (B) angles and weights 1e-2..1e-7 next to O(1), Givens '
                'angles 1e-3..1e-6, swap networks with mode indices >= 257. (A) purely imaginary / purely real / negative weights '
                'and matrices; distinct = distinct cases')
    rng = rng_for(ctx.seed, 'c14-hard')
    rs = np.random.RandomState(rng.randrange(2 ** 31))
    big = ctx.tier == 'thorough' or ctx.drift
    lad.prefetch([2, 3, 4])
    FS = cirq.unitary(of.FSWAP)

    def chk(case, what, d, tol=TOL, detail=None):
        st.float_comparisons += 1
        st.count(what.split(':')[0])
        if not d <= tol:
            st.violate(what, case, dict({'max_abs_difference': float(d)}, **(detail or {})))
            return False
        return True

    def emb(i, nq):
        return kron(*([np.eye(2)] * i + [FS] + [np.eye(2)] * (nq - 2 - i)))

    classes = [(of.QuadraticFermionicSimulationGate, 2, 2), (of.CubicFermionicSimulationGate, 3, 3),
               (of.QuarticFermionicSimulationGate, 3, 4)]

    def rand_w(kind):
        if kind == 'imag':
            return complex(0, rng.choice([-1.5, -0.5, 0.25, 0.75, 1.0]))
        if kind == 'real':
            return complex(rng.choice([-1.5, -0.5, 0.25, 0.75, 1.0]), 0)
        if kind == 'tiny':
            return complex(rng.choice([1e-3, -1e-5, 1e-7]), rng.choice([0, 1e-4, -1e-6]))
        return complex(rng.randint(-6, 6) / 4, rng.randint(-6, 6) / 4) or (0.5 + 0.25j)

    # ---- (S) + (A) + (B): one instance, mutated in place
    nrep = budget(ctx.tier, 3, 12)
    if ctx.drift:
        nrep = max(nrep, 6)
    for cls, nw, nq in classes:
        for rep in range(nrep):
            kinds = [rng.choice(['generic', 'generic', 'imag', 'real', 'tiny']) for _ in range(nw)]
            ws = tuple(rand_w(k) for k in kinds)
            if cls is of.QuadraticFermionicSimulationGate:
                ws = (ws[0], ws[1].real or 0.5)
            t = rng.choice([1.0, 0.5, -0.25, 2.0])
            case = {'family': 'S', 'gate': cls.__name__, 'weights': [str(w) for w in ws], 'exponent': t, 'kinds': kinds}
            st.case(case)
            st.count('S:gate-mutation')
            try:
                g = cls(ws, exponent=t)
                fresh = lambda: cirq.unitary(cls(tuple(g.weights), exponent=g.exponent))  # noqa: E731
                prev = cirq.unitary(g)
                _ = g.qubit_generator_matrix
                h = g ** 2
                Uh = cirq.unitary(h)
                g0 = g.permuted(list(range(nq))[::-1]) if nq > 1 else g
                w_before = tuple(g.weights)
                chk(case, 'S: permuted() must not modify the gate', 0.0 if tuple(g.weights) == w_before else 1.0)
                steps = [('fswap', i) for i in range(nq - 1)] + [('absorb', None)] + \
                        [('fswap', rng.randrange(nq - 1))] + [('permute', rng.sample(range(nq), nq))] + \
                        [('fswap', rng.randrange(nq - 1))]
                for kind, arg in steps:
                    tag = '%s(%s)' % (kind, arg if arg is not None else '')
                    if kind == 'fswap':
                        g.fswap(arg)
                        Fi = emb(arg, nq)
                        now = cirq.unitary(g)
                        chk(case, 'S: unitary after in-place %s = FSWAP-conjugate of the previous unitary' % tag,
                            maxdiff(now, Fi @ prev @ Fi.conj().T), detail={'step': tag})
                    elif kind == 'absorb':
                        wraps = bool(cls is of.CubicFermionicSimulationGate
                                     and sum(1 for w in g.weights if w != 0) >= 2
                                     and any(not (0 <= abs(w) * g.exponent < 2 * math.pi) for w in g.weights if w != 0))
                        g.absorb_exponent_into_weights()
                        now = cirq.unitary(g)
                        chk(case, 'S: unitary unchanged by absorb_exponent_into_weights', maxdiff(now, prev),
                            detail={'step': tag, 'cubic_with_coupled_weights_wrapping_mod_2pi': wraps})
                        chk(case, 'S: exponent is 1 after absorb_exponent_into_weights', abs(g.exponent - 1))
                    else:
                        g.permute(arg)
                        now = cirq.unitary(g)
                    chk(case, 'S: unitary after in-place %s = unitary of a fresh gate with the new weights' % kind,
                        maxdiff(now, fresh()), detail={'step': tag})
                    chk(case, 'S: exp(-i t qubit_generator_matrix) after in-place %s = unitary' % kind,
                        maxdiff(la.expm(-1j * g.exponent * g.qubit_generator_matrix), now), detail={'step': tag})
                    Hapi = lad.op(nq, g.fermion_generator.terms)
                    chk(case, 'S: exp(-i t JW(fermion_generator)) after in-place %s = unitary' % kind,
                        maxdiff(la.expm(-1j * g.exponent * Hapi), now), detail={'step': tag})
                    prev = now
                chk(case, 'S: g**2 computed before the mutations is unaffected by them', maxdiff(cirq.unitary(h), Uh))
                del g0
            except Exception as e:  # noqa: BLE001
                st.violate('S: gate mutation sequence raised %s' % type(e).__name__, case, {'exception': repr(e)[:200]})

    # ---- (T) scalar types for angles / exponents / weights
    th = 0.375
    angle_types = [('int', 1), ('numpy.int64', np.int64(1)), ('numpy.float64', np.float64(th)),
                   ('numpy.float32', np.float32(th)), ('bool', True)]
    makers = [('Rxxyy', of.Rxxyy), ('Ryxxy', of.Ryxxy), ('Rzz', of.Rzz), ('rot11', of.rot11), ('rot111', of.rot111),
              ('CRxxyy', of.CRxxyy), ('CRyxxy', of.CRyxxy), ('FSWAP**', lambda x: of.FSWAP ** x),
              ('DoubleExcitation', lambda x: of.DoubleExcitationGate(exponent=x))]
    for name, mk in makers:
        for tn, val in angle_types:
            if name in ('FSWAP**', 'DoubleExcitation') and tn == 'bool':
                continue
            case = {'family': 'T', 'gate': name, 'type': tn, 'value': float(val)}
            st.case(case)
            st.count('T:angle-type')
            ok, d = safe(st, 'T: %s(%s)' % (name, tn), case,
                         lambda: maxdiff(cirq.unitary(mk(val)), cirq.unitary(mk(float(val)))))
            if ok:
                chk(case, 'T: gate built from a %s angle = gate built from the float' % tn, d)
    weight_types = [('int', lambda x: int(round(x.real)), TOL), ('float', lambda x: float(x.real), TOL),
                    ('numpy.complex128', np.complex128, TOL), ('numpy.complex64', np.complex64, 1e-6),
                    ('numpy.float64', lambda x: np.float64(x.real), TOL),
                    ('numpy.int64', lambda x: np.int64(round(x.real)), TOL),
                    ('numpy.float32', lambda x: np.float32(x.real), 1e-6)]
    for cls, nw, nq in classes:
        for tn, conv, tol in weight_types:
            base = [complex(rng.choice([-2, -1, 1, 2]), rng.choice([-0.5, 0.25, 0.75])) for _ in range(nw)]
            if cls is of.QuadraticFermionicSimulationGate:
                base[1] = complex(base[1].real, 0)
            ws = tuple(conv(b) for b in base)
            canon = tuple(complex(w) for w in ws)
            for cont in (tuple, list):
                case = {'family': 'T', 'gate': cls.__name__, 'weight_type': tn, 'container': cont.__name__,
                        'weights': [str(w) for w in ws]}
                st.case(case)
                st.count('T:weight-type')
                t = rng.choice([0.5, 1.0, -0.75])
                ok, d = safe(st, 'T: %s with %s weights' % (cls.__name__, tn), case, lambda: maxdiff(
                    cirq.unitary(cls(cont(ws), exponent=t)), cirq.unitary(cls(canon, exponent=t))))
                if ok:
                    chk(case, 'T: gate with %s weights = gate with complex weights' % tn, d, tol)

    # ---- (F) explicit zero / negative zero / tiny / full-period angles through every constructor keyword
    G4 = np.zeros((16, 16), dtype=complex)
    G4[3, 12] = G4[12, 3] = -1          # DoubleExcitation = exp(-i pi t G4)  (double_excitation_spectral)
    q4 = cirq.LineQubit.range(4)
    kw_values = {
        'exponent': [(0, 0.0), (0.0, 0.0), (-0.0, 0.0), (np.float64(0.0), 0.0), (np.int64(0), 0.0), (1e-12, 1e-12), (2, 2.0),
                     (-2.0, -2.0), (1, 1.0), (0.5, 0.5), (-0.375, -0.375)],
        'rads': [(0, 0.0), (0.0, 0.0), (-0.0, 0.0), (1e-12, 1e-12 / math.pi), (2 * math.pi, 2.0), (math.pi, 1.0),
                 (-math.pi / 2, -0.5), (0.3, 0.3 / math.pi)],
        'degs': [(0, 0.0), (0.0, 0.0), (-0.0, 0.0), (1e-10, 1e-10 / 180), (360, 2.0), (180, 1.0), (-90, -0.5), (30.0, 1 / 6)],
        'duration': [(0, 0.0), (0.0, 0.0), (-0.0, 0.0), (np.float64(0.0), 0.0), (1e-12, 2e-12 / math.pi), (math.pi, 2.0),
                     (math.pi / 2, 1.0), (-math.pi / 4, -0.5), (0.3, 0.6 / math.pi)],
    }
    for kwname, vals in kw_values.items():
        for val, t_expected in vals:
            case = {'family': 'F', 'gate': 'DoubleExcitationGate', 'keyword': kwname, 'value': repr(val)}
            st.case(case)
            st.count('F:DoubleExcitationGate(%s=)' % kwname)
            ok, g = safe(st, 'DoubleExcitationGate(%s=%r)' % (kwname, val), case,
                         lambda: of.DoubleExcitationGate(**{kwname: val}))
            if not ok:
                continue
            chk(case, 'F: exponent of DoubleExcitationGate(%s=value) is the documented conversion' % kwname,
                abs(float(g.exponent) - t_expected), 1e-12, {'exponent': float(g.exponent), 'expected': t_expected})
            ok, U = safe(st, 'unitary(DoubleExcitationGate)', case, lambda: cirq.unitary(g))
            if not ok:
                continue
            want = la.expm(-1j * math.pi * t_expected * G4)
            chk(case, 'F: DoubleExcitationGate(%s=value) = exp(-i pi t G)' % kwname, maxdiff(U, want), 1e-11)
            sv = rng_state(rng, 16)
            out = cirq.Simulator(dtype=np.complex128).simulate(cirq.Circuit(g(*q4)), initial_state=sv,
                                                               qubit_order=q4).final_state_vector
            chk(case, 'F: simulated state of DoubleExcitationGate(%s=value) = exp(-i pi t G) v' % kwname,
                maxdiff(out, want @ sv), 1e-11)
            ok, D = safe(st, 'DoubleExcitationGate decomposition', case,
                         lambda: circuit_unitary(cirq, cirq.decompose_once(g(*q4)), q4))
            if ok:
                chk(case, 'F: decomposition of DoubleExcitationGate(%s=value) = gate up to a phase' % kwname,
                    phase_diff(D, want), 1e-9)
    # default (no keyword) is one half turn; two keywords at once are refused
    case = {'family': 'F', 'gate': 'DoubleExcitationGate', 'keyword': None}
    st.case(case)
    ok, g = safe(st, 'DoubleExcitationGate()', case, lambda: of.DoubleExcitationGate())
    if ok:
        chk(case, 'F: DoubleExcitationGate() has exponent 1', abs(float(g.exponent) - 1.0), 0.0)
    for kws in ({'duration': 0, 'exponent': 0}, {'rads': 0.0, 'degs': 0.0}, {'exponent': 1.0, 'duration': 0.5}):
        try:
            of.DoubleExcitationGate(**kws)
            st.violate('F: DoubleExcitationGate accepts two angle keywords at once', dict(case, keywords=str(kws)), {})
        except ValueError:
            pass
        except Exception as e:  # noqa: BLE001
            st.violate('F: DoubleExcitationGate with two angle keywords raised %s' % type(e).__name__,
                       dict(case, keywords=str(kws)), {})
    # the same boundary values for the positional-angle gates (documented matrices) and the exponents of the other gates
    boundary = [0, 0.0, -0.0, np.float64(-0.0), 1e-12, -1e-12, 2 * math.pi, -2 * math.pi, 4 * math.pi, math.pi]
    XXb, YYb = kron(PAULI['X'], PAULI['X']), kron(PAULI['Y'], PAULI['Y'])
    YXb, XYb, ZZb = kron(PAULI['Y'], PAULI['X']), kron(PAULI['X'], PAULI['Y']), kron(PAULI['Z'], PAULI['Z'])
    for a in boundary:
        af = float(a)
        docs_b = [('Rxxyy', of.Rxxyy, la.expm(-1j * af * (XXb + YYb) / 2)), ('Ryxxy', of.Ryxxy, la.expm(-1j * af * (YXb - XYb) / 2)),
                  ('Rzz', of.Rzz, la.expm(-1j * af * ZZb)), ('rot11', of.rot11, np.diag([1, 1, 1, np.exp(1j * af)])),
                  ('rot111', of.rot111, np.diag([1] * 7 + [np.exp(1j * af)])),
                  ('CRxxyy', of.CRxxyy, la.block_diag(np.eye(4), la.expm(-1j * af * (XXb + YYb) / 2))),
                  ('CRyxxy', of.CRyxxy, la.block_diag(np.eye(4), la.expm(-1j * af * (YXb - XYb) / 2)))]
        for name, mk, doc in docs_b:
            case = {'family': 'F', 'gate': name, 'angle': repr(a)}
            st.case(case)
            st.count('F:boundary-angle')
            ok, U = safe(st, 'F: %s(%r)' % (name, a), case, lambda: cirq.unitary(mk(a)))
            if ok:
                chk(case, 'F: documented matrix at a boundary angle (%s)' % name, maxdiff(U, doc), 1e-11)
    n0, n1 = lad.get(2, 0, 1) @ lad.get(2, 0, 0), lad.get(2, 1, 1) @ lad.get(2, 1, 0)
    hop = lad.get(2, 0, 1) @ lad.get(2, 1, 0) + lad.get(2, 1, 1) @ lad.get(2, 0, 0)
    P1f = 0.5 * (n0 + n1 - hop)
    for t in [0, 0.0, -0.0, 1e-12, 2, -2.0, 4, 1, np.float64(0.0), np.int64(0)]:
        case = {'family': 'F', 'gate': 'FSWAP**t', 'exponent': repr(t)}
        st.case(case)
        st.count('F:boundary-exponent')
        ok, U = safe(st, 'F: FSWAP**%r' % (t,), case, lambda: cirq.unitary(of.FSWAP ** t))
        if ok:
            chk(case, 'F: FSWAP**t = exp(i pi t P1) at a boundary exponent', maxdiff(U, la.expm(1j * math.pi * float(t) * P1f)), 1e-11)
        ok, U = safe(st, 'F: FSwapPowGate(exponent=%r)' % (t,), case, lambda: cirq.unitary(of.FSwapPowGate(exponent=t)))
        if ok:
            chk(case, 'F: FSwapPowGate(exponent=t) = exp(i pi t P1) at a boundary exponent',
                maxdiff(U, la.expm(1j * math.pi * float(t) * P1f)), 1e-11)
        for cls, nw, nq in classes:
            ws = tuple(rand_w('generic') for _ in range(nw))
            if cls is of.QuadraticFermionicSimulationGate:
                ws = (ws[0], ws[1].real or 0.5)
            c2 = dict(case, gate=cls.__name__, weights=[str(w) for w in ws])
            st.case(c2)
            ok, g = safe(st, 'F: %s(exponent=%r)' % (cls.__name__, t), c2, lambda: cls(ws, exponent=t))
            if not ok:
                continue
            ok, U = safe(st, 'F: unitary(%s)' % cls.__name__, c2, lambda: cirq.unitary(g))
            if not ok:
                continue
            want = la.expm(-1j * float(t) * lad.op(nq, g.fermion_generator.terms))
            chk(c2, 'F: fermionic simulation gate = exp(-i t JW(fermion_generator)) at a boundary exponent', maxdiff(U, want), 1e-10)
            qs_ = cirq.LineQubit.range(nq)
            sv = rng_state(rng, 2 ** nq)
            out = cirq.Simulator(dtype=np.complex128).simulate(cirq.Circuit(g(*qs_)), initial_state=sv,
                                                               qubit_order=qs_).final_state_vector
            chk(c2, 'F: simulated state = unitary at a boundary exponent', maxdiff(out, want @ sv), 1e-10)
            if cls is of.QuadraticFermionicSimulationGate:
                ok, D = safe(st, 'F: Quadratic decomposition', c2,
                             lambda: circuit_unitary(cirq, cirq.decompose_once(g(*qs_)), qs_))
                if ok:
                    chk(c2, 'F: Quadratic decomposition = gate at a boundary exponent', maxdiff(D, want), 1e-10)
    # ---- (B) small angles and weights (documented matrices / generators as oracle)
    XX, YY = kron(PAULI['X'], PAULI['X']), kron(PAULI['Y'], PAULI['Y'])
    YX, XY, ZZ = kron(PAULI['Y'], PAULI['X']), kron(PAULI['X'], PAULI['Y']), kron(PAULI['Z'], PAULI['Z'])
    for a in (1e-2, -1e-3, 1e-4, 1e-5, -1e-6, 1e-7):
        docs = [('Rxxyy', of.Rxxyy, la.expm(-1j * a * (XX + YY) / 2)), ('Ryxxy', of.Ryxxy, la.expm(-1j * a * (YX - XY) / 2)),
                ('Rzz', of.Rzz, la.expm(-1j * a * ZZ)), ('rot11', of.rot11, np.diag([1, 1, 1, np.exp(1j * a)])),
                ('rot111', of.rot111, np.diag([1] * 7 + [np.exp(1j * a)]))]
        for name, mk, doc in docs:
            case = {'family': 'B', 'gate': name, 'angle': a}
            st.case(case)
            st.count('B:small-angle')
            ok, U = safe(st, 'B: %s' % name, case, lambda: cirq.unitary(mk(a)))
            if ok:
                chk(case, 'B: documented matrix at a small angle (%s)' % name, maxdiff(U, doc), 1e-12)
    for cls, nw, nq in classes:
        for rep in range(budget(ctx.tier, 2, 6)):
            ws = [rand_w('tiny') if (i + rep) % 2 == 0 else rand_w('generic') for i in range(nw)]
            if cls is of.QuadraticFermionicSimulationGate:
                ws[1] = ws[1].real or 1e-5
            t = rng.choice([1.0, 0.5])
            case = {'family': 'B', 'gate': cls.__name__, 'weights': [str(w) for w in ws], 'exponent': t}
            st.case(case)
            st.count('B:small-weight')
            ok, g = safe(st, 'B: %s' % cls.__name__, case, lambda: cls(tuple(ws), exponent=t))
            if ok:
                ok, U = safe(st, 'B: unitary(%s)' % cls.__name__, case, lambda: cirq.unitary(g))
            if ok:
                chk(case, 'B: exp(-i t JW(fermion_generator)) with small and O(1) weights',
                    maxdiff(la.expm(-1j * t * lad.op(nq, g.fermion_generator.terms)), U), 1e-11)
                sv = rng_state(rng, 2 ** nq)
                qs = cirq.LineQubit.range(nq)
                out = cirq.Simulator(dtype=np.complex128).simulate(cirq.Circuit(g(*qs)), initial_state=sv,
                                                                   qubit_order=qs).final_state_vector
                chk(case, 'B: simulator path = unitary with small and O(1) weights', maxdiff(out, U @ sv), 1e-11)

    # ---- primitives: (S) arguments untouched / repeated calls, (T) matrix and state types, (B), (A)
    lad.prefetch([3, 4])
    for n in ([3, 4] if not big else [2, 3, 4, 5]):
        qubits = cirq.LineQubit.range(n)
        W0 = rand_unitary(rs, n)
        eps = rng.choice([1e-3, 1e-5, 1e-6])
        Wg = np.eye(n, dtype=complex)
        Wg[0, 0] = Wg[n - 1, n - 1] = math.cos(eps)
        Wg[0, n - 1], Wg[n - 1, 0] = math.sin(eps), -math.sin(eps)
        Wi = 1j * rand_unitary(rs, n, True)
        Hq = of.random_quadratic_hamiltonian(n, conserves_particle_number=False, seed=rng.randrange(10 ** 6))
        Wq = np.asarray(Hq.diagonalizing_bogoliubov_transform()[1], dtype=complex)
        mats = [('haar', W0), ('tiny-givens(%g)' % eps, Wg), ('imaginary-orthogonal', Wi), ('gaussian', Wq)]
        for kind, W in mats:
            case = {'family': 'S/B/A', 'fn': 'bogoliubov_transform', 'n': n, 'kind': kind, 'W': W}
            st.case(case)
            st.count('prim:' + kind.split('(')[0])
            Wc = W.copy()
            try:
                ops1 = list(cirq.flatten_op_tree(of.bogoliubov_transform(qubits, W)))
                chk(case, 'S: bogoliubov_transform must not modify its matrix', maxdiff(W, Wc), 0.0)
                ops1_snapshot = list(ops1)
                ops1.clear()
                ops2 = list(cirq.flatten_op_tree(of.bogoliubov_transform(qubits, W)))
                chk(case, 'S: second call of bogoliubov_transform = first call', 0.0 if ops2 == ops1_snapshot else 1.0)
                U = circuit_unitary(cirq, ops2, qubits)
                for p in range(n):
                    if W.shape[1] == n or kind == 'gaussian':
                        chk(case, 'B/A: conjugation identity (%s)' % kind.split('(')[0],
                            maxdiff(U @ lad.get(n, p, 1) @ U.conj().T, bogoliubov_rhs(lad, W, n, p)))
            except Exception as e:  # noqa: BLE001
                st.violate('S/B/A: bogoliubov_transform raised %s' % type(e).__name__, case, {'exception': repr(e)[:200]})
                continue
            if W.shape[1] != n:
                continue
            # (T) dtype / layout variants of the same square matrix
            perm = np.eye(n)[rng.sample(range(n), n)]
            variants = [('float64', Wg.real.astype(np.float64), Wg, TOL), ('float32', Wg.real.astype(np.float32), Wg, 1e-6),
                        ('complex64', W.astype(np.complex64), W, 1e-6), ('fortran', np.asfortranarray(W), W, TOL),
                        ('int64', perm.astype(np.int64), perm.astype(complex), TOL),
                        ('int32', perm.astype(np.int32), perm.astype(complex), TOL)]
            if kind != 'haar':
                variants = []
            for tn, Wt, Wcanon, tol in variants:
                c2 = {'family': 'T', 'fn': 'primitives', 'n': n, 'dtype': tn}
                st.case(c2)
                st.count('T:matrix-type')
                for fname, f in (('bogoliubov_transform', lambda M: of.bogoliubov_transform(qubits, M)),
                                 ('prepare_slater_determinant',
                                  lambda M: of.prepare_slater_determinant(qubits, M[: max(1, n // 2)])),
                                 ('optimal_givens_decomposition',
                                  lambda M: of.optimal_givens_decomposition(qubits, M))):
                    ok, d = safe(st, 'T: %s(%s)' % (fname, tn), c2, lambda: maxdiff(
                        circuit_unitary(cirq, f(Wt), qubits), circuit_unitary(cirq, f(np.array(Wcanon, dtype=complex)), qubits)))
                    if ok:
                        chk(c2, 'T: %s with a %s matrix = with the complex128 matrix' % (fname, tn), d, tol)
            # (T) initial state containers
            occ = sorted(rng.sample(range(n), rng.randint(0, n)))
            ok, Uref = safe(st, 'bogoliubov_transform(initial_state list)', case, lambda: circuit_unitary(
                cirq, of.bogoliubov_transform(qubits, W.copy(), initial_state=list(occ)), qubits))
            if ok and kind == 'haar':
                for tn, ini in (('tuple', tuple(occ)), ('numpy.int64 list', [np.int64(i) for i in occ]),
                                ('ndarray', np.array(occ, dtype=int)), ('set', set(occ)),
                                ('reversed list', list(occ)[::-1])):
                    c2 = {'family': 'T', 'fn': 'initial_state', 'n': n, 'type': tn, 'occupied': occ}
                    st.case(c2)
                    st.count('T:initial-state-type')
                    for fname, f in (('bogoliubov_transform',
                                      lambda i_: of.bogoliubov_transform(qubits, W.copy(), initial_state=i_)),
                                     ('prepare_slater_determinant',
                                      lambda i_: of.prepare_slater_determinant(qubits, W[: max(1, n // 2)].copy(),
                                                                               initial_state=i_))):
                        init_idx = sum(1 << (n - 1 - j) for j in occ)
                        ok, d = safe(st, 'T: %s(initial_state %s)' % (fname, tn), c2, lambda: phase_diff(
                            circuit_unitary(cirq, f(ini), qubits)[:, init_idx],
                            circuit_unitary(cirq, f(list(occ)), qubits)[:, init_idx]))
                        if ok:
                            chk(c2, 'T: %s with a %s initial state = with the list' % (fname, tn), d)
        # optimal_givens_decomposition: argument untouched, second call with the same array equal
        Wc = W0.copy()
        case = {'family': 'S', 'fn': 'optimal_givens_decomposition', 'n': n, 'unitary': Wc}
        st.case(case)
        st.count('S:argument-untouched')
        ok, o1 = safe(st, 'optimal_givens_decomposition', case,
                      lambda: list(of.optimal_givens_decomposition(qubits, W0)))
        if ok:
            chk(case, 'S: optimal_givens_decomposition must not modify its unitary argument', maxdiff(W0, Wc), 0.0)
            U1 = circuit_unitary(cirq, o1, qubits)
            o1.clear()
            ok, o2 = safe(st, 'optimal_givens_decomposition (2nd call, same array)', case,
                          lambda: list(of.optimal_givens_decomposition(qubits, W0)))
            if ok:
                U2 = circuit_unitary(cirq, o2, qubits)
                chk(case, 'S: second call of optimal_givens_decomposition with the same array = first call',
                    maxdiff(U2, U1))
                for q in range(n):
                    chk(case, 'S: conjugation identity of the second call of optimal_givens_decomposition',
                        maxdiff(U2 @ lad.get(n, q, 1) @ U2.conj().T, sum(Wc[p, q] * lad.get(n, p, 1) for p in range(n))))
        # prepare_slater_determinant / prepare_gaussian_state arguments
        Q = rand_unitary(rs, n)[: max(1, n // 2)]
        Qc = Q.copy()
        case = {'family': 'S', 'fn': 'prepare_slater_determinant', 'n': n, 'Q': Qc}
        st.case(case)
        ok, _ = safe(st, 'prepare_slater_determinant', case,
                     lambda: list(cirq.flatten_op_tree(of.prepare_slater_determinant(qubits, Q))))
        if ok:
            chk(case, 'S: prepare_slater_determinant must not modify its matrix', maxdiff(Q, Qc), 0.0)
        Hc = of.random_quadratic_hamiltonian(n, conserves_particle_number=bool(n % 2), seed=rng.randrange(10 ** 6))
        snap = {k: v.copy() if hasattr(v, 'copy') else v for k, v in Hc.n_body_tensors.items()}
        case = {'family': 'S', 'fn': 'prepare_gaussian_state', 'n': n}
        st.case(case)
        ok, o1 = safe(st, 'prepare_gaussian_state', case,
                      lambda: list(cirq.flatten_op_tree(of.prepare_gaussian_state(qubits, Hc))))
        if ok:
            chk(case, 'S: prepare_gaussian_state must not modify the Hamiltonian',
                max(maxdiff(np.asarray(Hc.n_body_tensors[k]), np.asarray(v)) for k, v in snap.items()), 0.0)
            ok, o2 = safe(st, 'prepare_gaussian_state (2nd call)', case,
                          lambda: list(cirq.flatten_op_tree(of.prepare_gaussian_state(qubits, Hc))))
            if ok:
                chk(case, 'S: second call of prepare_gaussian_state = first call',
                    maxdiff(circuit_unitary(cirq, o1, qubits), circuit_unitary(cirq, o2, qubits)))
    # ---- gates from an InteractionOperator: operator untouched, results not shared between calls
    n = 4
    one = np.zeros((n, n), dtype=complex)
    two = np.zeros((n, n, n, n), dtype=complex)
    for (p, q), c in (((0, 1), 0.5 + 0.25j), ((1, 3), 1j), ((2, 2), -0.75), ((0, 3), 1e-5)):
        one[p, q] += c
        if p != q:
            one[q, p] += c.conjugate()
    for (p, q, r_, s_), c in (((0, 1, 2, 3), 0.5j), ((0, 2, 0, 3), 0.25), ((1, 2, 2, 1), -1.0), ((3, 0, 2, 1), 1e-4 + 0j)):
        two[p, q, r_, s_] += c
        two[s_, r_, q, p] += c.conjugate()
    op = of.InteractionOperator(0.5, one.copy(), two.copy())
    case = {'family': 'S', 'fn': 'fermionic_simulation_gates_from_interaction_operator'}
    st.case(case)
    ok, g1 = safe(st, 'fermionic_simulation_gates_from_interaction_operator', case,
                  lambda: of.fermionic_simulation_gates_from_interaction_operator(op))
    if ok:
        chk(case, 'S: gates_from_interaction_operator must not modify the operator',
            max(maxdiff(op.one_body_tensor, one), maxdiff(op.two_body_tensor, two), abs(op.constant - 0.5)), 0.0)
        us1 = {k: (cirq.unitary(v) if not isinstance(v, (int, float, complex)) else v) for k, v in g1.items()}
        try:
            for k, v in list(g1.items()):
                if hasattr(v, 'fswap'):
                    v.fswap(0)
            g1.clear()
            g2 = of.fermionic_simulation_gates_from_interaction_operator(op)
            same = set(g2) == set(us1) and all(
                maxdiff(np.atleast_2d(cirq.unitary(v) if not isinstance(v, (int, float, complex)) else v),
                        np.atleast_2d(us1[k])) <= TOL for k, v in g2.items())
            chk(case, 'S: second call of gates_from_interaction_operator = first call (after mutating the first result)',
                0.0 if same else 1.0)
        except Exception as e:  # noqa: BLE001
            st.violate('S: gates_from_interaction_operator second call raised %s' % type(e).__name__, case,
                       {'exception': repr(e)[:200]})
    # ---- (B) swap networks with mode indices >= 257 (contract evaluated in Python), repeated call
    for n in ([258] if not big else [258, 300]):
        for off in (False, True):
            case = {'family': 'B', 'fn': 'swap_network', 'n': n, 'offset': off}
            st.case(case)
            st.count('B:swap-network-large')
            qubits = list(cirq.LineQubit.range(n))
            qcopy = list(qubits)
            pos = {q: i for i, q in enumerate(qubits)}
            log = []
            ok, res = safe(st, 'swap_network', case, lambda: of.swap_network(
                qubits, lambda p, q, a, b: log.append((p, q, pos[a], pos[b])) or (), fermionic=True, offset=off))
            if not ok:
                continue
            order = list(range(n))
            for o in res:
                i, j = pos[o.qubits[0]], pos[o.qubits[1]]
                order[i], order[j] = order[j], order[i]
            if not py_swap_contract(n, log, order):
                st.violate('B: swap network contract violated for a register with mode indices >= 257', case, {})
            if qubits != qcopy:
                st.violate('S: swap_network modifies its qubit list', case, {})
            if n == 258 and not off:
                first = list(res)
                res.clear()
                again = of.swap_network(qubits, fermionic=True, offset=off)
                if again != first:
                    st.violate('S: second call of swap_network differs from the first', case, {})
    return st


# ------------------------------------------------------------------ known findings

KNOWN_DOC = 'C14-quadratic-docstring-w1-sign'
KNOWN_SING = 'C14-gaussian-decomposition-singular-annihilation-block'


def classify(v):
    if ((v['what'].startswith('conjugation: U a^_') and 'bogoliubov_transform' in v['what']
         or v['what'].startswith('initial_state: bogoliubov_transform')
         or v['what'].startswith('state: prepare_gaussian_state'))
            and v['detail'].get('gaussian_annihilation_block_singular') is True):
        return KNOWN_SING
    if (v['what'] == 'S: unitary unchanged by absorb_exponent_into_weights'
            and v['detail'].get('cubic_with_coupled_weights_wrapping_mod_2pi') is True):
        return KNOWN_ABSORB
    if (v['what'] == 'Quadratic gate differs from its class-docstring Hamiltonian'
            and v['detail'].get('agrees_with_docstring_after_flipping_sign_of_w1') is True):
        return KNOWN_DOC
    return None


def probe_known(ctx, k):
    import cirq
    import scipy.linalg as la
    of = ctx.of
    if k['id'] == KNOWN_SING:
        W = np.array([[0.6, 0.8, 0, 0], [-0.8, 0.6, 0, 0]], dtype=complex)
        qs = cirq.LineQubit.range(2)
        U = circuit_unitary(cirq, of.bogoliubov_transform(qs, W.copy()), qs)
        lad = Ladders(ctx.driver)
        return bool(maxdiff(U @ lad.get(2, 0, 1) @ U.conj().T, bogoliubov_rhs(lad, W, 2, 0)) > 1e-6)
    if k['id'] == KNOWN_ABSORB:
        g = of.CubicFermionicSimulationGate((1.0 + 0j, 1.0 + 0j, 0j), exponent=-1.0)
        U = cirq.unitary(g)
        g.absorb_exponent_into_weights()
        return bool(maxdiff(cirq.unitary(g), U) > 1e-6)
    if k['id'] == KNOWN_DOC:
        doc = of.QuadraticFermionicSimulationGate.__doc__ or ''
        U = cirq.unitary(of.QuadraticFermionicSimulationGate((0.0, 1.0)))
        # docstring: H = ... - w1 |11><11|  => entry e^{+i w1}; implementation: e^{-i w1}
        says_minus = '-\n            w_1 \\left| 11' in doc or '- w1 |11' in doc.replace('  ', ' ')
        return bool(abs(U[3, 3] - np.exp(-1j)) < 1e-9 and says_minus)
    return False


def run(ctx):
    lad = Ladders(ctx.driver)
    return [swap_stream(ctx), gates_stream(ctx, lad), glue_stream(ctx), primitives_stream(ctx, lad),
            hardening_stream(ctx, lad)]
