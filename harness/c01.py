"""C01 — operator arithmetic: correspondence of random / exhaustive programs over
operator objects with the Lean Model (OFV.Model.Program), plus the Spec oracle
(OFV.Spec.Expr) evaluated on the implementation's own values."""
import copy
import itertools
from fractions import Fraction

from common import (Stream, budget, enc_op, enc_term, canon_op_json, to_gq, from_gq, dyadic,
                    rng_for, import_openfermion, show)

CLASSES = ['qubit', 'fermion', 'boson', 'quad', 'ising', 'majorana']
ACTIONS = {'qubit': ['X', 'Y', 'Z'], 'ising': ['Z'], 'fermion': [0, 1], 'boson': [0, 1],
           'quad': ['q', 'p']}


def cls_of(of, name):
    return {'qubit': of.QubitOperator, 'fermion': of.FermionOperator, 'boson': of.BosonOperator,
            'quad': of.QuadOperator, 'ising': of.IsingOperator, 'majorana': of.MajoranaOperator}[name]


# ---------------------------------------------------------------- generation

BIG_POOL = [255, 256, 257, 258, 300, 1000, 65537]


def rand_index(rng, max_index):
    """max_index < 0 selects the pool of large indices (each draw is a fresh int object:
    CPython only shares small ints, so identity-vs-equality slips show there)"""
    if max_index < 0:
        return int(str(rng.choice(BIG_POOL)))
    return rng.randint(0, max_index)


def rand_term(rng, cls, max_len, max_index):
    n = rng.choice([0, 1, 1, 2, 2, 3, 3, 4, 5, 6][:max_len + 4]) if max_len >= 6 else rng.randint(0, max_len)
    n = min(n, max_len)
    if cls == 'majorana':
        return tuple(rand_index(rng, max_index) for _ in range(n))
    return tuple((rand_index(rng, max_index), rng.choice(ACTIONS[cls])) for _ in range(n))


def rand_form(rng, cls, term):
    """container in which a constructor receives its term (only forms the unmodified library accepts):
    tuple (default), list, the class's string syntax, the bare factor for one-factor terms; for
    MajoranaOperator also numpy integer arrays and lists of numpy integers (non-empty terms)"""
    if rng.random() < 0.6:
        return 'tuple'
    if cls == 'majorana':
        if len(term) < 2:
            # _sort_majorana_term returns a term of length < 2 as it is: only hashable containers work
            return 'tuple'
        forms = ['list', 'int64', 'int32F', 'npints']
        if max(term) < 256:
            forms.append('uint8')
        return rng.choice(forms)
    forms = ['list', 'str']
    if len(term) == 1:
        forms += ['single', 'single-list']
    return rng.choice(forms)


def as_container(cls, term, form):
    import numpy
    if form in (None, 'tuple'):
        return term
    if form == 'list':
        return list(term)
    if cls == 'majorana':
        if form == 'int64':
            return numpy.array(term, dtype=numpy.int64)
        if form == 'int32F':
            return numpy.asfortranarray(numpy.array(term, dtype=numpy.int32))
        if form == 'uint8':
            return numpy.array(term, dtype=numpy.uint8)
        if form == 'npints':
            return [numpy.int64(i) for i in term]
        raise AssertionError(form)
    if form == 'single':
        return term[0]
    if form == 'single-list':
        return list(term[0])
    if form == 'str':
        if cls in ('fermion', 'boson'):
            return ' '.join('%d^' % i if a == 1 else '%d' % i for i, a in term)
        return ' '.join('%s%d' % (a, i) for i, a in term)
    raise AssertionError(form)


def rand_scalar(rng, for_div=False, special=False):
    if for_div:
        base = rng.choice([1, 2, 4, 0.5, 0.25, -1, -2, -0.5, 8])
        r = rng.random()
        if r < 0.2:
            return complex(0, base)
        if r < 0.4:
            return int(base) if float(base).is_integer() else base
        return float(base)
    if special and rng.random() < 0.15:
        # neutral / boundary scalars of every admissible type (bool is an int for the library):
        # the identity shortcuts of reflected and in-place operators live here
        import numpy
        return rng.choice([0, False, True, 1, 0.0, -0.0, 0j, -1, numpy.float64(0.0), numpy.complex128(0)])
    c = dyadic(rng, max_num=4, max_pow=2)
    u = rng.random()
    if u < 0.08:
        # band between the deletion tolerance (1e-8) and "small": 2^-14 .. 2^-22, still dyadic
        c = c * 2.0 ** -rng.randint(14, 22)
    if u > 0.85:
        # numpy scalar coefficients: only float64 / complex128 are admissible (subclasses of
        # float / complex; the other numpy scalar types are rejected by the unmodified library)
        import numpy
        if isinstance(c, complex):
            c = numpy.complex128(c)
        elif isinstance(c, float):
            c = numpy.float64(c)
    return c


def gen_program(rng, cls, nvars, nstmts, max_len, max_index):
    """statements with Python scalars; the first statements create operands"""
    prog = []
    bound = []
    ninit = rng.randint(1, min(3, nvars))
    for x in range(ninit):
        t = rand_term(rng, cls, max_len, max_index)
        prog.append(['new', x, t, rand_scalar(rng), rand_form(rng, cls, t)])
        bound.append(x)
    while len(prog) < nstmts:
        r = rng.random()
        x = rng.randrange(nvars)
        y = rng.choice(bound)
        z = rng.choice(bound)
        if r < 0.04:
            st = ['zero', x]
        elif r < 0.10:
            t = rand_term(rng, cls, max_len, max_index)
            st = ['new', x, t, rand_scalar(rng), rand_form(rng, cls, t)]
        elif r < 0.17:
            st = ['alias', x, y]
        elif r < 0.37:
            st = ['bin', x, rng.choice(['add', 'sub', 'mul', 'add', 'sub']), y, z]
        elif r < 0.49:
            o = rng.choice(['mul', 'rmul', 'div', 'add', 'radd', 'sub', 'rsub'])
            if cls == 'majorana' and o in ('radd', 'rsub'):
                o = 'mul'
            st = ['sbin', x, o, y, rand_scalar(rng, for_div=(o == 'div'), special=True)]
        elif r < 0.53:
            st = ['neg', x, y]
        elif r < 0.57:
            st = ['pow', x, y, rng.choice([0, 1, 2, 2, 3])]
        elif r < 0.87:
            x = rng.choice(bound)
            # forced aliasing: the operand is the target itself or an alias of it
            if rng.random() < 0.35:
                y = x
            st = ['iop', x, rng.choice(['add', 'sub', 'mul', 'add', 'sub']), y]
        else:
            x = rng.choice(bound)
            o = rng.choice(['mul', 'div', 'add', 'sub'])
            st = ['isop', x, o, rand_scalar(rng, for_div=(o == 'div'), special=True)]
        prog.append(st)
        if st[0] in ('new', 'zero', 'alias', 'bin', 'sbin', 'neg', 'pow') and st[1] not in bound:
            bound.append(st[1])
        if st[0] == 'zero' and len(prog) < nstmts and rng.random() < 0.8:
            # the accumulator idiom: total = Cls(); total += a; total op= b
            prog.append(['iop', st[1], 'add', rng.choice([b for b in bound if b != st[1]] or bound)])
            if len(prog) < nstmts:
                prog.append(['iop', st[1], rng.choice(['add', 'sub', 'mul']), rng.choice(bound)])
    return prog


def enc_stmt(cls, st):
    k = st[0]
    if k == 'new':
        return ['new', st[1], enc_term(cls, st[2]), to_gq(st[3])]
    if k == 'sbin':
        return ['sbin', st[1], st[2], st[3], to_gq(st[4])]
    if k == 'isop':
        return ['isop', st[1], st[2], to_gq(st[3])]
    return list(st)


# ---------------------------------------------------------------- execution on the real code

ERR = {TypeError: 'TypeError', ZeroDivisionError: 'ZeroDivisionError', ValueError: 'ValueError',
       RuntimeError: 'RuntimeError', KeyError: 'KeyError', IndexError: 'IndexError',
       AttributeError: 'AttributeError'}


def exec_stmt(C, env, st, cls=None):
    k = st[0]
    if k == 'new':
        env[st[1]] = C(as_container(cls, st[2], st[4] if len(st) > 4 else None), st[3])
    elif k == 'zero':
        env[st[1]] = C()
    elif k == 'alias':
        env[st[1]] = env[st[2]]
    elif k == 'bin':
        _, x, o, y, z = st
        a, b = env[y], env[z]
        env[x] = a + b if o == 'add' else a - b if o == 'sub' else a * b
    elif k == 'sbin':
        _, x, o, y, c = st
        a = env[y]
        env[x] = {'mul': lambda: a * c, 'rmul': lambda: c * a, 'div': lambda: a / c,
                  'add': lambda: a + c, 'radd': lambda: c + a, 'sub': lambda: a - c,
                  'rsub': lambda: c - a}[o]()
    elif k == 'neg':
        env[st[1]] = -env[st[2]]
    elif k == 'pow':
        env[st[1]] = env[st[2]] ** st[3]
    elif k == 'iop':
        _, x, o, y = st
        a, b = env[x], env[y]
        if o == 'add':
            a += b
        elif o == 'sub':
            a -= b
        else:
            a *= b
        env[x] = a
    elif k == 'isop':
        _, x, o, c = st
        a = env[x]
        if o == 'mul':
            a *= c
        elif o == 'div':
            a /= c
        elif o == 'add':
            a += c
        else:
            a -= c
        env[x] = a
    else:
        raise AssertionError(k)


def run_impl(C, cls, nvars, prog):
    """-> list of snapshots (protocol form) or {'error': kind}; plus ids for aliasing info"""
    env = {}
    outs = []
    for st in prog:
        try:
            exec_stmt(C, env, st, cls)
            outs.append([enc_op(cls, env[x].terms) if x in env else None for x in range(nvars)])
        except tuple(ERR) as e:
            outs.append({'error': ERR.get(type(e), type(e).__name__)})
    return outs


def big(jsnap):
    """does a model snapshot leave the range where float arithmetic is exact?"""
    for v in jsnap:
        if v is None:
            continue
        if len(v) > 400:
            return True
        for _, c in v:
            if max(abs(c[0]).bit_length(), c[1].bit_length(), abs(c[2]).bit_length(), c[3].bit_length()) > 50:
                return True
    return False


def canon_snap(snap):
    if isinstance(snap, dict):
        return snap
    return [None if v is None else canon_op_json(v) for v in snap]


def is_canonical(cls, jop):
    """qubit / ising / majorana results: indices strictly increasing, no identity factor"""
    for t, _ in jop:
        idx = [i for i, _ in t]
        if any(a >= b for a, b in zip(idx, idx[1:])):
            return False
        if cls in ('qubit', 'ising') and any(a == 0 for _, a in t):
            return False
    return True


# ---------------------------------------------------------------- Spec oracle

def leaf(jop):
    return ['leaf', jop]


TOL2 = Fraction(1, 10 ** 16)    # EQ_TOLERANCE ** 2 (1e-8 is a decade-exact bound for dyadic values)


def out_of_exact_regime(cls, x, y, sign):
    """`x += y` / `x -= y` of SymbolicOperators deletes sums with |v| < EQ_TOLERANCE: when such a
    sum is non-zero the result is only 'equal up to tolerance', which the properties do not ask
    us to decide — the Spec equation is not checked for that statement (counted)."""
    if cls == 'majorana' or x is None or y is None:
        return False
    xd = {tuple(map(tuple, t)): from_gq(c) for t, c in x}
    for t, c in y:
        a = xd.get(tuple(map(tuple, t)), (Fraction(0), Fraction(0)))
        b = from_gq(c)
        v = (a[0] + sign * b[0], a[1] + sign * b[1])
        n2 = v[0] * v[0] + v[1] * v[1]
        if n2 != 0 and n2 < TOL2 * 4:
            return True
    return False


def oracle_requests(cls, prog, outs, max_n, alg, d):
    """For each successful statement: the Spec equation it must satisfy, on the
    implementation's own values (before / after).  -> list of (stmt index, request)"""
    reqs = []
    prev = None
    for i, (st, snap) in enumerate(zip(prog, outs)):
        if isinstance(snap, dict):
            continue
        before = prev
        prev = snap
        k = st[0]

        def val(snapshot, x):
            return None if snapshot is None else snapshot[x]
        lhs = rhs = None
        if k == 'zero':
            lhs = leaf(snap[st[1]])
            rhs = leaf([])
        elif k == 'new':
            lhs = leaf(snap[st[1]])
            rhs = leaf([[enc_term(cls, st[2]), to_gq(st[3])]])
        elif k == 'bin':
            _, x, o, y, z = st
            if o in ('add', 'sub') and out_of_exact_regime(cls, val(before, y), val(before, z), 1 if o == 'add' else -1):
                reqs.append((i, None))
                continue
            lhs = leaf(snap[x])
            rhs = [o, leaf(val(before, y)), leaf(val(before, z))]
        elif k == 'sbin':
            _, x, o, y, c = st
            a = leaf(val(before, y))
            one = leaf([[[], [1, 1, 0, 1]]])
            cj = to_gq(c)
            lhs = leaf(snap[x])
            if o in ('mul', 'rmul'):
                rhs = ['smul', cj, a]
            elif o == 'div':
                inv = 1 / complex(c)
                rhs = ['smul', to_gq(inv), a]
            elif o in ('add', 'radd'):
                rhs = ['add', a, ['smul', cj, one]]
            elif o == 'sub':
                rhs = ['sub', a, ['smul', cj, one]]
            else:
                rhs = ['sub', ['smul', cj, one], a]
        elif k == 'neg':
            lhs = leaf(snap[st[1]])
            rhs = ['smul', [-1, 1, 0, 1], leaf(val(before, st[2]))]
        elif k == 'pow':
            lhs = leaf(snap[st[1]])
            rhs = ['pow', leaf(val(before, st[2])), st[3]]
        elif k == 'iop':
            _, x, o, y = st
            if o in ('add', 'sub') and out_of_exact_regime(cls, val(before, x), val(before, y), 1 if o == 'add' else -1):
                reqs.append((i, None))
                continue
            lhs = leaf(snap[x])
            rhs = [o, leaf(val(before, x)), leaf(val(before, y))]
        elif k == 'isop':
            _, x, o, c = st
            a = leaf(val(before, x))
            one = leaf([[[], [1, 1, 0, 1]]])
            cj = to_gq(c)
            lhs = leaf(snap[x])
            if o == 'mul':
                rhs = ['smul', cj, a]
            elif o == 'div':
                rhs = ['smul', to_gq(1 / complex(c)), a]
            elif o == 'add':
                rhs = ['add', a, ['smul', cj, one]]
            else:
                rhs = ['sub', a, ['smul', cj, one]]
        if lhs is None:
            continue
        reqs.append((i, {'op': 'spec.eq', 'alg': alg, 'n': max_n, 'd': d, 'lhs': lhs, 'rhs': rhs}))
    return reqs


def untouched_ok(prog, outs, C_ids):
    """No statement changes any object other than its in-place target (checked on
    the implementation's own snapshots, exactly)."""
    bad = []
    prev = None
    # which variables denote the same object is decided by the PROGRAM (only `alias` statements share an
    # object; every out-of-place statement binds its target to a new value), not by the identities the
    # implementation happens to return: a result that is secretly one of its operands must not excuse a
    # later in-place update of it from changing that operand
    obj, fresh = {}, 0
    for i, (st, snap) in enumerate(zip(prog, outs)):
        obj_prev = dict(obj)
        if not isinstance(snap, dict):
            if st[0] == 'alias':
                obj[st[1]] = obj.get(st[2])
            elif st[0] not in ('iop', 'isop'):
                fresh += 1
                obj[st[1]] = fresh
        if isinstance(snap, dict):
            continue
        if prev is not None:
            target = st[1]
            for x in range(len(snap)):
                if prev[x] is None or snap[x] is None:
                    continue
                if x == target:
                    continue
                # a variable aliasing the in-place target legitimately changes with it
                if st[0] in ('iop', 'isop') and obj_prev.get(x) is not None and obj_prev.get(x) == obj_prev.get(target):
                    continue
                if canon_op_json(prev[x]) != canon_op_json(snap[x]):
                    bad.append((i, x))
        prev = snap
    return bad


def run_impl_ids(C, cls, nvars, prog):
    env = {}
    outs, ids = [], []
    for st in prog:
        try:
            exec_stmt(C, env, st, cls)
            outs.append([enc_op(cls, env[x].terms) if x in env else None for x in range(nvars)])
        except tuple(ERR) as e:
            outs.append({'error': ERR.get(type(e), type(e).__name__)})
        ids.append([id(env[x]) if x in env else None for x in range(nvars)])
    return outs, ids


ALG = {'qubit': 'qubit', 'ising': 'qubit', 'fermion': 'fermion', 'majorana': 'majorana',
       'boson': 'boson', 'quad': ['quad', [1, 1, 0, 1]]}


def prog_support(cls, prog):
    m = -1
    deg = 0
    for st in prog:
        if st[0] == 'new':
            for f in st[2]:
                i = f if cls == 'majorana' else f[0]
                m = max(m, i)
            deg = max(deg, len(st[2]))
    return m, deg


def check_programs(ctx, stream, cls, progs, nvars, oracle=True):
    of = ctx.of
    C = cls_of(of, cls)
    reqs = [{'op': 'c01.prog', 'cls': cls, 'nvars': nvars, 'prog': [enc_stmt(cls, s) for s in p]} for p in progs]
    model_outs = ctx.driver.run(reqs)
    oracle_batch = []
    for p, mo in zip(progs, model_outs):
        io, ids = run_impl_ids(C, cls, nvars, p)
        case = {'cls': cls, 'nvars': nvars, 'prog': p, 'prog_enc': [enc_stmt(cls, s_) for s_ in p]}
        if any(s_[0] == 'new' and len(s_) > 4 and s_[4] != 'tuple' for s_ in p):
            case['forms'] = [s_[4] if s_[0] == 'new' and len(s_) > 4 else None for s_ in p]
            for s_ in p:
                if s_[0] == 'new' and len(s_) > 4:
                    stream.count('term-container:' + s_[4])
        if any(s_[0] in ('sbin', 'isop') and type(s_[-1]).__name__ not in ('float', 'complex') for s_ in p):
            case['scalar_types'] = [type(s_[-1]).__name__ if s_[0] in ('sbin', 'isop') else None for s_ in p]
        for s_ in p:
            if s_[0] in ('sbin', 'isop'):
                stream.count('scalar:' + type(s_[-1]).__name__ + (':zero' if s_[-1] == 0 else ''))
        stream.case(case)
        for st in p:
            stream.count('stmt:' + st[0] + (':' + str(st[2]) if st[0] in ('bin', 'sbin', 'iop', 'isop') else ''))
        # statements up to the first point where values leave the exact range (of either side)
        n_exact = len(p)
        for i, (a, b) in enumerate(zip(io, mo)):
            if (not isinstance(b, dict) and big(b)) or (not isinstance(a, dict) and big(a)):
                stream.discards += 1
                n_exact = i
                break
        for i, (a, b) in enumerate(zip(io[:n_exact], mo[:n_exact])):
            if isinstance(a, dict) or isinstance(b, dict):
                stream.count('error:' + (a.get('error') if isinstance(a, dict) else 'none'))
                if a != b:
                    stream.disagree('error kind at statement %d' % i, case, a, b)
                    break
                continue
            if canon_snap(a) != canon_snap(b):
                stream.disagree('terms after statement %d (%s)' % (i, show(p[i])), case,
                                a, b)
                break
        # the oracles below never look at the Model: they run on the whole exact prefix
        n_ok = n_exact
        pre = p[:n_ok]
        ipre = io[:n_ok]
        # canonical form of every stored result (qubit / ising / majorana)
        if cls in ('qubit', 'ising', 'majorana'):
            for i, snap in enumerate(ipre):
                if isinstance(snap, dict):
                    continue
                for x, v in enumerate(snap):
                    if v is not None and not is_canonical(cls, v):
                        stream.violate('result not in canonical form after statement %d' % i, case,
                                       {'variable': x, 'terms': v})
        for (i, x) in untouched_ok(pre, ipre, ids[:n_ok]):
            stream.violate('statement %d changed variable %d which is not its target' % (i, x), case,
                           {'statement': p[i]})
        if oracle:
            m, deg = prog_support(cls, p)
            if cls in ('boson', 'quad'):
                ok = (m + 1) <= 2 and deg <= 3 and len(pre) <= 8
                n, d = m + 1, 3
            else:
                nb = (m // 2 + 1) if cls == 'majorana' else m + 1
                ok = nb <= 6
                n, d = nb, 0
            if ok and not any(st[0] == 'pow' and st[3] > 2 for st in pre):
                for i, r in oracle_requests(cls, pre, ipre, n, ALG[cls], d):
                    if r is None:
                        stream.count('oracle:skipped-outside-exact-regime')
                    else:
                        oracle_batch.append((case, i, r))
            else:
                stream.count('oracle:skipped-large')
    if oracle_batch:
        answers = ctx.driver.run([r for _, _, r in oracle_batch])
        for (case, i, r), a in zip(oracle_batch, answers):
            stream.count('oracle:checked')
            if not a['eq']:
                stream.violate('statement %d does not denote the Spec result (%s)' % (i, show(case['prog'][i])),
                               case, {'witness_state': a['state'], 'implementation': a['lhs'], 'spec': a['rhs'],
                                      'request': r})


# ---------------------------------------------------------------- replay

def dec_scalar(j):
    a, b = from_gq(j)
    if b == 0:
        return int(a) if a.denominator == 1 and abs(a) < 2 ** 53 and False else float(a)
    return complex(float(a), float(b))


def dec_stmt(cls, st):
    from common import dec_term
    k = st[0]
    if k == 'new':
        return ['new', st[1], dec_term(cls, st[2]), dec_scalar(st[3])]
    if k == 'sbin':
        return ['sbin', st[1], st[2], st[3], dec_scalar(st[4])]
    if k == 'isop':
        return ['isop', st[1], st[2], dec_scalar(st[3])]
    return list(st)


def attach_scalar_types(prog, types):
    """restore the Python type of recorded scalars (int / bool / numpy scalars are floats in the encoding)"""
    import numpy
    cast = {'int': int, 'bool': bool, 'float64': numpy.float64, 'complex128': numpy.complex128}
    if types:
        for st, t in zip(prog, types):
            if t in cast and st[0] in ('sbin', 'isop'):
                c = st[-1]
                st[-1] = cast[t](c.real if t in ('int', 'bool') and isinstance(c, complex) else c)
    return prog


def attach_forms(prog, forms):
    if forms:
        for st, f in zip(prog, forms):
            if f and st[0] == 'new' and len(st) == 4:
                st.append(f)
    return prog


def replay(ctx, payload):
    """re-run a recorded program: True when it no longer fails"""
    v = payload.get('violation') or (payload.get('correspondence_disagreements') or [None])[0]
    if not v or 'input' not in v or 'prog_enc' not in v['input']:
        return None
    inp = v['input']
    cls = inp['cls']
    prog = attach_scalar_types(attach_forms([dec_stmt(cls, st) for st in inp['prog_enc']], inp.get('forms')),
                               inp.get('scalar_types'))
    st = Stream('replay', 'recorded program')
    check_programs(ctx, st, cls, [prog], inp['nvars'])
    for x in st.violations + st.disagreements:
        print('replay:', x['what'])
    return not (st.violations or st.disagreements)


def shrink(ctx, v):
    """delta debugging on the statement list of a violating program"""
    inp = v.get('input') or {}
    if 'prog_enc' not in inp:
        return v
    cls, nvars = inp['cls'], inp['nvars']
    prog = attach_scalar_types(attach_forms([dec_stmt(cls, st) for st in inp['prog_enc']], inp.get('forms')),
                               inp.get('scalar_types'))

    def fails(pr):
        st = Stream('shrink', '')
        try:
            check_programs(ctx, st, cls, [pr], nvars)
        except Exception:
            return None
        return st.violations[0] if st.violations else None
    best = fails(prog)
    if best is None:
        return v
    changed = True
    while changed and len(prog) > 1:
        changed = False
        for i in reversed(range(len(prog))):
            cand = prog[:i] + prog[i + 1:]
            r = fails(cand)
            if r is not None:
                prog, best, changed = cand, r, True
                break
    best['shrunk_from_statements'] = len(inp['prog_enc'])
    return best


# ---------------------------------------------------------------- streams

def exhaustive_programs():
    """all ordered pairs of 2-qubit Pauli strings (256, includes the 16 one-qubit
    pairs); all Majorana merges of index lists of length <= 3 over 4 indices"""
    out = {'qubit': [], 'majorana': []}
    paulis = [None, 'X', 'Y', 'Z']
    strings = []
    for a in paulis:
        for b in paulis:
            strings.append(tuple(f for f in ((0, a), (1, b)) if f[1] is not None))
    for s in strings:
        for t in strings:
            out['qubit'].append([['new', 0, s, 1.0], ['new', 1, t, 1.0], ['bin', 2, 'mul', 0, 1],
                                 ['iop', 0, 'mul', 1]])
    lists = [()]
    for n in (1, 2, 3):
        lists += list(itertools.product(range(4), repeat=n))
    for s in lists:
        for t in lists:
            out['majorana'].append([['new', 0, s, 1.0], ['new', 1, t, 1.0], ['bin', 2, 'mul', 0, 1]])
    return out


def run(ctx):
    streams = []
    ex = Stream('exhaustive-small', 'all ordered pairs of 2-qubit Pauli strings multiplied in and out of place; '
                'all products of Majorana index lists of length <= 3 over 4 indices; distinct = distinct programs')
    progs = exhaustive_programs()
    maj = progs['majorana']
    if ctx.tier == 'quick' and not ctx.drift:
        rng = rng_for(ctx.seed, 'c01-ex')
        maj = rng.sample(maj, 1500) + [p for p in maj if len(p[0][2]) + len(p[1][2]) <= 3]
    check_programs(ctx, ex, 'qubit', progs['qubit'], 3)
    check_programs(ctx, ex, 'majorana', maj, 3)
    ex.exhaustive = (len(maj) == len(progs['majorana']))
    streams.append(ex)

    rnd = Stream('random-programs', 'seeded random programs (<= 12 statements, <= 4 variables, terms of length <= 6, '
                 'indices <= 12, int/float/complex dyadic coefficients, forced aliasing in in-place statements); '
                 'after every statement all variables are compared exactly; distinct = distinct programs')
    nprog = budget(ctx.tier, 60, 3000)
    if ctx.drift:
        nprog = max(nprog, 300)
    for cls in CLASSES:
        rng = rng_for(ctx.seed, 'c01-' + cls)
        progs = []
        for k in range(nprog):
            u = rng.random()
            small = u < 0.70
            max_index = 3 if small else 12
            if cls in ('boson', 'quad') and small:
                max_index = 1
            max_len = 3 if small else 6
            if u > 0.92:
                max_index, max_len = -1, 4       # large indices (correspondence + canonical form only)
            progs.append(gen_program(rng, cls, 4, rng.randint(3, 12), max_len, max_index))
        check_programs(ctx, rnd, cls, progs, 4)
        rnd.count('class:' + cls, len(progs))
    streams.append(rnd)
    streams.append(stream_class_helpers(ctx))
    return streams


def stream_class_helpers(ctx):
    """SymbolicOperator.accumulate / get_operators / get_operator_groups: sums through the class helpers"""
    st = Stream('class-helpers',
                'Cls.accumulate(operators, start) with and without an explicit start (also start among the summands '
                'and start = Cls.zero()), followed by an in-place update of the result: value = Model program '
                '"copy of start; += every summand", the start operand and all summands unchanged, the result not '
                'aliased to start; get_operators() / get_operator_groups(k): fresh single-term / grouped operators '
                'whose accumulate() is the original; distinct = distinct cases')
    of = ctx.of
    ncase = budget(ctx.tier, 40, 600)
    if ctx.drift:
        ncase = max(ncase, 150)
    for cls in CLASSES:
        if cls == 'majorana':
            continue
        C = cls_of(of, cls)
        rng = rng_for(ctx.seed, 'c01-acc-' + cls)
        reqs, cases = [], []
        for _ in range(ncase):
            k = rng.randint(1, 4)
            news = [['new', i, rand_term(rng, cls, 3, 3 if cls not in ('boson', 'quad') else 1), rand_scalar(rng)]
                    for i in range(k)]
            ys = [rng.randrange(k) for _ in range(rng.randint(0, 4))]
            mode = rng.choice(['none', 'var', 'var-in-summands', 'zero'])
            R = k            # result variable
            if mode == 'none':
                head = [['zero', R]]
                start = None
            elif mode == 'zero':
                head = [['zero', k + 1], ['sbin', R, 'mul', k + 1, 1.0]]
                start = k + 1
            else:
                start = rng.randrange(k)
                if mode == 'var-in-summands':
                    ys = ys + [start, start][:rng.randint(1, 2)]
                head = [['sbin', R, 'mul', start, 1.0]]
            prog = news + head + [['iop', R, 'add', y] for y in ys] + [['iop', R, 'add', 0], ['isop', R, 'mul', 2.0]]
            case = {'cls': cls, 'check': 'accumulate', 'news': [[n[0], n[1], enc_term(cls, n[2]), to_gq(n[3])] for n in news],
                    'summands': ys, 'start': mode if start is None or mode == 'zero' else start}
            cases.append((case, news, ys, mode, start, len(news) + len(head) + len(ys) - 1))
            reqs.append({'op': 'c01.prog', 'cls': cls, 'nvars': k + 2, 'prog': [enc_stmt(cls, s_) for s_ in prog]})
        answers = ctx.driver.run(reqs)
        for (case, news, ys, mode, start, idx), mo in zip(cases, answers):
            st.case(case)
            st.count('accumulate:start=' + (mode if mode in ('none', 'zero') else 'operand' if mode == 'var' else 'operand-also-summand'))
            try:
                env = {}
                for n in news:
                    exec_stmt(C, env, n, cls)
                k = len(news)
                if mode == 'zero':
                    env[k + 1] = C.zero()
                before = {i: enc_op(cls, env[i].terms) for i in env}
                sv = env[start] if start is not None else None
                r = C.accumulate([env[y] for y in ys], sv) if sv is not None or rng.random() < 0.5 \
                    else C.accumulate([env[y] for y in ys])
                res1 = enc_op(cls, r.terms)
                after1 = {i: enc_op(cls, env[i].terms) for i in env}
                r += env[0]
                r *= 2.0
                res2 = enc_op(cls, r.terms)
                after2 = {i: enc_op(cls, env[i].terms) for i in env}
            except tuple(ERR) as e:
                st.violate('accumulate raised %s' % type(e).__name__, case, {})
                continue
            if any(isinstance(x, dict) for x in mo) or big(mo[-1]):
                st.discards += 1
                continue
            if canon_op_json(res1) != canon_op_json(mo[idx][k]):
                st.violate('Cls.accumulate(operators, start) is not start + the sum of the operators', case,
                           {'implementation': res1, 'model': mo[idx][k]})
                continue
            if {i: canon_op_json(v) for i, v in after1.items()} != {i: canon_op_json(v) for i, v in before.items()}:
                st.violate('Cls.accumulate changed one of its operands (start or a summand)', case,
                           {'before': before, 'after': after1})
                continue
            if canon_op_json(res2) != canon_op_json(mo[-1][k]) or \
                    {i: canon_op_json(v) for i, v in after2.items()} != {i: canon_op_json(v) for i, v in before.items()}:
                st.violate('an in-place update of the result of Cls.accumulate changed an operand (result aliases start) '
                           'or gave a wrong value', case, {'before': before, 'after': after2, 'result': res2,
                                                           'model_result': mo[-1][k]})
                continue
            # get_operators / get_operator_groups
            try:
                a = env[0]
                singles = list(a.get_operators())
                back = C.accumulate(singles)
                ok = canon_op_json(enc_op(cls, back.terms)) == canon_op_json(enc_op(cls, a.terms)) and \
                    all(len(o.terms) == 1 for o in singles)
                for o in singles:
                    o *= 3.0
                ok = ok and canon_op_json(enc_op(cls, a.terms)) == canon_op_json(before[0])
                if len(a.terms) >= 1:
                    g = rng.randint(1, max(1, len(a.terms)))
                    groups = list(a.get_operator_groups(g))
                    back = C.accumulate(groups)
                    ok = ok and canon_op_json(enc_op(cls, back.terms)) == canon_op_json(enc_op(cls, a.terms))
                st.count('get_operators/groups checked')
                if not ok:
                    st.violate('get_operators / get_operator_groups do not add up to the operator, or share state with it',
                               case, {})
            except tuple(ERR) as e:
                st.violate('get_operators / get_operator_groups raised %s' % type(e).__name__, case, {})
    return st
